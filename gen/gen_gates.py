#!/usr/bin/env python3
"""Regenerate coq/Gen/GateSites.v: the inventory of the places where the non-test code of /repo/src/**/*.rs
consults, passes on, declares or constructs an `Extensions` value, read from the source on every run of
the C02 check.

C02 is proved by gate lemmas over the models of the parser and of the analysis: every place where the Rust
code asks for an extension flag is a gate of the model (`has X_..`, `x_modes`, `x_inline`, `x_advanced`).
That list of gates was written by hand.  This inventory ties it to the source: a new
`bp.extension(Extensions::X)` (a new place where behaviour depends on a flag), a different flag at an
existing place, a new way of handing the set on, or a changed definition of the constants changes
[GateSites.sites] and breaks the obligation C02_gate_inventory (Properties/C02.v); Model/GateMap.v maps every
entry to the model function and flag test that renders it.

An entry is (file below src/ without .rs, enclosing fn or item, flag names, normalised text) - never a line
number, and the list is SORTED, so moving code, adding lines, reordering functions or running rustfmt is
harmless.

Token level (lexer of gen_labels.py: source text of every token kept, strings become <str>; attributes and
items under cfg(test) removed by gen_shared.strip_attributes).  A MENTION is an identifier `Extensions`,
`extensions` or `extension`, or `Self` inside the bitflags! block that defines Extensions or inside an
`impl .. Extensions` block.  What becomes an entry:
  use ..;                         nothing (an import neither consults nor constructs)
  bitflags! { struct Extensions } `struct Extensions: u32` and one entry `const NAME = EXPR` per constant
  impl [Trait for] Extensions     `impl Trait for Extensions`
  struct / enum / union body      `FIELD: TYPE` for each field that mentions
  fn signature                    `fn(PARAM: TYPE, ..) -> RET` restricted to the parameters / return type that mention
  expression (fn body, const)     the OPERAND around the mention: extended to the left and to the right up to
                                  `;` `,` `=>` `&&` `||` a plain `=` an unmatched bracket, a block `{` or a
                                  keyword; a method chain is cut after the last call that mentions
                                  (`bp.extension(Extensions::X).then(..)` is `bp.extension(Extensions::X)`);
                                  a leading `!` is kept.  Then, by position:
                                    whole argument of a call        CALLEE(#k: OPERAND)
                                    field of a struct literal       PATH{OPERAND}
                                    whole initialiser of a let      let NAME = OPERAND, and every later statement of
                                                                    the same fn that uses NAME becomes an entry
                                                                    `use NAME: STATEMENT` (one step, no data flow)
Flag names: the upper-case constants after `Extensions::` / `Self::` in the text, and `all()` / `empty()` /
`default()`.

The file is rewritten only when its content changes."""
import os
import re
import sys

sys.path.insert(0, os.path.join(os.path.dirname(os.path.abspath(__file__)), ".."))
from vlib import common  # noqa: E402
import gen_shared as gs  # noqa: E402
import gen_labels as gl  # noqa: E402

TYPE = "Extensions"
MENTION_IDS = {"Extensions", "extensions", "extension"}
CTORS = {"all", "empty", "default", "from_bits", "from_bits_truncate", "from_bits_retain", "from_name"}
STOP_KW = {"if", "while", "match", "return", "let", "in", "else", "for", "loop", "move", "break", "unsafe", "fn",
           "where", "const", "static"}
WORD = ("id", "lit", "life", "str")
SPACED = {"|", "&", "^", "==", "!=", "<<", ">>", "|=", "&=", "^=", "=", "&&", "||", "+", "-", "*", "/", "<=", ">="}
EXCLUDE_DIRS = {"bindings"}          # the bindings are a crate of their own (/repo/bindings); never below src/


# ------------------------------------------------------------------ text
def text_of(toks):
    """canonical text: one blank between two words, after a comma, around a binary operator
    (adjacent punctuation tokens are first joined: == != << |= ..)"""
    parts = []
    i, n = 0, len(toks)
    while i < n:
        t = toks[i]
        if t.k == "p" and i + 1 < n and toks[i + 1].k == "p":
            two = t.t + toks[i + 1].t
            if two in ("==", "!=", "<<", ">>", "|=", "&=", "^=", "&&", "||", "<=", ">=") and not (
                    two == "||" and (i == 0 or toks[i - 1].t in ("(", ","))):
                parts.append(("op", two))
                i += 2
                continue
        parts.append((t.k, t.t))
        i += 1
    out = []
    prev = None
    for k, s in parts:
        sep = ""
        if prev is not None:
            pk, ps = prev
            binary = pk in WORD or ps in (")", "]")
            if (k in ("p", "op") and s in SPACED and binary) or (pk in ("p", "op") and ps in SPACED and out and out[-1].startswith(" ")):
                sep = " "
            elif ps in (",",) or (k == "p" and s == "=>") or ps == "=>":
                sep = " "
            elif pk in WORD and k in WORD:
                sep = " "
            elif ps == ":" and k in WORD:
                sep = " "
            elif ps == "->" or s == "->":
                sep = " "
        out.append(sep + s)
        prev = (k, s)
    s = "".join(out)
    s = "".join(ch if 32 <= ord(ch) < 127 else "?" for ch in s)
    return s.replace("(*", "( *").replace("*)", "* )")


def match_open(toks, i):
    """toks[i] is a closing bracket; index of its matching opening bracket (0 when unbalanced)"""
    depth = 0
    while i >= 0:
        t = toks[i]
        if t.k == "p":
            if t.t in gs.CLOSE:
                depth += 1
            elif t.t in gs.OPEN:
                depth -= 1
                if depth == 0:
                    return i
        i -= 1
    return 0


# ------------------------------------------------------------------ items
def generics_end(toks, j):
    """toks[j] is `<`: index just after the matching `>` (-> is one token, so it does not count)"""
    depth = 0
    n = len(toks)
    while j < n:
        if toks[j].k == "p" and toks[j].t == "<":
            depth += 1
        elif toks[j].k == "p" and toks[j].t == ">":
            depth -= 1
            if depth == 0:
                return j + 1
        elif toks[j].k == "p" and toks[j].t in ("{", ";"):
            return j
        j += 1
    return n


def impl_ranges(toks):
    """-> list of dict(type, trait, head=(a, b), body=(b, e)) for every `impl`"""
    out = []
    n = len(toks)
    for i, t in enumerate(toks):
        if not (t.k == "id" and t.t == "impl"):
            continue
        if i > 0 and toks[i - 1].k == "p" and toks[i - 1].t in ("(", ",", ":", "->", "<", "&", "+", "="):
            continue                                  # impl Trait in type position
        j = i + 1
        if j < n and toks[j].t == "<":
            j = generics_end(toks, j)
        k = j
        depth = 0
        for_at = None
        where_at = None
        while k < n:
            x = toks[k]
            if x.k == "p" and x.t == "<":
                depth += 1
            elif x.k == "p" and x.t == ">":
                depth -= 1
            elif x.k == "p" and x.t in ("{", ";") and depth <= 0:
                break
            elif x.k == "id" and x.t == "for" and depth <= 0 and for_at is None:
                for_at = k
            elif x.k == "id" and x.t == "where" and depth <= 0 and where_at is None:
                where_at = k
            k += 1
        if not (k < n and toks[k].t == "{"):
            continue
        end_ty = where_at if where_at is not None else k
        ty_toks = toks[(for_at + 1 if for_at is not None else j):end_ty]
        tr_toks = toks[j:for_at] if for_at is not None else []

        def last_path_id(ts):
            depth = 0
            name = None
            for x in ts:
                if x.k == "p" and x.t == "<":
                    depth += 1
                elif x.k == "p" and x.t == ">":
                    depth -= 1
                elif x.k == "id" and depth == 0:
                    name = x.t
            return name
        out.append({"type": last_path_id(ty_toks), "trait": last_path_id(tr_toks), "head": (i, k),
                    "body": (k, gs.match_close(toks, k))})
    return out


def struct_ranges(toks):
    """-> list of dict(name, kind, body=(a, b)) for struct / enum / union items with a brace or paren body"""
    out = []
    n = len(toks)
    for i, t in enumerate(toks):
        if t.k == "id" and t.t in ("struct", "enum", "union") and i + 1 < n and toks[i + 1].k == "id":
            j = i + 2
            if j < n and toks[j].t == "<":
                j = generics_end(toks, j)
            k = j
            while k < n and not (toks[k].k == "p" and toks[k].t in ("{", "(", ";")):
                k += 1
            if k < n and toks[k].t in ("{", "("):
                out.append({"name": toks[i + 1].t, "kind": t.t, "head": (i, k), "body": (k, gs.match_close(toks, k))})
    return out


def bitflags_ranges(toks):
    """-> list of (a, b) of the brace block of `struct Extensions: T { .. }` inside a bitflags! invocation"""
    out = []
    n = len(toks)
    for i, t in enumerate(toks):
        if t.k == "id" and t.t == "bitflags" and i + 2 < n and toks[i + 1].t == "!" and toks[i + 2].t in gs.OPEN:
            e = gs.match_close(toks, i + 2)
            j = i + 3
            while j < e:
                if toks[j].k == "id" and toks[j].t == "struct" and toks[j + 1].k == "id":
                    k = j + 2
                    while k < e and toks[k].t != "{":
                        k += 1
                    if k < e:
                        ke = gs.match_close(toks, k)
                        out.append({"name": toks[j + 1].t, "head": (j, k), "body": (k, ke), "macro": (i, e)})
                        j = ke
                        continue
                j += 1
    return out


def fn_items(toks):
    """-> list of dict(name, sig=(fn index, body open), body=(open, close), params, ret) for fns with a body"""
    out = []
    n = len(toks)
    for f in gl.fn_ranges(toks):
        a, b = f["body"]
        i = a
        while i >= 0 and not (toks[i].k == "id" and toks[i].t == "fn" and toks[i + 1].k == "id" and toks[i + 1].t == f["name"]):
            i -= 1
        f = dict(f)
        f["sig"] = (max(i, 0), a)
        out.append(f)
    return out


def innermost(ranges, i, key="body"):
    best = None
    for r in ranges:
        a, b = r[key]
        if a <= i < b and (best is None or a >= best[key][0]):
            best = r
    return best


# ------------------------------------------------------------------ operands
def is_op_eq(toks, k):
    """toks[k] is `=`: (is part of a two-token operator, index of the operator's first token)"""
    pv = toks[k - 1] if k > 0 else None
    nx = toks[k + 1] if k + 1 < len(toks) else None
    if pv is not None and pv.k == "p" and pv.t in ("=", "!", "<", ">", "+", "-", "*", "/", "|", "&", "^", "%"):
        return True, k - 1
    if nx is not None and nx.k == "p" and nx.t == "=":
        return True, k
    return False, k


def expand_left(toks, i, lo):
    """start index of the operand that contains token i (never below lo)"""
    k = i - 1
    while k >= lo:
        t = toks[k]
        if t.k == "p":
            if t.t in gs.CLOSE:
                k = match_open(toks, k) - 1
                continue
            if t.t in gs.OPEN or t.t in (";", ",", "=>"):
                break
            if t.t == "&" and k - 1 >= lo and toks[k - 1].k == "p" and toks[k - 1].t == "&":
                break
            if t.t == "|" and k - 1 >= lo and toks[k - 1].k == "p" and toks[k - 1].t == "|":
                break
            if t.t == "=":
                op, first = is_op_eq(toks, k)
                if not op:
                    break
                k = first - 1
                continue
        elif t.k == "id" and t.t in STOP_KW:
            break
        k -= 1
    return k + 1


def expand_right(toks, i, hi):
    """end index (exclusive) of the operand that contains token i (never above hi)"""
    k = i + 1
    while k < hi:
        t = toks[k]
        if t.k == "p":
            if t.t == "{":
                break
            if t.t in gs.OPEN:
                k = gs.match_close(toks, k)
                continue
            if t.t in gs.CLOSE or t.t in (";", ",", "=>"):
                break
            if t.t in ("&", "|") and k + 1 < hi and toks[k + 1].k == "p" and toks[k + 1].t == t.t:
                break
            if t.t == "=":
                op, first = is_op_eq(toks, k)
                if not op:
                    break
                k = max(k, first + 1) + 1
                continue
        elif t.k == "id" and t.t in ("else",):
            break
        k += 1
    return k


def cut_chain(toks, a, b, is_mention):
    """cut the method chain of the operand toks[a:b] after the last element that mentions"""
    last = None            # index just after the last depth-0 element that mentions
    bare = False           # that element is a bare value (`self.extensions`), not a call
    k = a
    while k < b:
        t = toks[k]
        if t.k == "p" and t.t in gs.OPEN:
            e = min(gs.match_close(toks, k), b)
            if any(is_mention(j) for j in range(k, e)):
                last, bare = e, False
            k = e
            continue
        if is_mention(k):
            last = k + 1
            bare = t.t == "extensions"
            # a path / constructor that follows: Extensions::all(), Self::COMPAT
            j = k + 1
            while j + 1 < b and toks[j].k == "p" and toks[j].t == "::" and toks[j + 1].k == "id":
                j += 2
                last, bare = j, False
            if last == j and j < b and toks[j].t == "(" and not bare:
                last = min(gs.match_close(toks, j), b)
            k = last
            continue
        k += 1
    if last is None:
        return b
    k = last
    if bare and k + 1 < b and toks[k].t == "." and toks[k + 1].k == "id":
        k += 2                                         # one method on the value: self.extensions.bits()
        if k < b and toks[k].t == "(":
            k = min(gs.match_close(toks, k), b)
    while k < b and toks[k].t == "?":
        k += 1
    if k < b and toks[k].k == "p" and toks[k].t == ".":
        return k
    return b


def callee_text(toks, open_at):
    """text of the path / method / macro name before the `(` at open_at, or None"""
    k = open_at - 1
    if k >= 0 and toks[k].t == "!":
        k -= 1
    if not (k >= 0 and toks[k].k == "id") or toks[k].t in STOP_KW:
        return None
    e = k + 1
    while k - 2 >= 0 and toks[k - 1].k == "p" and toks[k - 1].t == "::" and toks[k - 2].k == "id":
        k -= 2
    s = text_of(toks[k:open_at])
    if k - 1 >= 0 and toks[k - 1].k == "p" and toks[k - 1].t == ".":
        s = "." + s
    return s


def flags_of(toks, a, b, self_is_type):
    out = []
    for k in range(a, b):
        t = toks[k]
        if t.k == "id" and (t.t == TYPE or (t.t == "Self" and self_is_type)) and k + 2 < b + 2 and k + 2 < len(toks) \
                and toks[k + 1].t == "::" and toks[k + 2].k == "id":
            name = toks[k + 2].t
            if name.isupper() or (name.upper() == name and "_" in name):
                out.append(name)
            elif name in CTORS:
                out.append(name + "()")
    seen = []
    for x in out:
        if x not in seen:
            seen.append(x)
    return seen


# ------------------------------------------------------------------ one file
def scan_source(src, stem):
    """-> list of dict(file, fn, flags, text, line, kind)"""
    toks, all_test = gs.strip_attributes(gl.lex(src))
    if all_test:
        return []
    n = len(toks)
    fns = fn_items(toks)
    impls = impl_ranges(toks)
    structs = struct_ranges(toks)
    bfs = bitflags_ranges(toks)
    ext_bfs = [b for b in bfs if b["name"] == TYPE]
    ext_impls = [m for m in impls if m["type"] == TYPE]

    def self_is_type(i):
        return any(b["body"][0] <= i < b["body"][1] for b in ext_bfs) or \
            any(m["body"][0] <= i < m["body"][1] for m in ext_impls)

    def is_mention(i):
        t = toks[i]
        if t.k != "id":
            return False
        if t.t in MENTION_IDS:
            return True
        return t.t == "Self" and self_is_type(i)

    def fn_label(i):
        f = innermost(fns, i)
        if f is None:
            f = next((g for g in fns if g["sig"][0] <= i < g["sig"][1]), None)
        if f is None:
            return "-", None
        m = innermost(impls, f["sig"][0])
        return ("%s::%s" % (m["type"], f["name"]) if m and m["type"] else f["name"]), f

    found = []
    done = [False] * n

    def add(kind, at, fn, flags, text):
        found.append({"file": stem, "fn": fn, "flags": flags, "text": text, "line": toks[at].line, "kind": kind})

    # use items: nothing
    i = 0
    while i < n:
        t = toks[i]
        if t.k == "id" and t.t == "use" and (i == 0 or toks[i - 1].t in (";", "}", "{", "pub", ")")):
            j = i
            while j < n and toks[j].t != ";":
                done[j] = True
                j += 1
            i = j
        i += 1

    # the bitflags! definition
    for b in ext_bfs:
        ha, hb = b["head"]
        add("B", ha, "bitflags!", [], text_of(toks[ha:hb]))
        for j in range(ha, hb):
            done[j] = True
        a, e = b["body"]
        j = a + 1
        while j < e - 1:
            if toks[j].k == "id" and toks[j].t == "const" and toks[j + 1].k == "id":
                k = j
                while k < e - 1 and toks[k].t != ";":
                    k += 1
                add("B", j, "bitflags!", [toks[j + 1].t] + [x for x in flags_of(toks, j + 2, k, True) if x != toks[j + 1].t],
                    text_of(toks[j:k]))
                for x in range(j, k):
                    done[x] = True
                j = k
            j += 1
    # impl heads
    for m in impls:
        a, b = m["head"]
        if any(is_mention(j) and not done[j] for j in range(a, b)):
            add("D", a, "-", [], text_of(toks[a:b]))
            for j in range(a, b):
                done[j] = True
    # struct fields
    for s in structs:
        if any(s["body"][0] >= b["macro"][0] and s["body"][1] <= b["macro"][1] for b in ext_bfs):
            continue
        a, b = s["body"]
        for (pa, pb) in gl.split_args(toks, a):
            if any(is_mention(j) and not done[j] for j in range(pa, pb)):
                part = toks[pa:pb]
                while part and part[0].k == "id" and part[0].t in ("pub", "crate", "super") or \
                        (part and part[0].k == "p" and part[0].t in ("(", ")")):
                    part = part[1:]
                add("D", pa, "%s %s" % (s["kind"], s["name"]), [], text_of(part))
                for j in range(pa, pb):
                    done[j] = True
        ha, hb = s["head"]
        if any(is_mention(j) and not done[j] for j in range(ha, hb)):
            add("D", ha, "%s %s" % (s["kind"], s["name"]), [], text_of(toks[ha:hb]))
            for j in range(ha, hb):
                done[j] = True
    # fn signatures
    for f in fns:
        a, b = f["sig"]
        if not any(is_mention(j) and not done[j] for j in range(a, b)):
            continue
        j = a + 2
        if j < b and toks[j].t == "<":
            j = generics_end(toks, j)
        pieces = []
        ret = ""
        if j < b and toks[j].t == "(":
            pe = gs.match_close(toks, j)
            for (pa, pb) in gl.split_args(toks, j):
                if any(is_mention(x) for x in range(pa, pb)):
                    pieces.append(text_of([x for x in toks[pa:pb] if not (x.k == "id" and x.t == "mut")]))
            if any(is_mention(x) for x in range(pe, b)):
                ret = " " + text_of(toks[pe:b])
        label, _ = fn_label(a)
        if label == "-":
            m = innermost(impls, a)
            label = ("%s::%s" % (m["type"], f["name"])) if m and m["type"] else f["name"]
        add("D", a, label, [], "fn(%s)%s" % (", ".join(pieces), ret))
        for x in range(a, b):
            done[x] = True

    # expressions
    gate_vars = []            # (fn dict, name, from token index, text of the binder)
    for i in range(n):
        if done[i] or not is_mention(i):
            continue
        label, f = fn_label(i)
        lo, hi = (f["body"][0] + 1, f["body"][1] - 1) if f else (0, n)
        if f is None:
            # const / static initialiser or another item: the statement up to `;`
            lo = i
            while lo > 0 and toks[lo - 1].t not in (";", "{", "}"):
                lo -= 1
            hi = i
            while hi < n and toks[hi].t not in (";",):
                hi += 1
        if f is None:
            a, b0, b = lo, hi, hi
        else:
            a = expand_left(toks, i, lo)
            b0 = expand_right(toks, i, hi)
            b = cut_chain(toks, a, b0, is_mention)
        for j in range(a, b):
            if is_mention(j):
                done[j] = True
        flags = flags_of(toks, a, b, self_is_type(i))
        core = text_of(toks[a:b])
        text = core
        kind = "E"
        pv = toks[a - 1] if a - 1 >= 0 else None
        nx = toks[b] if b < n else None
        opener, commas = None, 0
        if pv is not None and pv.k == "p" and pv.t in ("(", "{", ",") and nx is not None and nx.t in (",", ")", "}"):
            k = a - 1
            while k >= 0:
                x = toks[k]
                if x.k == "p":
                    if x.t in gs.CLOSE:
                        k = match_open(toks, k) - 1
                        continue
                    if x.t in gs.OPEN:
                        opener = k
                        break
                    if x.t == ",":
                        commas += 1
                k -= 1
        if opener is not None and toks[opener].t == "(" and callee_text(toks, opener):
            # whole argument of a call
            text, kind = "%s(#%d: %s)" % (callee_text(toks, opener), commas, core), "A"
        elif opener is not None and toks[opener].t == "{" and f is not None and opener > f["body"][0] \
                and toks[opener - 1].k == "id" and toks[opener - 1].t[:1].isupper():
            # field of a struct literal
            p = opener - 1
            while p - 2 >= 0 and toks[p - 1].t == "::" and toks[p - 2].k == "id":
                p -= 2
            text, kind = "%s{%s}" % (text_of(toks[p:opener]), core), "S"
        elif pv is not None and pv.k == "p" and pv.t == "=" and nx is not None and nx.t == ";" and b == b0:
            # whole initialiser of a let
            k = a - 2
            while k >= lo and toks[k].t not in (";", "{", "}") and not (toks[k].k == "id" and toks[k].t == "let"):
                k -= 1
            if k >= lo and toks[k].k == "id" and toks[k].t == "let":
                pat = [x for x in toks[k + 1:a - 1]]
                colon = next((q for q, x in enumerate(pat) if x.k == "p" and x.t == ":"), None)
                names = [x.t for x in (pat if colon is None else pat[:colon]) if x.k == "id" and x.t not in ("mut", "ref")]
                text, kind = "let %s = %s" % (text_of(pat if colon is None else pat[:colon]), core), "L"
                if len(names) == 1 and f is not None:
                    gate_vars.append((f, names[0], b, text, flags, label))
        add(kind, i, label, flags, text)

    # uses of a variable bound to a test: the statement that uses it
    for f, name, start, binder, flags, label in gate_vars:
        e = f["body"][1]
        j = start
        seen_stmt = set()
        while j < e:
            t = toks[j]
            if t.k == "id" and t.t == name and not (toks[j - 1].k == "p" and toks[j - 1].t in (".", "::")):
                a = j
                while a > start and toks[a - 1].t not in (";", "{", "}"):
                    a -= 1
                b = j
                while b < e and toks[b].t not in (";", "{", "}"):
                    b += 1
                if a not in seen_stmt:
                    seen_stmt.add(a)
                    add("U", j, label, flags, "use %s: %s" % (name, text_of(toks[a:b])))
            j += 1
    return found


def rs_files(root):
    out = []
    for d, dirs, files in os.walk(root):
        dirs[:] = sorted(x for x in dirs if x not in EXCLUDE_DIRS)
        for fn in sorted(files):
            if fn.endswith(".rs"):
                out.append(os.path.join(d, fn))
    return out


def sort_key(it):
    return (it["file"], it["fn"], it["text"], it["flags"])


def scan_tree(root=None):
    root = root or os.path.join(common.REPO, "src")
    items = []
    for path in rs_files(root):
        stem = os.path.relpath(path, root)[:-3].replace(os.sep, "/")
        items += scan_source(open(path, encoding="utf-8").read(), stem)
    items.sort(key=sort_key)
    return items


def key_of(it):
    return (it["file"], it["fn"], tuple(it["flags"]), it["text"])


def real_flags(it):
    return [f for f in it["flags"] if not f.endswith("()")]


def keys_of(items):
    """what is PINNED (C02_gate_inventory): sorted set of (class, file, fn, detail)
         gate   file fn FLAG    the fn consults FLAG (flag tests, lets bound to a test and their uses collapse:
                                rewriting the test, reading the flag once into a local, early returns are harmless)
         carry  file fn ""      the fn / item declares, stores, hands on or constructs an Extensions value without
                                testing a flag
         const  file bitflags! TEXT   the definition of the type and of each constant, with its value"""
    ks = set()
    for it in items:
        if it["kind"] == "B":
            ks.add(("const", it["file"], it["fn"], it["text"]))
        elif it["kind"] in ("E", "L", "U") and real_flags(it):
            for f in real_flags(it):
                ks.add(("gate", it["file"], it["fn"], f))
        else:
            ks.add(("carry", it["file"], it["fn"], ""))
    ks = {k for k in ks if not (k[0] == "carry" and any(g[0] == "gate" and g[1:3] == k[1:3] for g in ks))} | \
         {k for k in ks if k[0] != "carry"}
    return sorted(ks)


def coq_key(k):
    return "  (%s, %s, %s, %s)" % tuple(coq_string(x) for x in k)


def coq_string(s):
    s = "".join(ch if 32 <= ord(ch) < 127 else "?" for ch in s)
    return '"' + s.replace('"', '""') + '"'


def coq_entry(k):
    return "  (%s, %s, [%s],\n   %s)" % (coq_string(k[0]), coq_string(k[1]), "; ".join(coq_string(x) for x in k[2]),
                                         coq_string(k[3]))


def render(items):
    out = ["(* REGENERATED on every run of the C02 check from /repo/src/**/*.rs by gen/gen_gates.py: every place of",
           "   the non-test code where an Extensions value is consulted (.extension(..), .contains(..), a variable",
           "   bound to such a test), passed on (argument of a call, field of a struct literal), declared (struct",
           "   field, fn parameter / return type, impl) or constructed (the bitflags! constants, Extensions::all()),",
           "   as (file below src/, enclosing fn or item, flag names, normalised text), SORTED.  Line numbers are",
           "   deliberately absent: moving code is harmless, a new gate, a different flag at an existing gate or a",
           "   changed constant changes [sites] (obligation C02_gate_inventory, Properties/C02.v; the model",
           "   function and flag test that renders each entry: Model/GateMap.v).",
           "   This committed copy is a snapshot so that a fresh clone builds. *)",
           "From Coq Require Import List String.", "Import ListNotations.", "Local Open Scope string_scope.",
           "Definition site : Type := (string * string * list string * string)%type.",
           "Definition sites : list site := ["]
    out.append(";\n".join(coq_entry(key_of(it)) for it in items))
    out.append("].")
    out += ["(* what C02_gate_inventory pins: (class, file, fn, detail) - gate: the fn consults the flag [detail];",
            "   carry: the fn / item declares, stores, hands on or constructs a set without testing a flag; const: the",
            "   definition of the type and of each constant with its value.  [sites] above is informative detail. *)",
            "Definition key : Type := (string * string * string * string)%type.",
            "Definition keys : list key := ["]
    out.append(";\n".join(coq_key(k) for k in keys_of(items)))
    out.append("].")
    return "\n".join(out) + "\n"


def regenerate():
    items = scan_tree()
    path = os.path.join(common.COQ, "Gen/GateSites.v")
    txt = render(items)
    changed = not (os.path.exists(path) and open(path, encoding="utf-8").read() == txt)
    if changed:
        with open(path, "w", encoding="utf-8") as f:
            f.write(txt)
    return {"changed": changed, "items": items}


STR = r'"((?:[^"]|"")*)"'
KEY = re.compile(r'\(\s*' + STR + r'\s*,\s*' + STR + r'\s*,\s*' + STR + r'\s*,\s*' + STR + r'\s*\)')


def expected_keys():
    """the list in the statement of C02_gate_inventory (the single place where the expectation lives)"""
    src = open(os.path.join(common.COQ, "Properties/C02.v"), encoding="utf-8").read()
    m = re.search(r"Theorem\s+C02_gate_inventory\s*:\s*GateSites\.keys\s*=\s*\[(.*?)\n\s*\](?:%string)?\s*\.\s*Proof", src, flags=re.S)
    if not m:
        return None
    return [tuple(x.replace('""', '"') for x in t) for t in KEY.findall(m.group(1))]


def diff(items, expected):
    """(new, gone): keys of the source that the theorem does not list (with the entries behind them and their
    location), and the converse"""
    have = keys_of(items)
    exp = set(expected or [])
    new, gone = [], []
    for k in have:
        if k in exp:
            continue
        if k[0] == "gate":
            where = ["src/%s.rs:%d %s" % (it["file"], it["line"], it["text"]) for it in items
                     if it["file"] == k[1] and it["fn"] == k[2] and k[3] in it["flags"]]
            new.append("fn %s of src/%s.rs consults %s: %s" % (k[2], k[1], k[3], "; ".join(where)))
        elif k[0] == "carry":
            where = ["src/%s.rs:%d %s" % (it["file"], it["line"], it["text"]) for it in items
                     if it["file"] == k[1] and it["fn"] == k[2]]
            new.append("%s of src/%s.rs touches an Extensions value: %s" % (k[2], k[1], "; ".join(where)))
        else:
            new.append("src/%s.rs %s: %s" % (k[1], k[2], k[3]))
    hs = set(have)
    for k in sorted(exp - hs):
        gone.append({"gate": "fn %s of src/%s.rs consults %s", "carry": "%s of src/%s.rs touches an Extensions value%s",
                     "const": "%s of src/%s.rs: %s"}[k[0]] % ((k[2], k[1], k[3]) if k[0] != "const" else (k[2], k[1], k[3])))
    return new, gone


if __name__ == "__main__":
    if len(sys.argv) > 1 and sys.argv[1] == "--coq":
        sys.stdout.write(render(scan_tree()))
        sys.exit(0)
    if len(sys.argv) > 1 and sys.argv[1] == "--theorem":
        its = scan_tree()
        sys.stdout.write(";\n".join("  " + coq_key(k) for k in keys_of(its)) + "\n")
        sys.exit(0)
    if len(sys.argv) > 1:
        its = scan_tree(sys.argv[1])
    else:
        r = regenerate()
        print("changed:", r["changed"])
        its = r["items"]
    for it in its:
        print("src/%s.rs:%d [%s] %s [%s] | %s" % (it["file"], it["line"], it["kind"], it["fn"], ",".join(it["flags"]), it["text"]))
    print(len(its), "entries")
