#!/usr/bin/env python3
"""Regenerate coq/Gen/SerdeDesc.v: the serde descriptors (Model/Serde.v `desc`) of ScalableRecipe and
ScaledRecipe and of every type they contain, translated from the struct / enum / bitflags definitions
and their `#[serde(...)]` attributes in /repo/src.

Reader: a lexer (comments, strings, raw strings, chars, lifetimes) and a small recursive-descent
reader of `struct`, `enum`, `type` items, their generics, fields, variants and attributes.  Types are
resolved by name: first in the same file, then through the file's `use crate::...` imports, then in the
other files read (a name defined twice among them without a `use` to decide is an error).  Generic
types are instantiated per use (Recipe<Servings, ScalableValue> ...), defaults of type parameters are
honoured.

What is translated: rename_all / rename on containers, variants and fields (rename_all is emitted as a
call of Serde.rename_variant / rename_field on the Rust identifier, so the renaming itself is part of
what Coq evaluates), tag / content / untagged, transparent, flatten, skip / skip_serializing /
skip_deserializing, Option / Vec / Box / newtype structs, bitflags! with the serde feature,
serde_yaml::Mapping / Value.  Attributes that only widen what deserialisation accepts (alias, default,
deny_unknown_fields is the opposite but does not touch serialised recipes) are recorded in a comment.
Anything else (with, serialize_with, skip_serializing_if, tuple variants, maps, ...) raises GenError:
the generic model does not cover it and the check reports that instead of guessing.
The file is rewritten only when its content changes."""
import os
import re
import sys

sys.path.insert(0, os.path.join(os.path.dirname(os.path.abspath(__file__)), ".."))
from vlib import common  # noqa: E402

FILES = ["model.rs", "quantity.rs", "scale.rs", "metadata.rs", "parser/model.rs", "convert/mod.rs",
         "convert/units_file.rs", "span.rs", "located.rs", "text.rs"]
ROOTS = [("scalable_recipe", "ScalableRecipe"), ("scaled_recipe", "ScaledRecipe")]
OUT = os.path.join(common.COQ, "Gen", "SerdeDesc.v")


class GenError(Exception):
    pass


# ------------------------------------------------------------------------------------------ lexer

def lex(src):
    """-> list of (kind, text): kind in id, life, lit, p (one punctuation char)"""
    out = []
    i, n = 0, len(src)
    while i < n:
        c = src[i]
        if c.isspace():
            i += 1
        elif src.startswith("//", i):
            j = src.find("\n", i)
            i = n if j < 0 else j
        elif src.startswith("/*", i):
            depth, j = 1, i + 2
            while j < n and depth:
                if src.startswith("/*", j):
                    depth, j = depth + 1, j + 2
                elif src.startswith("*/", j):
                    depth, j = depth - 1, j + 2
                else:
                    j += 1
            i = j
        elif c == '"' or (c in "bc" and src.startswith('"', i + 1)):
            j = i + (1 if c == '"' else 2)
            while j < n and src[j] != '"':
                j += 2 if src[j] == "\\" else 1
            out.append(("lit", src[i:j + 1]))
            i = j + 1
        elif c == "r" and re.match(r'r#*"', src[i:i + 12]) or (c == "b" and re.match(r'br#*"', src[i:i + 12])):
            m = re.match(r'b?r(#*)"', src[i:i + 12])
            end = '"' + m.group(1)
            j = src.find(end, i + len(m.group(0)))
            if j < 0:
                raise GenError("unterminated raw string")
            out.append(("lit", src[i:j + len(end)]))
            i = j + len(end)
        elif c == "'":
            # char literal or lifetime
            m = re.match(r"'(\\.[^']*|[^'\\])'", src[i:i + 12])
            if m:
                out.append(("lit", m.group(0)))
                i += len(m.group(0))
            else:
                m = re.match(r"'[A-Za-z_][A-Za-z0-9_]*", src[i:])
                if not m:
                    raise GenError("cannot lex at %r" % src[i:i + 20])
                out.append(("life", m.group(0)))
                i += len(m.group(0))
        elif c.isalpha() or c == "_":
            m = re.match(r"[A-Za-z_][A-Za-z0-9_]*", src[i:])
            out.append(("id", m.group(0)))
            i += len(m.group(0))
        elif c.isdigit():
            m = re.match(r"[0-9][A-Za-z0-9_]*(\.[0-9][A-Za-z0-9_]*)?", src[i:])
            out.append(("lit", m.group(0)))
            i += len(m.group(0))
        else:
            out.append(("p", c))
            i += 1
    return out


OPEN = {"(": ")", "[": "]", "{": "}"}


def skip_group(t, i):
    """t[i] is an opening bracket; returns the index after the matching closing one"""
    depth = 0
    while i < len(t):
        k, x = t[i]
        if k == "p" and x in OPEN:
            depth += 1
        elif k == "p" and x in OPEN.values():
            depth -= 1
            if depth == 0:
                return i + 1
        i += 1
    raise GenError("unbalanced brackets")


def is_p(t, i, x):
    return i < len(t) and t[i] == ("p", x)


def is_id(t, i, x=None):
    return i < len(t) and t[i][0] == "id" and (x is None or t[i][1] == x)


# ------------------------------------------------------------------------------------------ types

class Ty:
    """path type: name = last segment, path = all segments, args = generic arguments"""

    def __init__(self, path, args):
        self.path, self.args = path, args
        self.name = path[-1]

    def key(self):
        return self.name + ("<" + ",".join(a.key() for a in self.args) + ">" if self.args else "")


def parse_type(t, i):
    """-> (Ty | None when the type is not a plain path, next index)"""
    # references / pointers
    while is_p(t, i, "&") or (i < len(t) and t[i][0] == "life") or is_id(t, i, "mut") or is_id(t, i, "dyn"):
        i += 1
    if is_p(t, i, "(") or is_p(t, i, "["):
        j = skip_group(t, i)
        inner = t[i + 1:j - 1]
        if t[i][1] == "(" and not inner:
            return Ty(["()"], []), j
        return Ty(["<unsupported %s>" % " ".join(x for _, x in t[i:j])], []), j
    path = []
    args = []
    while True:
        if is_p(t, i, ":") and is_p(t, i + 1, ":"):
            i += 2
            continue
        if not is_id(t, i):
            raise GenError("type expected near %s" % " ".join(x for _, x in t[max(0, i - 5):i + 5]))
        path.append(t[i][1])
        i += 1
        if is_p(t, i, "<"):
            i += 1
            args = []
            while not is_p(t, i, ">"):
                if i < len(t) and t[i][0] == "life":
                    i += 1
                else:
                    a, i = parse_type(t, i)
                    args.append(a)
                if is_p(t, i, ","):
                    i += 1
            i += 1
        if is_p(t, i, ":") and is_p(t, i + 1, ":"):
            continue
        break
    return Ty(path, args), i


# ------------------------------------------------------------------------------------------ attributes

def parse_attrs(t, i):
    """consume `#[...]` groups; -> (list of token lists, next index)"""
    attrs = []
    while is_p(t, i, "#") and is_p(t, i + 1, "["):
        j = skip_group(t, i + 1)
        attrs.append(t[i + 2:j - 1])
        i = j
    return attrs, i


def split_commas(toks):
    parts, cur, depth = [], [], 0
    for k, x in toks:
        if k == "p" and x in OPEN:
            depth += 1
        elif k == "p" and x in OPEN.values():
            depth -= 1
        if k == "p" and x == "," and depth == 0:
            parts.append(cur)
            cur = []
        else:
            cur.append((k, x))
    if cur:
        parts.append(cur)
    return parts


def serde_opts(attrs):
    """-> dict key -> value (str | True) of all #[serde(...)] attributes"""
    o = {}
    for a in attrs:
        if a and a[0] == ("id", "serde") and len(a) > 1 and a[1] == ("p", "("):
            for part in split_commas(a[2:-1]):
                if not part:
                    continue
                key = part[0][1]
                if len(part) >= 3 and part[1] == ("p", "="):
                    lit = part[2][1]
                    o[key] = lit[1:-1] if lit.startswith('"') else lit
                elif len(part) == 1:
                    o[key] = True
                else:
                    o[key] = " ".join(x for _, x in part[1:])
        elif a and a[0] == ("id", "cfg_attr") and any(x == ("id", "serde") for x in a):
            raise GenError("cfg_attr(.., serde(..)) is not translated")
    return o


def derives(attrs):
    d = set()
    for a in attrs:
        if a and a[0] == ("id", "derive"):
            for part in split_commas(a[2:-1]):
                if part:
                    d.add(part[-1][1])
    return d


# ------------------------------------------------------------------------------------------ items

class Item:
    def __init__(self, kind, name, file):
        self.kind, self.name, self.file = kind, name, file   # kind: struct | tuple | unit | enum | alias | flags
        self.params, self.defaults = [], {}
        self.attrs, self.derives = {}, set()
        self.fields = []      # struct: (name, Ty, opts) ; tuple: (None, Ty, opts)
        self.variants = []    # (name, opts, style, fields)   style: unit | tuple | struct
        self.target = None    # alias
        self.flags = []       # (name, value)


def parse_generics(t, i, item):
    if not is_p(t, i, "<"):
        return i
    i += 1
    depth = 1
    expect_param = True
    while depth:
        k, x = t[i]
        if k == "p" and x == "<":
            depth += 1
        elif k == "p" and x == ">":
            depth -= 1
        elif depth == 1 and k == "p" and x == ",":
            expect_param = True
        elif depth == 1 and expect_param and k == "id" and x != "const":
            item.params.append(x)
            expect_param = False
        elif depth == 1 and k == "life":
            expect_param = False
        elif depth == 1 and k == "p" and x == "=" and item.params:
            ty, j = parse_type(t, i + 1)
            item.defaults[item.params[-1]] = ty
            i = j
            continue
        i += 1
    return i


def parse_fields(t, i, named):
    """t[i] is `{` or `(`; -> (fields, next index)"""
    end = skip_group(t, i)
    i += 1
    fields = []
    while i < end - 1:
        attrs, i = parse_attrs(t, i)
        if i >= end - 1:
            break
        if is_id(t, i, "pub"):
            i += 1
            if is_p(t, i, "("):
                i = skip_group(t, i)
        name = None
        if named:
            name = t[i][1]
            if t[i][0] == "id" and name.startswith("r#"):
                name = name[2:]
            i += 1
            if not is_p(t, i, ":"):
                raise GenError("field type expected after %s" % name)
            i += 1
        ty, i = parse_type(t, i)
        fields.append((name, ty, serde_opts(attrs)))
        if is_p(t, i, ","):
            i += 1
    return fields, end


def parse_items(src, file):
    t = lex(src)
    items = []
    uses = {}
    i = 0
    n = len(t)
    while i < n:
        start = i
        attrs, i = parse_attrs(t, i)
        if is_id(t, i, "pub"):
            i += 1
            if is_p(t, i, "("):
                i = skip_group(t, i)
        if is_id(t, i, "use"):
            j = i
            while not is_p(t, j, ";"):
                j += 1
            collect_use(t[i + 1:j], [], uses)
            i = j + 1
            continue
        if is_id(t, i, "struct") and is_id(t, i + 1):
            name = t[i + 1][1]
            it = Item("struct", name, file)
            it.attrs, it.derives = serde_opts(attrs), derives(attrs)
            i = parse_generics(t, i + 2, it)
            if is_p(t, i, ":"):
                # bitflags! { struct Name: u16 { const A = 1 << 0; ... } }
                _, i = parse_type(t, i + 1)
                it.kind = "flags"
                end = skip_group(t, i)
                j = i + 1
                while j < end - 1:
                    _, j = parse_attrs(t, j)
                    if is_id(t, j, "const"):
                        fname = t[j + 1][1]
                        k = j + 2
                        while not is_p(t, k, ";"):
                            k += 1
                        expr = "".join(x for _, x in t[j + 3:k])
                        it.flags.append((fname, expr))
                        j = k + 1
                    else:
                        j += 1
                i = end
                items.append(it)
                continue
            if is_id(t, i, "where"):
                while not (is_p(t, i, "{") or is_p(t, i, "(") or is_p(t, i, ";")):
                    i += 1
            if is_p(t, i, "{"):
                it.fields, i = parse_fields(t, i, True)
            elif is_p(t, i, "("):
                it.kind = "tuple"
                it.fields, i = parse_fields(t, i, False)
            else:
                it.kind = "unit"
            items.append(it)
            continue
        if is_id(t, i, "enum") and is_id(t, i + 1):
            it = Item("enum", t[i + 1][1], file)
            it.attrs, it.derives = serde_opts(attrs), derives(attrs)
            i = parse_generics(t, i + 2, it)
            while not is_p(t, i, "{"):
                i += 1
            end = skip_group(t, i)
            i += 1
            while i < end - 1:
                vattrs, i = parse_attrs(t, i)
                if i >= end - 1:
                    break
                vname = t[i][1]
                i += 1
                style, fields = "unit", []
                if is_p(t, i, "("):
                    style = "tuple"
                    fields, i = parse_fields(t, i, False)
                elif is_p(t, i, "{"):
                    style = "struct"
                    fields, i = parse_fields(t, i, True)
                if is_p(t, i, "="):
                    while not (is_p(t, i, ",") or i >= end - 1):
                        i += 1
                it.variants.append((vname, serde_opts(vattrs), style, fields))
                if is_p(t, i, ","):
                    i += 1
            i = end
            items.append(it)
            continue
        if is_id(t, i, "type") and is_id(t, i + 1):
            it = Item("alias", t[i + 1][1], file)
            i = parse_generics(t, i + 2, it)
            if is_p(t, i, "="):
                it.target, i = parse_type(t, i + 1)
                items.append(it)
            continue
        i = max(i, start) + (1 if i == start else 0)
    return items, uses


def collect_use(toks, prefix, uses):
    """use trees: a::b::{c, d::e as f, g::*}"""
    i = 0
    path = list(prefix)
    while i < len(toks):
        k, x = toks[i]
        if k == "id" and x != "as":
            path.append(x)
            i += 1
        elif k == "p" and x == ":":
            i += 1
        elif k == "p" and x == "{":
            j = skip_group(toks, i)
            for part in split_commas(toks[i + 1:j - 1]):
                collect_use(part, path, uses)
            return
        elif k == "id" and x == "as":
            uses[toks[i + 1][1]] = path
            return
        elif k == "p" and x == "*":
            return
        else:
            i += 1
    if path:
        uses[path[-1]] = path


# ------------------------------------------------------------------------------------------ translation

PRIM = {"String": "DStr", "str": "DStr", "bool": "DBool", "f64": "(DNum NF64)", "f32": "(DNum NF64)",
        "u8": "(DNum (NUInt 8))", "u16": "(DNum (NUInt 16))", "u32": "(DNum (NUInt 32))",
        "u64": "(DNum (NUInt 64))", "usize": "(DNum (NUInt 64))",
        "i8": "(DNum (NSInt 8))", "i16": "(DNum (NSInt 16))", "i32": "(DNum (NSInt 32))",
        "i64": "(DNum (NSInt 64))", "isize": "(DNum (NSInt 64))", "()": "DUnit"}
RENAMES = {"lowercase": "RnLower", "UPPERCASE": "RnUpper", "PascalCase": "RnPascal", "camelCase": "RnCamel",
           "snake_case": "RnSnake", "SCREAMING_SNAKE_CASE": "RnScreamingSnake", "kebab-case": "RnKebab",
           "SCREAMING-KEBAB-CASE": "RnScreamingKebab"}
CONTAINER_OK = {"tag", "content", "rename_all", "untagged", "transparent", "deny_unknown_fields", "rename",
                "rename_all_fields", "default", "bound", "crate"}
VARIANT_OK = {"rename", "rename_all", "alias", "skip", "skip_serializing", "skip_deserializing"}
FIELD_OK = {"rename", "alias", "default", "flatten", "skip", "skip_serializing", "skip_deserializing"}


def cstr(s):
    if not all(32 <= ord(c) < 127 and c not in '"' for c in s):
        raise GenError("non-ASCII or quote in serde name %r" % s)
    return "(*%s*) [%s]" % (s.replace("*", "x"), "; ".join(str(ord(c)) for c in s))


class Translator:
    def __init__(self, repo_src):
        self.items = {}       # file -> name -> Item
        self.uses = {}        # file -> name -> path
        self.order = []
        self.defs = {}        # coq ident -> expression
        self.notes = []
        self.in_progress = set()
        for f in FILES:
            p = os.path.join(repo_src, f)
            if not os.path.exists(p):
                continue
            items, uses = parse_items(open(p, encoding="utf-8").read(), f)
            self.items[f] = {}
            for it in items:
                self.items[f].setdefault(it.name, it)
            self.uses[f] = uses

    def find(self, name, file, path):
        """resolve a type name used in `file`"""
        if name in self.items.get(file, {}):
            return self.items[file][name]
        hint = None
        if len(path) > 1:
            hint = path[:-1]
        elif name in self.uses.get(file, {}):
            hint = self.uses[file][name][:-1]
        cands = [f for f in FILES if name in self.items.get(f, {})]
        if hint:
            mods = [h for h in hint if h not in ("crate", "self", "super")]
            pref = [f for f in cands if all(m in f.replace(".rs", "").split("/") for m in mods)]
            if len(pref) == 1:
                return self.items[pref[0]][name]
            if hint[0] not in ("crate", "self", "super") and not cands:
                return None   # external crate
        if len(cands) == 1:
            return self.items[cands[0]][name]
        if not cands:
            return None
        # re-exported through the crate root: take the first file in reading order, but say so
        self.notes.append("type %s used in %s is defined in %s; took %s" % (name, file, cands, cands[0]))
        return self.items[cands[0]][name]

    def ty(self, ty, file, env):
        """-> Coq expression of the descriptor of a type used in `file` under the parameter binding env"""
        if ty.name in env and len(ty.path) == 1 and not ty.args:
            bound, bfile = env[ty.name]
            return self.ty(bound, bfile, {})
        if ty.name.startswith("<unsupported"):
            raise GenError("type %s is not translated" % ty.name)
        if ty.path[0] == "serde_yaml" or (ty.name in ("Mapping", "Value") and self.uses.get(file, {}).get(ty.name, [""])[0] == "serde_yaml"):
            if ty.name == "Mapping":
                return "(DYaml true)"
            if ty.name == "Value":
                return "(DYaml false)"
            raise GenError("serde_yaml::%s is not translated" % ty.name)
        if len(ty.path) == 1 or ty.path[0] == "std":
            if ty.name in PRIM and not ty.args:
                return PRIM[ty.name]
            if ty.name == "Option" and len(ty.args) == 1:
                return "(DOpt %s)" % self.ty(ty.args[0], file, env)
            if ty.name == "Vec" and len(ty.args) == 1:
                return "(DSeq %s)" % self.ty(ty.args[0], file, env)
            if ty.name in ("Box", "Arc", "Rc") and len(ty.args) == 1:
                return self.ty(ty.args[0], file, env)
            if ty.name == "Cow":
                return self.ty(ty.args[-1], file, env)
        it = self.find(ty.name, file, ty.path)
        if it is None:
            raise GenError("type %s (used in %s) is not defined in the files read and is not a known primitive"
                           % ("::".join(ty.path), file))
        # resolve the arguments in the *using* file's scope
        args = [(self.subst(a, env), file) for a in ty.args]
        return self.instance(it, args)

    def subst(self, ty, env):
        if ty.name in env and len(ty.path) == 1 and not ty.args:
            return env[ty.name][0]
        return Ty(ty.path, [self.subst(a, env) for a in ty.args])

    def instance(self, it, args):
        if it.kind == "alias":
            env = {p: a for p, a in zip(it.params, args)}
            return self.ty(it.target, it.file, env)
        env = {}
        for k, p in enumerate(it.params):
            if k < len(args):
                env[p] = args[k]
            elif p in it.defaults:
                env[p] = (it.defaults[p], it.file)
            else:
                raise GenError("missing type argument %s of %s" % (p, it.name))
        ident = "d_" + re.sub(r"[^A-Za-z0-9]+", "_", it.file[:-3] + "_" + it.name +
                              "".join("_" + env[p][0].key() for p in it.params)).strip("_")
        if ident in self.defs:
            return ident
        if ident in self.in_progress:
            raise GenError("recursive type %s is not translated" % it.name)
        self.in_progress.add(ident)
        if "Serialize" not in it.derives or "Deserialize" not in it.derives:
            raise GenError("%s (in %s) is part of a recipe but does not derive both Serialize and Deserialize"
                           % (it.name, it.file))
        body = self.body(it, env)
        self.in_progress.discard(ident)
        self.defs[ident] = body
        self.order.append((ident, "%s%s  (src/%s)" % (it.name, "<%s>" % ", ".join(env[p][0].key() for p in it.params)
                                                      if it.params else "", it.file)))
        return ident

    def check_keys(self, opts, ok, where):
        bad = [k for k in opts if k not in ok]
        if bad:
            raise GenError("serde attribute(s) %s on %s are not covered by the generic model" % (bad, where))
        for k in ("alias", "default", "deny_unknown_fields"):
            if k in opts:
                self.notes.append("%s: `%s` only changes what deserialisation accepts; not modelled" % (where, k))

    def fields(self, fields, file, env, rule, where):
        out = []
        for name, ty, o in fields:
            self.check_keys(o, FIELD_OK, "%s.%s" % (where, name))
            kind = "FNormal"
            if o.get("flatten"):
                kind = "FFlatten"
            if o.get("skip") or o.get("skip_serializing") or o.get("skip_deserializing"):
                kind = "FSkip"
            sname = cstr(o["rename"]) if "rename" in o else "(rename_field %s %s)" % (rule, cstr(name))
            d = "DUnit" if kind == "FSkip" else self.ty(ty, file, env)
            out.append("(%s, %s, %s, %s)" % (cstr(name), sname, kind, d))
        return "[" + ";\n      ".join(out) + "]"

    def serializable(self, ty, file, env):
        """does the type of a skipped payload derive Serialize (then skipping it drops information)"""
        ty = self.subst(ty, env)
        if ty.name in PRIM or ty.name in ("Option", "Vec", "String"):
            return True
        it = self.find(ty.name, file, ty.path)
        return it is None or "Serialize" in it.derives

    def body(self, it, env):
        o = it.attrs
        self.check_keys(o, CONTAINER_OK, it.name)
        rule = "RnNone"
        if "rename_all" in o:
            if o["rename_all"] not in RENAMES:
                raise GenError("rename_all = %r on %s" % (o["rename_all"], it.name))
            rule = RENAMES[o["rename_all"]]
        if it.kind == "flags":
            fl = []
            for name, expr in it.flags:
                m = re.fullmatch(r"1<<(\d+)", expr)
                if m:
                    v = 1 << int(m.group(1))
                elif re.fullmatch(r"(0x[0-9a-fA-F_]+|\d+)", expr):
                    v = int(expr.replace("_", ""), 0)
                else:
                    raise GenError("flag %s::%s = %s is not a literal or 1 << n" % (it.name, name, expr))
                fl.append("(%s, %d)" % (cstr(name), v))
            return "DFlags [" + "; ".join(fl) + "]"
        if it.kind == "unit":
            return "DUnit"
        if it.kind == "tuple":
            if len(it.fields) != 1:
                raise GenError("tuple struct %s with %d fields is not covered" % (it.name, len(it.fields)))
            self.check_keys(it.fields[0][2], set(), it.name + ".0")
            return "DNew %s" % self.ty(it.fields[0][1], it.file, env)
        if it.kind == "struct":
            if o.get("transparent"):
                if len(it.fields) != 1:
                    raise GenError("transparent struct %s with %d fields" % (it.name, len(it.fields)))
                return "DNew %s" % self.ty(it.fields[0][1], it.file, env)
            if "tag" in o:
                raise GenError("internally tagged struct %s is not covered" % it.name)
            return "DStruct %s" % self.fields(it.fields, it.file, env, rule, it.name)
        # enum
        if o.get("untagged"):
            rep = "RUntagged"
        elif "tag" in o and "content" in o:
            rep = "(RAdjacent %s %s)" % (cstr(o["tag"]), cstr(o["content"]))
        elif "tag" in o:
            rep = "(RInternal %s)" % cstr(o["tag"])
        else:
            rep = "RExternal"
        frule = "RnNone"
        if "rename_all_fields" in o:
            frule = RENAMES[o["rename_all_fields"]]
        vs = []
        for vname, vo, style, fields in it.variants:
            where = "%s::%s" % (it.name, vname)
            self.check_keys(vo, VARIANT_OK, where)
            if vo.get("skip") or vo.get("skip_serializing") or vo.get("skip_deserializing"):
                raise GenError("skipped variant %s is not covered" % where)
            sname = cstr(vo["rename"]) if "rename" in vo else "(rename_variant %s %s)" % (rule, cstr(vname))
            if style == "unit":
                pd = "DUnit"
            elif style == "tuple":
                if len(fields) != 1:
                    raise GenError("tuple variant %s with %d fields is not covered" % (where, len(fields)))
                _, ty, fo = fields[0]
                self.check_keys(fo, {"skip", "skip_serializing", "skip_deserializing"}, where + ".0")
                if fo.get("skip"):
                    pd = "(DSkip %s)" % ("true" if self.serializable(ty, it.file, env) else "false")
                elif fo:
                    raise GenError("one-sided skip on %s.0 is not covered" % where)
                else:
                    pd = self.ty(ty, it.file, env)
            else:
                vr = RENAMES[vo["rename_all"]] if "rename_all" in vo else frule
                pd = "(DStruct %s)" % self.fields(fields, it.file, env, vr, where)
            vs.append("(%s, %s, %s)" % (cstr(vname), sname, pd))
        return "DEnum %s [\n      %s]" % (rep, ";\n      ".join(vs))


HEADER = """(* REGENERATED on every run from /repo/src/{%s} by gen/gen_serde.py:
   the serde descriptors (Model/Serde.v) of ScalableRecipe, ScaledRecipe and every type they contain,
   read off the struct / enum / bitflags definitions and their #[serde(...)] attributes.
   rename_all is left as a call of rename_variant / rename_field on the Rust identifier.
   This committed copy is a snapshot so that a fresh clone builds. *)
From CL Require Import Model.Serde.
"""


def generate(repo_src=None):
    repo_src = repo_src or os.path.join(common.REPO, "src")
    tr = Translator(repo_src)
    roots = []
    for coqname, rust in ROOTS:
        it = tr.find(rust, "model.rs", [rust])
        if it is None:
            raise GenError("root type %s not found" % rust)
        roots.append((coqname, tr.instance(it, [])))
    out = [HEADER % ",".join(FILES)]
    for ident, what in tr.order:
        out.append("(* %s *)\nDefinition %s : desc :=\n  %s.\n" % (what, ident, tr.defs[ident]))
    for coqname, ident in roots:
        out.append("Definition %s : desc := %s." % (coqname, ident))
    out.append("Definition all_descs : list (str * desc) := [\n  %s]." %
               ";\n  ".join('(%s, %s)' % (cstr(ident), ident) for ident, _ in tr.order))
    for n in sorted(set(tr.notes)):
        out.append("(* note: %s *)" % n)
    return "\n".join(out) + "\n", tr


def regenerate():
    """-> dict(changed, types, notes); raises common.Broken when the sources use something uncovered"""
    try:
        text, tr = generate()
    except GenError as e:
        raise common.Broken("gen_serde: %s" % e)
    old = open(OUT, encoding="utf-8").read() if os.path.exists(OUT) else None
    if old != text:
        with open(OUT, "w", encoding="utf-8") as f:
            f.write(text)
    return {"changed": old != text, "types": [w for _, w in tr.order], "notes": sorted(set(tr.notes))}


if __name__ == "__main__":
    if len(sys.argv) > 1 and sys.argv[1] == "--print":
        print(generate(sys.argv[2] if len(sys.argv) > 2 else None)[0])
    else:
        print(regenerate())
