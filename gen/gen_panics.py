#!/usr/bin/env python3
"""Regenerate coq/Gen/PanicSites.v: the inventory of the potential panic sites of the parse path, read from the
non-test code of /repo/src/{lexer,parser,analysis}/*.rs, src/text.rs, src/span.rs, src/located.rs, src/error.rs
and src/lib.rs on every run of the C03 check.

An entry is (file stem, enclosing fn, kind, normalised text) - never a line number, so moving code, adding lines,
comments or running rustfmt is harmless, while a new `unwrap()`, `assert!`, `panic!` or index expression (or an
edited one) changes [PanicSites.sites] and breaks the obligation C03_panic_inventory (Properties/C03.v).  The
table of Model/PanicMap.v ([panic_table]) is keyed by the same entries and says, for each, which `site_*` of the
models stands for it or why the models leave it out.

Token level (lexer of gen_labels: source text of every token kept, string literals become <str>, so rewording a
message is harmless; attribute stripping and cfg(test) removal of gen_shared; `#[test]` items are removed too).
What becomes an entry, per file in source order:
  KMacro   panic! unreachable! todo! unimplemented! assert! assert_eq! assert_ne! debug_assert! debug_assert_eq!
           debug_assert_ne! debug_assert_adjacent!   `name!(first argument)` (two arguments for the _eq/_ne forms);
           also inside macro_rules! bodies (enclosing fn = `macro_rules!name`)
  KUnwrap  .unwrap() .unwrap_unchecked() .unwrap_err() and the path forms (Option::unwrap)   `receiver.unwrap()`
  KExpect  .expect(..) .expect_err(..)                                                      `receiver.expect()`
  KIndex   E[..] where E ends in an identifier, `)`, `]` or `?` (not a keyword, not `name![`): `receiver[index]`
           - an over-approximation: indexing a HashMap/IndexMap or a fixed array is listed as well; array types,
           array literals, slice patterns and attributes are not index expressions and are left out
  KCall    calls of std methods that panic on a bad argument: .split_at( .split_at_mut( .remove( .swap_remove(
           .insert( .drain( .split_off( .swap( .copy_from_slice( .borrow( .borrow_mut( .step_by( .chunks(
           .windows( .repeat( .with_capacity(   `receiver.name(arguments)` - over-approximated by name
  KArith   compound integer updates `lhs += e` `lhs -= e` `lhs *= e` (overflow is a panic in a debug build) and
           every binary `-` between two operands (usize underflow)   `lhs += e` / `a - b` with one-token operands
           spelled out and longer ones as written up to the enclosing bracket / comma / statement
A receiver is the postfix chain that ends at the site (identifiers, literals, `.`, `::`, `?`, call and index
groups); it is normalised by dropping white space.  `+`, `*`, `/`, `%`, shifts and `as` casts are not listed
(`as` never panics; the sums of the scanned files are span arithmetic bounded by the input length: C04).
The file is rewritten only when its content changes."""
import os
import re
import sys

sys.path.insert(0, os.path.join(os.path.dirname(os.path.abspath(__file__)), ".."))
from vlib import common  # noqa: E402
import gen_shared as gs  # noqa: E402
import gen_labels as gl  # noqa: E402

KINDS = ["KMacro", "KUnwrap", "KExpect", "KIndex", "KCall", "KArith"]
MACROS = {"panic", "unreachable", "todo", "unimplemented", "assert", "assert_eq", "assert_ne", "debug_assert",
          "debug_assert_eq", "debug_assert_ne", "debug_assert_adjacent"}
UNWRAPS = {"unwrap", "unwrap_unchecked", "unwrap_err", "unwrap_err_unchecked"}
EXPECTS = {"expect", "expect_err"}
CALLS = {"split_at", "split_at_mut", "remove", "swap_remove", "insert", "drain", "split_off", "swap",
         "copy_from_slice", "borrow", "borrow_mut", "step_by", "chunks", "windows", "repeat", "with_capacity"}
KEYWORDS = {"as", "break", "const", "continue", "crate", "dyn", "else", "enum", "extern", "fn", "for", "if", "impl",
            "in", "let", "loop", "match", "mod", "move", "mut", "pub", "ref", "return", "static", "struct", "trait",
            "type", "unsafe", "use", "where", "while", "async", "await", "yield", "box"}
DIRS = ("lexer", "parser", "analysis")
FILES = ("text.rs", "span.rs", "located.rs", "error.rs", "lib.rs")


def match_open(toks, j):
    """toks[j] is a closing bracket; index of its matching open"""
    depth = 0
    while j >= 0:
        t = toks[j]
        if t.k == "p":
            if t.t in gs.CLOSE:
                depth += 1
            elif t.t in gs.OPEN:
                depth -= 1
                if depth == 0:
                    return j
        j -= 1
    return 0


def is_word(t):
    return t.k in ("lit", "str") or (t.k == "id" and t.t not in KEYWORDS)


def chain_start(toks, end, lo=0):
    """start index of the postfix chain toks[start:end] that ends just before `end`"""
    i = end
    atom = True
    while i > lo:
        t = toks[i - 1]
        if atom:
            if t.k == "p" and t.t in (")", "]"):
                i = match_open(toks, i - 1)
                p = toks[i - 1] if i > lo else None
                if p is None:
                    break
                if t.t == "]":
                    if is_word(p) or (p.k == "p" and p.t in (")", "]", "?")):
                        continue                      # an index group: its receiver follows
                    break                             # array literal
                if is_word(p) and p.k == "id":
                    continue                          # call: the name is the next atom
                if p.k == "p" and p.t == "!" and i - 2 >= lo and toks[i - 2].k == "id":
                    i -= 1                            # macro invocation name!(..)
                    continue
                if p.k == "p" and p.t == ">":         # turbofish  name::<T>(..)
                    depth, k = 0, i - 1
                    while k >= lo:
                        if toks[k].t == ">":
                            depth += 1
                        elif toks[k].t == "<":
                            depth -= 1
                            if depth == 0:
                                break
                        k -= 1
                    if k - 1 >= lo and toks[k - 1].t == "::":
                        i = k - 1
                        continue
                break                                 # a parenthesised expression starts the chain
            if t.k == "p" and t.t == "?":
                i -= 1
                continue
            if t.k == "p" and t.t == "}":
                i = match_open(toks, i - 1)
                break
            if is_word(t):
                i -= 1
                atom = False
                continue
            break
        if t.k == "p" and t.t == "::":
            i -= 1
            atom = True
            continue
        if t.k == "p" and t.t == "." and not (i - 2 >= lo and toks[i - 2].k == "p" and toks[i - 2].t == "."):
            i -= 1                                    # a member access, not the second dot of a range `..`
            atom = True
            continue
        break
    return i


MAXLEN = 96


def clip(s):
    """long texts (an assert! over a closure) are cut: the head identifies the site"""
    return s if len(s) <= MAXLEN else s[:MAXLEN - 3] + "..."


def flat(toks):
    """text of a token run: no blanks except between two words and after a comma"""
    out = []
    prev = None
    for t in toks:
        if prev is not None and ((prev.k in gl.WORD and t.k in gl.WORD) or (prev.k == "p" and prev.t == ",")):
            out.append(" ")
        out.append(t.t)
        prev = t
    s = "".join(out)
    return s.replace("(*", "( *").replace("*)", "* )")


def macro_ranges(toks):
    """-> list of (name, a, b): bodies of macro_rules! name { .. }"""
    out = []
    n = len(toks)
    for i, t in enumerate(toks):
        if t.k == "id" and t.t == "macro_rules" and i + 3 < n and toks[i + 1].t == "!" and toks[i + 2].k == "id" \
                and toks[i + 3].t in gs.OPEN:
            out.append((toks[i + 2].t, i + 3, gs.match_close(toks, i + 3)))
    return out


def strip_tests(toks):
    """`#[test]` -> `#[cfg(test)]` so that gs.strip_attributes removes the item; then strip"""
    out = []
    n = len(toks)
    i = 0
    while i < n:
        if toks[i].t == "#" and i + 3 < n and toks[i + 1].t == "[" and toks[i + 2].k == "id" and \
                toks[i + 2].t in ("test", "bench") and toks[i + 3].t == "]":
            ln = toks[i].line
            out += [toks[i], toks[i + 1], gs.Tok("id", "cfg", ln), gs.Tok("p", "(", ln), gs.Tok("id", "test", ln),
                    gs.Tok("p", ")", ln), toks[i + 3]]
            i += 4
            continue
        out.append(toks[i])
        i += 1
    return gs.strip_attributes(out)


def operand_left(toks, end, lo):
    return chain_start(toks, end, lo)


def operand_right(toks, start, hi):
    """end index of the operand that starts at `start`: prefix operators, then one postfix chain"""
    i = start
    while i < hi and toks[i].k == "p" and toks[i].t in ("-", "!", "&", "*"):
        i += 1
    if i < hi and toks[i].k == "p" and toks[i].t in gs.OPEN:
        i = gs.match_close(toks, i)
    elif i < hi and is_word(toks[i]):
        i += 1
    else:
        return i
    while i < hi:
        t = toks[i]
        if t.k == "p" and t.t in ("(", "["):
            i = gs.match_close(toks, i)
        elif t.k == "p" and t.t == "!" and i + 1 < hi and toks[i + 1].t in gs.OPEN:
            i = gs.match_close(toks, i + 1)
        elif t.k == "p" and t.t == "?":
            i += 1
        elif t.k == "p" and t.t in (".", "::") and i + 1 < hi and (is_word(toks[i + 1]) or toks[i + 1].t == "<"):
            if toks[i + 1].t == "<":
                depth, k = 0, i + 1
                while k < hi:
                    if toks[k].t == "<":
                        depth += 1
                    elif toks[k].t == ">":
                        depth -= 1
                        if depth == 0:
                            break
                    k += 1
                i = k + 1
            else:
                i += 2
        else:
            break
    return i


def stmt_end(toks, start, hi):
    """end of the expression starting at `start`: `;` `,` or a closing bracket at depth 0"""
    depth = 0
    i = start
    while i < hi:
        t = toks[i]
        if t.k == "p":
            if t.t in gs.OPEN:
                depth += 1
            elif t.t in gs.CLOSE:
                if depth == 0:
                    break
                depth -= 1
            elif t.t in (";", ",") and depth == 0:
                break
        i += 1
    return i


def scan_source(src):
    """-> list of dict(fn, kind, text, line, at)"""
    toks, all_test = strip_tests(gl.lex(src))
    if all_test:
        return []
    fns = gl.fn_ranges(toks)
    macros = macro_ranges(toks)
    n = len(toks)
    found = []

    def where(i):
        f = gl.enclosing(fns, i)
        m = [(a, name) for name, a, b in macros if a <= i < b]
        if m and (f is None or f["body"][0] < max(m)[0]):
            return "macro_rules!" + max(m)[1]
        return f["name"] if f else "-"

    def add(kind, i, text, name=""):
        found.append({"fn": where(i), "kind": kind, "text": clip(text), "line": toks[i].line, "at": i, "name": name})

    for i, t in enumerate(toks):
        pv = toks[i - 1] if i > 0 else None
        nx = toks[i + 1] if i + 1 < n else None
        nx2 = toks[i + 2] if i + 2 < n else None
        if t.k == "id":
            if t.t in MACROS and nx is not None and nx.t == "!" and nx2 is not None and nx2.t in gs.OPEN \
                    and not (pv is not None and pv.t == "!" and i >= 2 and toks[i - 2].t == "macro_rules"):
                args = gl.split_args(toks, i + 2)
                k = 2 if t.t.endswith(("_eq", "_ne")) else 1
                add("KMacro", i, "%s!(%s)" % (t.t, ", ".join(flat(toks[a:b]) for a, b in args[:k])), t.t + "!")
                continue
            if pv is not None and pv.k == "p" and pv.t in (".", "::") and (t.t in UNWRAPS or t.t in EXPECTS or
                                                                          (t.t in CALLS and pv.t == "." and
                                                                           nx is not None and nx.t == "(")):
                if t.t in CALLS:
                    kind = "KCall"
                    tail = "." + t.t + "(" + flat(toks[i + 2:gs.match_close(toks, i + 1) - 1]) + ")"
                else:
                    kind = "KUnwrap" if t.t in UNWRAPS else "KExpect"
                    tail = pv.t + t.t + ("()" if nx is not None and nx.t == "(" else "")
                a = chain_start(toks, i - 1)
                add(kind, i, flat(toks[a:i - 1]) + tail, ("call " + t.t) if kind == "KCall" else t.t)
                continue
            continue
        if t.k != "p":
            continue
        if t.t == "[" and pv is not None and (is_word(pv) and pv.k == "id" or (pv.k == "p" and pv.t in (")", "]", "?"))):
            # `name![..]` has pv == "!", an array type / literal / pattern has an operator, `(`, `,`, `:` .. before it
            if pv.k == "id" and i >= 2 and toks[i - 2].k == "life":
                continue                              # &'a mut [T] is excluded by `mut`; 'a [T] by the lifetime
            e = gs.match_close(toks, i)
            a = chain_start(toks, i)
            add("KIndex", i, flat(toks[a:i]) + "[" + flat(toks[i + 1:e - 1]) + "]")
            continue
        if t.t in ("+", "-", "*") and nx is not None and nx.k == "p" and nx.t == "=" and pv is not None and \
                (is_word(pv) or pv.t in (")", "]")):
            a = chain_start(toks, i)
            e = stmt_end(toks, i + 2, n)
            add("KArith", i, "%s %s= %s" % (flat(toks[a:i]), t.t, flat(toks[i + 2:e])))
            continue
        if t.t == "-" and pv is not None and (is_word(pv) or (pv.k == "p" and pv.t in (")", "]", "?"))) and \
                nx is not None and not (nx.k == "p" and nx.t in (">", "=")):
            a = chain_start(toks, i)
            e = operand_right(toks, i + 1, n)
            add("KArith", i, "%s - %s" % (flat(toks[a:i]), flat(toks[i + 1:e])))
            continue
    found.sort(key=lambda x: x["at"])
    return found


def source_files(root=None):
    root = root or os.path.join(common.REPO, "src")
    out = []
    for d in DIRS:
        p = os.path.join(root, d)
        if os.path.isdir(p):
            out += [os.path.join(d, fn) for fn in sorted(os.listdir(p)) if fn.endswith(".rs")]
    out += [fn for fn in FILES if os.path.exists(os.path.join(root, fn))]
    return root, out


def scan_tree(root=None):
    root, files = source_files(root)
    items = []
    for rel in files:
        for it in scan_source(open(os.path.join(root, rel), encoding="utf-8").read()):
            it["file"] = rel[:-3]
            items.append(it)
    return items


def ascii_only(s):
    return "".join(ch if 32 <= ord(ch) < 127 else "?" for ch in s)


def coq_string(s):
    return '"' + ascii_only(s).replace('"', '""') + '"'


def key(it):
    return (it["file"], it["fn"], it["kind"], ascii_only(it["text"]))


STRONG = ("KMacro", "KUnwrap", "KExpect", "KCall")


def panic_keys(items):
    """the PINNED part: for every (file stem, enclosing fn) the number of sites per strong kind - macro name
    (`assert_eq!`), unwrap / expect method name, `call <callee>` - without any expression text, files in scan
    order, (fn, kind) sorted inside a file.  KIndex and KArith entries are not counted: a token-level list of them
    changes with every harmless rewrite; they stay in [sites] as information."""
    order, cnt = [], {}
    for it in items:
        if it["kind"] not in STRONG:
            continue
        k = (it["file"], it["fn"], it["name"])
        if k not in cnt:
            cnt[k] = 0
            order.append(k)
        cnt[k] += 1
    files = []
    for k in order:
        if k[0] not in files:
            files.append(k[0])
    out = []
    for f in files:
        out += [(k[0], k[1], k[2], cnt[k]) for k in sorted(x for x in order if x[0] == f)]
    return out


def render_keys(keys):
    return ";\n".join("  (%s, %s, %s, %d)" % (coq_string(a), coq_string(b), coq_string(c), n) for a, b, c, n in keys)


MODELS = ("Lexer", "PText", "Parser", "Analysis")


def model_sites():
    """the panic sites the models name, in file order: [(module, display name, Coq term)] - every
    `Definition site_xxx` of Model/{Lexer,PText,Parser,Analysis}.v and every literal `Panic <number>`"""
    out = []
    for mod in MODELS:
        src = open(os.path.join(common.COQ, "Model", mod + ".v"), encoding="utf-8").read()
        src = re.sub(r"\(\*.*?\*\)", " ", src, flags=re.S)
        out += [(mod, m, "%s.%s" % (mod, m)) for m in re.findall(r"\bDefinition\s+(site_[A-Za-z0-9_']+)\b", src)]
        lits = []
        for m in re.findall(r"\b[Pp]anic\s+\(?\s*([0-9]+)\b", src):
            if m not in lits:
                lits.append(m)
        out += [(mod, "Panic_" + m, m + "%N") for m in lits]
    return out


def render(items):
    out = ["(* REGENERATED on every run of the C03 check from /repo/src by gen/gen_panics.py: every potential panic",
           "   site of the non-test code of src/lexer/*.rs, src/parser/*.rs, src/analysis/*.rs, src/text.rs,",
           "   src/span.rs, src/located.rs, src/error.rs and src/lib.rs - panic!/unreachable!/todo!/unimplemented!/",
           "   assert*!/debug_assert*! invocations (KMacro), .unwrap() (KUnwrap), .expect(..) (KExpect), index and",
           "   slice expressions E[..] (KIndex), std calls that panic on a bad argument (KCall), compound integer",
           "   updates and subtractions (KArith) - as (file stem, enclosing fn, kind, text with white space and",
           "   string literals normalised), per file in source order.  Line numbers are deliberately absent:",
           "   [sites] is INFORMATION (nothing is proved about it).  PINNED by the obligation C03_panic_inventory",
           "   (Properties/C03.v) is [panic_keys]: per (file stem, fn) the count of sites of each strong kind - macro",
           "   name, unwrap / expect, `call <callee>` - without expression text; index and arithmetic entries are not",
           "   pinned.  Treatment of every pinned group by the models: Model/PanicMap.v.",
           "   [model_sites]: every `Definition site_*` and every literal `Panic <n>` of Model/Lexer.v, Model/PText.v,",
           "   Model/Parser.v, Model/Analysis.v, read from those files on the same run, with its value.",
           "   This committed copy is a snapshot so that a fresh clone builds. *)",
           "From Coq Require Import List String NArith.",
           "From CL Require " + " ".join("Model." + m for m in MODELS) + ".",
           "Import ListNotations.", "Local Open Scope string_scope.",
           "Inductive kind := " + " | ".join(KINDS) + ".",
           "Definition site := (string * string * kind * string)%type.",
           "Definition sites : list site := ["]
    out.append(";\n".join("  (%s, %s, %s,\n   %s)" % (coq_string(it["file"]), coq_string(it["fn"]), it["kind"],
                                                     coq_string(it["text"])) for it in items))
    out.append("].")
    out.append("(* the pinned part (C03_panic_inventory): per (file stem, fn), the number of sites of every strong kind *)")
    out.append("Definition panic_keys : list (string * string * string * nat) := [")
    out.append(render_keys(panic_keys(items)))
    out.append("]%nat.")
    out.append("Definition model_sites : list (string * N) := [")
    out.append(";\n".join('  ("%s.%s", %s)' % ms for ms in model_sites()))
    out.append("].")
    return "\n".join(out) + "\n"


def regenerate():
    items = scan_tree()
    path = os.path.join(common.COQ, "Gen/PanicSites.v")
    txt = render(items)
    changed = not (os.path.exists(path) and open(path, encoding="utf-8").read() == txt)
    if changed:
        with open(path, "w", encoding="utf-8") as f:
            f.write(txt)
    return {"changed": changed, "items": items}


KEY = re.compile(r'\(\s*"((?:[^"]|"")*)"\s*,\s*"((?:[^"]|"")*)"\s*,\s*"((?:[^"]|"")*)"\s*,\s*([0-9]+)\s*\)')


def expected_keys():
    """the list in the statement of C03_panic_inventory (the single place where the expectation lives)"""
    src = open(os.path.join(common.COQ, "Properties/C03.v"), encoding="utf-8").read()
    m = re.search(r"Theorem\s+C03_panic_inventory\s*:\s*PanicSites\.panic_keys\s*=\s*\[(.*?)\]\s*(?:%nat)?\s*\.\s*Proof",
                  src, flags=re.S)
    if not m:
        return None
    q = lambda s: s.replace('""', '"')  # noqa: E731
    return [(q(a), q(b), q(c), int(n)) for a, b, c, n in KEY.findall(m.group(1))]


def diff(items, expected):
    """(new, gone): groups whose count grew (with the sites of the group as they are now: file:line and text) and
    groups whose count shrank, relative to the statement of C03_panic_inventory"""
    have = {(a, b, c): n for a, b, c, n in panic_keys(items)}
    exp = {(a, b, c): n for a, b, c, n in (expected or [])}
    new, gone = [], []
    for k in sorted(set(have) | set(exp)):
        h, e = have.get(k, 0), exp.get(k, 0)
        if h == e:
            continue
        now = ["src/%s.rs:%d %s" % (it["file"], it["line"], it["text"]) for it in items
               if it["kind"] in STRONG and (it["file"], it["fn"], it["name"]) == k]
        msg = "src/%s.rs fn %s: %s x%d -> x%d%s" % (k[0], k[1], k[2], e, h, (" (now: " + " | ".join(now) + ")") if now else "")
        (new if h > e else gone).append(msg)
    if not new and not gone and expected is not None and [tuple(x) for x in expected] != panic_keys(items):
        gone.append("same groups in a different order")
    return new, gone


if __name__ == "__main__":
    if len(sys.argv) > 1 and sys.argv[1] == "--coq":
        sys.stdout.write(render(scan_tree()))
        sys.exit(0)
    if len(sys.argv) > 1 and sys.argv[1] == "--theorem":
        print(render_keys(panic_keys(scan_tree(sys.argv[2] if len(sys.argv) > 2 else None))))
        sys.exit(0)
    if len(sys.argv) > 1:
        its = scan_tree(sys.argv[1])
    else:
        r = regenerate()
        print("changed:", r["changed"])
        its = r["items"]
    for it in its:
        print("src/%s.rs:%d [%s] %s | %s" % (it["file"], it["line"], it["kind"], it["fn"], it["text"]))
