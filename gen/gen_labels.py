#!/usr/bin/env python3
"""Regenerate coq/Gen/LabelSites.v: the inventory of the label / span expressions of the analysis stage,
read from the non-test code of /repo/src/analysis/*.rs on every run of the C04 check.

An entry is (enclosing fn name, normalised expression text) - never a line number, so moving code, adding
lines or running rustfmt is harmless, while a new label, a label expression that is edited (one more `+ 1`)
or a new Span construction changes [LabelSites.sites] and breaks the obligation C04_label_inventory.  The
classification table of Model/AnalysisLabels.v ([label_table]) is keyed by the same pairs.

Token level (the lexer keeps the source text of every token except string literals, which become <str>:
label captions and messages are not part of a span).  What becomes an entry, in source order:
  L  label!(E, ..)                      the first macro argument E
  M  .label(E) / .add_label(E) / error!(msg, E) / warning!(msg, E)
                                        E, unless E is itself a label!(..) invocation (that one is an L entry)
  S  Span::new(..) / Span::pos(..) / Span::from(..)
                                        the whole construction, unless it is exactly the E of an L entry
  A  f(.., E, ..)                       E at a parameter of type Span / Option<Span> of a fn f defined in the
                                        scanned files (the spans handed to note_reference_error & co. become
                                        labels there); written `f(param: E)`
An E that is a single identifier is followed by its nearest preceding binder in the same fn
(` <- let PATTERN = INIT`, ` <- for PATTERN in EXPR`, ` <- if let PATTERN = EXPR`, ` <- fn parameter`), so
that `label!(err_span)` pins the expression err_span was computed by.  One step only: this is not a data
flow analysis; a span computed in another module and only passed through is seen as the text that names it.

The file is rewritten only when its content changes."""
import os
import re
import sys

sys.path.insert(0, os.path.join(os.path.dirname(os.path.abspath(__file__)), ".."))
from vlib import common  # noqa: E402
import gen_shared as gs  # noqa: E402

SPAN_CTORS = ("new", "pos", "from")
LABEL_METHODS = ("label", "add_label")
SUBDIR = os.path.join("src", "analysis")


# ------------------------------------------------------------------ lexer (text kept)
def lex(src):
    """-> list of gs.Tok; k in id, life, lit, str, p; t is the source text (strings: <str>)"""
    out = []
    i, n, line = 0, len(src), 1
    Tok = gs.Tok
    while i < n:
        c = src[i]
        if c == "\n":
            line += 1
            i += 1
            continue
        if c.isspace():
            i += 1
            continue
        if src.startswith("//", i):
            j = src.find("\n", i)
            i = n if j < 0 else j
            continue
        if src.startswith("/*", i):
            depth, j = 1, i + 2
            while j < n and depth:
                if src.startswith("/*", j):
                    depth += 1
                    j += 2
                elif src.startswith("*/", j):
                    depth -= 1
                    j += 2
                else:
                    if src[j] == "\n":
                        line += 1
                    j += 1
            i = j
            continue
        m = re.match(r"(?:b|c)?r(#*)\"", src[i:i + 40])
        if m and (i == 0 or not (src[i - 1].isalnum() or src[i - 1] == "_")):
            end = '"' + m.group(1)
            j = src.find(end, i + m.end())
            j = n if j < 0 else j + len(end)
            line += src.count("\n", i, j)
            out.append(Tok("str", "<str>", line))
            i = j
            continue
        if c == '"' or (c in "bc" and i + 1 < n and src[i + 1] == '"' and
                        (i == 0 or not (src[i - 1].isalnum() or src[i - 1] == "_"))):
            j = i + (1 if c == '"' else 2)
            while j < n and src[j] != '"':
                if src[j] == "\\":
                    j += 1
                if j < n and src[j] == "\n":
                    line += 1
                j += 1
            out.append(Tok("str", "<str>", line))
            i = j + 1
            continue
        if c == "'" or (c == "b" and i + 1 < n and src[i + 1] == "'"):
            j = i + (1 if c == "'" else 2)
            if j < n and src[j] == "\\":
                k = src.find("'", j + 2)
                k = n if k < 0 else k + 1
                out.append(Tok("lit", src[i:k], line))
                i = k
                continue
            if j + 1 < n and src[j + 1] == "'" and src[j] != "'":
                out.append(Tok("lit", src[i:j + 2], line))
                i = j + 2
                continue
            k = j
            while k < n and (src[k].isalnum() or src[k] == "_"):
                k += 1
            out.append(Tok("life", src[i:k], line))
            i = max(k, i + 1)
            continue
        if c.isalpha() or c == "_":
            j = i
            if src.startswith("r#", i) and i + 2 < n and (src[i + 2].isalpha() or src[i + 2] == "_"):
                j = i + 2
            k = j
            while k < n and (src[k].isalnum() or src[k] == "_"):
                k += 1
            out.append(Tok("id", src[j:k], line))
            i = k
            continue
        if c.isdigit():
            k = i
            while k < n and (src[k].isalnum() or src[k] in "_."):
                if src[k] == "." and not (k + 1 < n and src[k + 1].isdigit()):
                    break
                k += 1
            out.append(Tok("lit", src[i:k], line))
            i = k
            continue
        two = src[i:i + 2]
        if two in ("->", "=>", "::"):
            out.append(Tok("p", two, line))
            i += 2
            continue
        out.append(Tok("p", c, line))
        i += 1
    return out


WORD = ("id", "lit", "life", "str")
KEYWORDS = {"match", "if", "else", "let", "for", "in", "while", "return", "mut", "ref", "move", "as", "loop"}


def text_of(toks):
    """canonical text of a token run: one blank between two words, after a comma, after a keyword, around
    `=>` and around a binary + - * / (a `+ 1` must be easy to see); no other blanks"""
    out = []
    prev = None
    spaced_op = False
    for t in toks:
        sep = ""
        op = False
        if prev is not None:
            prev_kw = prev.k == "id" and prev.t in KEYWORDS
            if t.k == "p" and len(t.t) == 1 and t.t in "+-*/" and not prev_kw and (
                    prev.k in WORD or (prev.k == "p" and prev.t in (")", "]"))):
                sep, op = " ", True
            elif spaced_op or prev_kw or (prev.k == "p" and prev.t in (",", "=>")):
                sep = " "
            elif prev.k in WORD and (t.k in WORD or (t.k == "p" and t.t == "=>")):
                sep = " "
            elif t.k == "p" and t.t == "=>":
                sep = " "
            elif t.k == "id" and t.t in ("else", "as", "in") and not (prev.k == "p" and prev.t in ("(", "|")):
                sep = " "
        out.append(sep + t.t)
        spaced_op = op
        prev = t
    s = "".join(out)
    # nothing that looks like a Coq comment delimiter may end up inside the generated string literals
    return s.replace("(*", "( *").replace("*)", "* )")


# ------------------------------------------------------------------ functions
def fn_ranges(toks):
    """-> list of dict(name, body=(a, b), params=[(name, type tokens)], sig=(a, b)) for every `fn` with a body"""
    fns = []
    n = len(toks)
    for i, t in enumerate(toks):
        if not (t.k == "id" and t.t == "fn" and i + 1 < n and toks[i + 1].k == "id"):
            continue
        name = toks[i + 1].t
        j = i + 2
        if j < n and toks[j].t == "<":            # generics
            depth = 0
            while j < n:
                if toks[j].t == "<":
                    depth += 1
                elif toks[j].t == ">":
                    depth -= 1
                    if depth == 0:
                        j += 1
                        break
                j += 1
        if not (j < n and toks[j].t == "("):
            continue
        pe = gs.match_close(toks, j)
        params = []
        for part in gs.split_commas(toks[j + 1:pe - 1]):
            colon = next((k for k, x in enumerate(part) if x.k == "p" and x.t == ":"), None)
            if colon is None:
                if any(x.k == "id" and x.t == "self" for x in part):
                    continue                      # receiver
                params.append((None, part))
                continue
            names = [x.t for x in part[:colon] if x.k == "id" and x.t not in ("mut", "ref")]
            if names == ["self"]:
                continue
            params.append((names[0] if len(names) == 1 else None, part[colon + 1:]))
        k = pe
        depth = 0
        while k < n:                               # return type / where clause up to the body or `;`
            x = toks[k]
            if x.k == "p":
                if x.t == "{" and depth == 0:
                    break
                if x.t == ";" and depth == 0:
                    break
                if x.t in ("(", "["):
                    depth += 1
                elif x.t in (")", "]"):
                    depth -= 1
            k += 1
        if k < n and toks[k].t == "{":
            fns.append({"name": name, "body": (k, gs.match_close(toks, k)), "params": params})
    return fns


def is_span_type(ty):
    s = "".join(x.t for x in ty)
    return s in ("Span", "Option<Span>", "&Span", "Option<&Span>", "crate::span::Span", "Option<crate::span::Span>")


def enclosing(fns, i):
    best = None
    for f in fns:
        a, b = f["body"]
        if a <= i < b and (best is None or a >= best["body"][0]):
            best = f
    return best


def binder_of(toks, fn, use_at, ident):
    """nearest binder of `ident` before token index use_at inside fn: text or None"""
    if fn is None:
        return None
    a, b = fn["body"]
    best = None
    i = a
    while i < use_at:
        t = toks[i]
        if t.k == "id" and t.t == "let":
            cond = i > 0 and toks[i - 1].k == "id" and toks[i - 1].t in ("if", "while")
            # pattern up to `=` at depth 0
            j, depth, eq = i + 1, 0, None
            while j < b:
                x = toks[j]
                if x.k == "p":
                    if x.t in gs.OPEN:
                        depth += 1
                    elif x.t in gs.CLOSE:
                        if depth == 0:
                            break
                        depth -= 1
                    elif x.t == "=" and depth == 0:
                        eq = j
                        break
                    elif x.t == ";" and depth == 0:
                        break
                j += 1
            if eq is not None:
                pat = toks[i + 1:eq]
                colon = next((k for k, x in enumerate(pat) if x.k == "p" and x.t == ":"), None)
                pat_names = pat if colon is None else pat[:colon]
                # initialiser: to `;` (let), to `{` (if let / while let) or `else` (let-else), depth 0
                j, depth = eq + 1, 0
                while j < b:
                    x = toks[j]
                    if x.k == "p":
                        if depth == 0 and (x.t == ";" or (cond and x.t == "{")):
                            break
                        if x.t in gs.OPEN:
                            depth += 1
                        elif x.t in gs.CLOSE:
                            if depth == 0:
                                break
                            depth -= 1
                    elif x.k == "id" and x.t == "else" and depth == 0 and not cond and toks[j - 1].t != "}":
                        break                      # let PATTERN = EXPR else { .. }
                    j += 1
                if any(x.k == "id" and x.t == ident for x in pat_names) and eq < use_at:
                    best = ("if let " if cond else "let ") + text_of(pat_names) + " = " + text_of(toks[eq + 1:j])
        elif t.k == "id" and t.t == "for":
            j, depth = i + 1, 0
            while j < b and not (toks[j].k == "id" and toks[j].t == "in" and depth == 0):
                if toks[j].t in gs.OPEN:
                    depth += 1
                elif toks[j].t in gs.CLOSE:
                    depth -= 1
                if toks[j].t in ("{", ";") and depth <= 0:
                    break
                j += 1
            if j < b and toks[j].t == "in":
                k, depth = j + 1, 0
                while k < b and not (toks[k].t == "{" and depth == 0):
                    if toks[k].t in ("(", "["):
                        depth += 1
                    elif toks[k].t in (")", "]"):
                        depth -= 1
                    k += 1
                if any(x.k == "id" and x.t == ident for x in toks[i + 1:j]) and k <= use_at:
                    best = "for " + text_of(toks[i + 1:j]) + " in " + text_of(toks[j + 1:k])
        i += 1
    if best is None and any(p == ident for p, _ in fn["params"]):
        best = "fn parameter"
    return best


def expr_entry(toks, fn, a, b):
    """text of the expression toks[a:b]; a single identifier is followed by its binder"""
    e = toks[a:b]
    core = [x for x in e if not (x.k == "p" and x.t in ("&", "*"))]
    s = text_of(e)
    if len(core) == 1 and core[0].k == "id" and core[0].t not in ("self",):
        bd = binder_of(toks, fn, a, core[0].t)
        if bd:
            s += " <- " + bd
    return s


def first_arg(toks, open_at):
    """(start, end) token range of the first comma-separated argument of the bracket at open_at"""
    close = gs.match_close(toks, open_at) - 1
    depth = 0
    j = open_at + 1
    while j < close:
        x = toks[j]
        if x.k == "p":
            if x.t in gs.OPEN:
                depth += 1
            elif x.t in gs.CLOSE:
                depth -= 1
            elif x.t == "," and depth == 0:
                break
        j += 1
    return open_at + 1, j, close


def split_args(toks, open_at):
    """token ranges of the comma separated arguments (depth 0; closures `|a, b|` are kept whole)"""
    close = gs.match_close(toks, open_at) - 1
    parts = []
    depth = 0
    start = open_at + 1
    bars = 0
    j = start
    while j < close:
        x = toks[j]
        if x.k == "p":
            if x.t in gs.OPEN:
                depth += 1
            elif x.t in gs.CLOSE:
                depth -= 1
            elif x.t == "|" and depth == 0 and (j == start or bars % 2 == 1):
                bars += 1
            elif x.t == "," and depth == 0 and bars % 2 == 0:
                parts.append((start, j))
                start = j + 1
                bars = 0
        j += 1
    if start < close:
        parts.append((start, close))
    return parts


def scan_source(src):
    """-> list of dict(fn, text, line, kind)"""
    toks, all_test = gs.strip_attributes(lex(src))
    if all_test:
        return []
    fns = fn_ranges(toks)
    span_fns = {}
    for f in fns:
        pos = [(k, p) for k, (p, ty) in enumerate(f["params"]) if is_span_type(ty)]
        if pos:
            span_fns[f["name"]] = (f, pos)
    n = len(toks)
    found = []
    label_arg_ranges = set()

    def add(kind, i, text):
        f = enclosing(fns, i)
        found.append({"fn": f["name"] if f else "-", "text": text, "line": toks[i].line, "kind": kind, "at": i})

    for i, t in enumerate(toks):
        nx = toks[i + 1] if i + 1 < n else None
        nx2 = toks[i + 2] if i + 2 < n else None
        if t.k != "id" or nx is None:
            continue
        pv = toks[i - 1] if i > 0 else None
        # L: label!(E, ..)
        if t.t == "label" and nx.t == "!" and nx2 is not None and nx2.t in gs.OPEN and not (pv and pv.t == "macro_rules"):
            a, b, _ = first_arg(toks, i + 2)
            label_arg_ranges.add((a, b))
            add("L", a if a < b else i, expr_entry(toks, enclosing(fns, i), a, b))
            continue
        # M: error!(msg, E) / warning!(msg, E) with E not a label!(..)
        if t.t in ("error", "warning") and nx.t == "!" and nx2 is not None and nx2.t in gs.OPEN \
                and not (pv and pv.t == "macro_rules"):
            args = split_args(toks, i + 2)
            if len(args) >= 2:
                a, b = args[1]
                if not (b - a >= 2 and toks[a].t == "label" and toks[a + 1].t == "!"):
                    add("M", a, t.t + "!(.., " + expr_entry(toks, enclosing(fns, i), a, b) + ")")
            continue
        # M: .label(E) / .add_label(E)
        if t.t in LABEL_METHODS and pv is not None and pv.t == "." and nx.t == "(":
            a, b = i + 2, gs.match_close(toks, i + 1) - 1
            while b > a and toks[b - 1].t == ",":
                b -= 1
            if not (b - a >= 2 and toks[a].t == "label" and toks[a + 1].t == "!"):
                add("M", a if a < b else i, "." + t.t + "(" + expr_entry(toks, enclosing(fns, i), a, b) + ")")
            continue
        # S: Span::new / Span::pos / Span::from
        if t.t == "Span" and nx.t == "::" and nx2 is not None and nx2.k == "id" and nx2.t in SPAN_CTORS \
                and i + 3 < n and toks[i + 3].t == "(":
            e = gs.match_close(toks, i + 3)
            if (i, e) not in label_arg_ranges:
                add("S", i, text_of(toks[i:e]))
            continue
        # A: arguments at the Span parameters of a local fn
        if t.t in span_fns and nx.t == "(" and not (pv is not None and pv.k == "id" and pv.t == "fn"):
            f, pos = span_fns[t.t]
            args = split_args(toks, i + 1)
            if len(args) == len(f["params"]):
                for k, pname in pos:
                    a, b = args[k]
                    add("A", a, "%s(%s: %s)" % (t.t, pname or "#%d" % k, expr_entry(toks, enclosing(fns, i), a, b)))
            else:
                add("A", i, "%s(%s)" % (t.t, text_of(toks[i + 2:gs.match_close(toks, i + 1) - 1])))
    found.sort(key=lambda x: x["at"])
    return found


def scan_tree(root=None):
    root = root or os.path.join(common.REPO, SUBDIR)
    items = []
    for fn in sorted(os.listdir(root)):
        if not fn.endswith(".rs"):
            continue
        path = os.path.join(root, fn)
        for it in scan_source(open(path, encoding="utf-8").read()):
            it["file"] = os.path.join(SUBDIR, fn)
            items.append(it)
    return items


def coq_string(s):
    s = "".join(ch if 32 <= ord(ch) < 127 else "?" for ch in s)
    return '"' + s.replace('"', '""') + '"'


def render(items):
    out = ["(* REGENERATED on every run of the C04 check from /repo/src/analysis/*.rs by gen/gen_labels.py:",
           "   every expression of the non-test code of the analysis stage that becomes the span of a",
           "   diagnostic label - the span argument of every label!(..), the argument of every .label(..) /",
           "   .add_label(..) that is not itself a label!(..), every Span::new / Span::pos / Span::from",
           "   construction, and every argument at a Span parameter of a function of these files - as",
           "   (enclosing fn, expression text with white space and string literals normalised), in source",
           "   order.  A single identifier is followed by its nearest binder in the same fn.  Line numbers",
           "   are deliberately absent: moving code is harmless, a new or edited label expression changes",
           "   [sites] (obligation C04_label_inventory, Properties/C04.v; classes: Model/AnalysisLabels.v).",
           "   This committed copy is a snapshot so that a fresh clone builds. *)",
           "From Coq Require Import List String.", "Import ListNotations.", "Local Open Scope string_scope.",
           "Definition sites : list (string * string) := ["]
    out.append(";\n".join("  (%s,\n   %s)" % (coq_string(it["fn"]), coq_string(it["text"])) for it in items))
    out.append("].")
    return "\n".join(out) + "\n"


def regenerate():
    items = scan_tree()
    path = os.path.join(common.COQ, "Gen/LabelSites.v")
    txt = render(items)
    changed = not (os.path.exists(path) and open(path, encoding="utf-8").read() == txt)
    if changed:
        with open(path, "w", encoding="utf-8") as f:
            f.write(txt)
    return {"changed": changed, "items": items}


PAIR = re.compile(r'\(\s*"((?:[^"]|"")*)"\s*,\s*"((?:[^"]|"")*)"\s*\)')


def expected_sites():
    """the list in the statement of C04_label_inventory (the single place where the expectation lives)"""
    src = open(os.path.join(common.COQ, "Properties/C04.v"), encoding="utf-8").read()
    m = re.search(r"Theorem\s+C04_label_inventory\s*:\s*LabelSites\.sites\s*=\s*\[(.*?)\](?:%string)?\s*\.\s*Proof", src, flags=re.S)
    if not m:
        return None
    return [(a.replace('""', '"'), b.replace('""', '"')) for a, b in PAIR.findall(m.group(1))]


def diff(items, expected):
    """(new, gone): entries of the source that the theorem does not list (with their location), and the
    converse; the two lists are aligned as sequences, so a changed entry is reported where it is"""
    import difflib
    have = [(it["fn"], "".join(ch if 32 <= ord(ch) < 127 else "?" for ch in it["text"])) for it in items]
    exp = list(expected or [])
    new, gone = [], []
    for op, i1, i2, j1, j2 in difflib.SequenceMatcher(None, exp, have, autojunk=False).get_opcodes():
        if op in ("replace", "delete"):
            gone += ["%s: %s" % e for e in exp[i1:i2]]
        if op in ("replace", "insert"):
            new += ["%s:%d %s: %s" % (it["file"], it["line"], it["fn"], it["text"]) for it in items[j1:j2]]
    return new, gone


if __name__ == "__main__":
    if len(sys.argv) > 1 and sys.argv[1] != "--coq":
        its = scan_tree(sys.argv[1])
    elif len(sys.argv) > 1:
        sys.stdout.write(render(scan_tree()))
        sys.exit(0)
    else:
        r = regenerate()
        print("changed:", r["changed"])
        its = r["items"]
    for it in its:
        print("%s:%d [%s] %s | %s" % (it["file"], it["line"], it["kind"], it["fn"], it["text"]))
