#!/usr/bin/env python3
"""Regenerate coq/Gen/ExtBits.v from /repo/src/lib.rs and /repo/src/parser/model.rs, and
coq/Gen/CharClass.v from the implementation's character classes (harness bin `cls`).
Files are rewritten only when their content changes (so make does not rebuild needlessly)."""
import os
import re
import subprocess
import sys

sys.path.insert(0, os.path.join(os.path.dirname(os.path.abspath(__file__)), ".."))
from vlib import common  # noqa: E402

# non-ASCII code points the generators may use (classes dumped from the implementation)
# every code point with the Unicode White_Space property (char::is_whitespace), the byte order mark, and the
# non-ASCII letters / digits / punctuation the generators use
EXTRA = sorted(set(list(range(0x80, 0x100)) + [0x1680] + list(range(0x2000, 0x200B)) + [0x2028, 0x2029, 0x202F, 0x205F, 0x3000] +
                   [0xAB, 0xB2, 0xBA, 0xBC, 0xBF, 0xE9, 0xF1, 0x3A9, 0x5D0, 0x2014, 0x3001, 0x540D, 0x1F955,
                    0xFEFF, 0x200B, 0x200D, 0x660, 0x2153, 0xFF11, 0x300, 0x131, 0x301, 0x43A, 0x43B, 0x447,
                    0x44E, 0x663, 0x2022, 0x212A, 0x524D, 0xFFFD, 0x10FFFF, 0xE000, 0x1F600, 0x4E2D, 0x6587]))


def write_if_changed(path, content):
    if os.path.exists(path) and open(path, encoding="utf-8").read() == content:
        return False
    with open(path, "w", encoding="utf-8") as f:
        f.write(content)
    return True


def eval_bits(expr, env):
    expr = expr.replace("Self::", "").replace(".bits()", "")
    return eval(expr, {"__builtins__": {}}, env)


def gen_extbits():
    src = open(os.path.join(common.REPO, "src/lib.rs"), encoding="utf-8").read()
    m = re.search(r"pub struct Extensions: u32 \{(.*?)\n    \}", src, flags=re.S)
    body = re.sub(r"//[^\n]*", "", m.group(1))
    env = {}
    order = []
    for name, expr in re.findall(r"const\s+([A-Z_]+)\s*=\s*([^;]+);", body):
        env[name] = eval_bits(" ".join(expr.split()), env)
        order.append(name)
    allbits = 0
    for n in order:
        allbits |= env[n]
    msrc = open(os.path.join(common.REPO, "src/parser/model.rs"), encoding="utf-8").read()
    mm = re.search(r"pub struct Modifiers: u16 \{(.*?)\n    \}", msrc, flags=re.S)
    mbody = re.sub(r"//[^\n]*", "", mm.group(1))
    menv = {}
    for name, expr in re.findall(r"const\s+([A-Z_]+)\s*=\s*([^;]+);", mbody):
        menv[name] = eval_bits(" ".join(expr.split()), menv)
    out = ["(* REGENERATED on every run from /repo/src/lib.rs (Extensions bitflags) and",
           "   /repo/src/parser/model.rs (Modifiers bitflags) by gen/gen_consts.py.",
           "   This committed copy is a snapshot so that a fresh clone builds. *)",
           "From Coq Require Import NArith.", "Open Scope N_scope."]
    for n in order:
        out.append("Definition X_%s : N := %d." % (n, env[n]))
    out.append("Definition X_ALL : N := %d." % allbits)
    for n in ("RECIPE", "REF", "HIDDEN", "OPT", "NEW"):
        out.append("Definition M_%s : N := %d." % (n, menv[n]))
    return write_if_changed(os.path.join(common.COQ, "Gen/ExtBits.v"), "\n".join(out) + "\n"), env, allbits


def gen_charclass(bindir):
    cps = list(range(128)) + EXTRA
    p = subprocess.run([os.path.join(bindir, "cls"), "-"], input="\n".join(str(c) for c in cps) + "\n",
                       text=True, stdout=subprocess.PIPE, check=True)
    rows = []
    for c, line in zip(cps, p.stdout.splitlines()):
        bits = line.split(" ")
        rows.append("  (%d, {| u_alpha := %s; u_zs := %s; u_punct := %s; u_ws := %s; u_alnum := %s |})" %
                    (c, *["true" if b == "1" else "false" for b in bits[:5]]))
    out = ["(* REGENERATED on every run: the character classes of the implementation",
           "   (std char methods, finl_unicode categories) for the 128 ASCII code points and the",
           "   non-ASCII code points the generators use, dumped through verif_hooks::char_class.",
           "   Code points outside the table get the class of an unassigned character (no class). *)",
           "From CL Require Import Base.Chars Model.Lexer.",
           "Definition cls_table : list (N * ucls) := [", ";\n".join(rows), "].",
           "Definition no_class : ucls := {| u_alpha := false; u_zs := false; u_punct := false; u_ws := false; u_alnum := false |}.",
           "Fixpoint cls_lookup (c : N) (t : list (N * ucls)) : ucls :=",
           "  match t with [] => no_class | (k, v) :: r => if c =? k then v else cls_lookup c r end.",
           "Definition U (c : N) : ucls := cls_lookup c cls_table.",
           "(* char::is_whitespace of the implementation agrees with Base.Chars.uni_ws on the table *)",
           "Lemma table_ws_agrees : forallb (fun kv => Bool.eqb (u_ws (snd kv)) (uni_ws (fst kv))) cls_table = true.",
           "Proof. vm_compute. reflexivity. Qed."]
    return write_if_changed(os.path.join(common.COQ, "Gen/CharClass.v"), "\n".join(out) + "\n")


def regenerate():
    bindir = common.build_harness(["cls"])
    a, env, allbits = gen_extbits()
    b = gen_charclass(bindir)
    return {"ExtBits.v": a, "CharClass.v": b, "ext": env, "all": allbits}


if __name__ == "__main__":
    print(regenerate())
