"""G_rec: generator of well-formed recipes (a structure plus one spelling of it) together with
the recipe the text is intended to denote, written independently of the parser (it is the
'denote' of DESIGN.md section 5, C01, in executable form).

A generated case is (text, expected) where `expected` is the normalised projection that
`project(recipe_json)` computes from the implementation's serde_json image.

Profiles: 'canonical' (no extensions, no units) and 'extended' (all extensions, bundled units).
Only constructs whose documented meaning is unambiguous are generated (see comments)."""
import random

ING_SINGLE = ["salt", "flour", "eggs", "Milk", "butter", "água", "sugar", "rice"]
ING_MULTI = ["olive oil", "brown sugar", "sea salt flakes", "crème fraîche", "baking soda 2"]
CW_SINGLE = ["pot", "pan", "oven", "whisk"]
CW_MULTI = ["large bowl", "baking tray"]
TM_NAMES = ["rest", "bake", "simmer gently"]
WORDS = ["Add", "the", "and", "mix", "well", "until", "smooth", "then", "pour", "into", "stir", "Serve",
         "hot", "with", "café", "slowly", "a", "to"]
UNITS_MASS = ["g", "kg", "oz", "lb"]
UNITS_VOL = ["ml", "l", "cup", "tsp", "tbsp"]
UNITS_TIME = ["min", "s", "h", "minutes", "hours"]
UNITS_UNKNOWN = ["pinch", "cloves", "sprigs"]
TEXT_VALUES = ["some", "a pinch", "to taste", "a few"]
MOD_NAMES = [("@", "RECIPE", 1), ("&", "REF", 2), ("-", "HIDDEN", 4), ("?", "OPT", 8), ("+", "NEW", 16)]


def mods_str(bits):
    return " | ".join(n for _, n, b in MOD_NAMES if bits & b)


def collapse(s):
    out = []
    prev_ws = False
    for ch in s:
        if ch in " \t\n\r":
            if not prev_ws:
                out.append(" ")
            prev_ws = True
        else:
            out.append(ch)
            prev_ws = False
    return "".join(out)


class Gen:
    def __init__(self, rng, profile, features=None):
        self.r = rng
        self.profile = profile
        self.ext = profile == "extended"
        # feature switches (all on by default); C02 turns extension syntax off to get core recipes
        f = {"modifiers": True, "alias": True, "range": True, "advanced": True, "refs": True,
             "inter": True, "comments": True, "wrap": True, "escapes": True, "frontmatter": True,
             "notes": True, "textblocks": True, "sections": True, "metadata": True, "crlf": False,
             "timer_plain": True}
        if features:
            f.update(features)
        self.f = f

    # ---- values -------------------------------------------------------------
    def number(self):
        r = self.r
        k = r.random()
        if k < 0.4:
            n = r.choice([1, 2, 3, 5, 10, 12, 100, 250, 500])
            return str(n), {"type": "regular", "value": float(n)}
        if k < 0.6:
            lit = r.choice(["1.5", "0.25", "2.75", "10.5", ".5", "0.1", "3.125"])
            return lit, {"type": "regular", "value": float(lit)}
        if k < 0.8:
            a, b = r.choice([(1, 2), (1, 4), (3, 4), (2, 3), (1, 8), (5, 2)])
            sp = r.choice(["", " "])
            return "%d%s/%s%d" % (a, sp, sp, b), {"type": "fraction", "value": {"whole": 0, "num": a, "den": b, "err": 0.0}}
        w = r.choice([1, 2, 3])
        a, b = r.choice([(1, 2), (1, 4), (3, 4)])
        return "%d %d/%d" % (w, a, b), {"type": "fraction", "value": {"whole": w, "num": a, "den": b, "err": 0.0}}

    def value(self, allow_text=True, allow_range=True):
        """returns (spelling, value json, is_text)"""
        r = self.r
        k = r.random()
        if allow_text and k < 0.15:
            t = r.choice(TEXT_VALUES)
            return t, {"type": "text", "value": t}, True
        if self.ext and self.f["range"] and allow_range and k < 0.3:
            a, ja = self.number()
            b, jb = self.number()
            sp = r.choice(["", " "])
            return a + sp + "-" + sp + b, {"type": "range", "value": {"start": ja, "end": jb}}, False
        s, j = self.number()
        return s, {"type": "number", "value": j}, False

    def blank(self, p=0.3):
        return " " if self.r.random() < p else ""

    def quantity(self, kind):
        """kind: 'igr' | 'cw' | 'tm'. returns (spelling inside braces, expected quantity dict)"""
        r = self.r
        if kind == "cw":
            s, j, _ = self.value(allow_text=True)
            return self.blank() + s + self.blank(), {"type": "fixed", "value": j}
        if kind == "tm":
            s, j, _ = self.value(allow_text=False, allow_range=False) if self.ext else self.value(allow_text=False)
            unit = r.choice(UNITS_TIME) if self.ext else r.choice(UNITS_TIME + ["whiles"])
            body = self.blank() + s + self.blank() + "%" + self.blank() + unit + self.blank()
            return body, {"value": {"type": "fixed", "value": j}, "unit": unit}
        # ingredient
        s, j, is_text = self.value()
        lock = False
        if not is_text and r.random() < 0.15:
            lock = True
        unit = None
        if not is_text and r.random() < 0.7:
            unit = r.choice(UNITS_MASS + UNITS_VOL + UNITS_UNKNOWN)
        body = self.blank()
        if lock:
            body += "=" + self.blank()
        body += s
        if unit is not None:
            if self.ext and self.f["advanced"] and j["type"] != "text" and r.random() < 0.3 and unit.isalpha():
                body += " " + unit           # advanced units: no % needed
            else:
                body += self.blank() + "%" + self.blank() + unit
        body += self.blank()
        kindj = "fixed" if (is_text or lock) else "linear"
        return body, {"value": {"type": kindj, "value": j}, "unit": unit}

    # ---- components ---------------------------------------------------------
    def name_spelling(self, name, force_braces=False, qty=None):
        single = name.isalpha() and " " not in name
        if qty is not None:
            return name + "{" + qty + "}", True
        if single and not force_braces and self.r.random() < 0.5:
            return name, False
        return name + "{" + self.blank(0.2) + "}", True

    def build_step(self, st):
        """returns list of (printed, expected_text | component marker)"""
        r = self.r
        n_items = r.randint(1, 5)
        pieces = []   # ("t", printed, expected) | ("c", printed, kind, index)
        need_space = False
        for _ in range(n_items):
            k = r.random()
            if k < 0.45:
                words = [r.choice(WORDS) for _ in range(r.randint(1, 4))]
                if self.f["escapes"] and r.random() < 0.08:
                    words.append(("\\@home", "@home"))
                if need_space:
                    pieces.append(("sp",))
                for i, w in enumerate(words):
                    if i:
                        pieces.append(("sp",))
                    if isinstance(w, tuple):
                        pieces.append(("t", w[0], w[1]))
                    else:
                        pieces.append(("t", w, w))
                if r.random() < 0.3:
                    p = r.choice([",", ".", ";"])
                    pieces.append(("t", p, p))
                need_space = True
            else:
                if need_space:
                    pieces.append(("sp",))
                pieces.append(self.component(st))
                need_space = True
                if r.random() < 0.25:
                    p = r.choice([",", "."])
                    pieces.append(("t", p, p))
        return pieces

    def component(self, st):
        r = self.r
        k = r.random()
        if k < 0.6:
            return self.ingredient(st)
        if k < 0.8:
            return self.cookware(st)
        return self.timer(st)

    def ingredient(self, st):
        r = self.r
        igrs = st["ingredients"]
        # reference to an earlier definition?
        defs = [i for i, g in enumerate(igrs) if g["relation"]["type"] == "definition"]
        if self.ext and self.f["refs"] and defs and r.random() < 0.3:
            # the target is the LAST earlier definition with that name (case-insensitive)
            di = r.choice(defs)
            name = igrs[di]["name"]
            target = max(i for i in defs if igrs[i]["name"].lower() == name.lower())
            d = igrs[target]
            spelled = name if r.random() < 0.7 else name.swapcase()
            q = None
            qs = None
            if d["quantity"] is not None and d["quantity"]["value"]["value"]["type"] != "text" and r.random() < 0.5:
                # same unit as the definition, numeric like the definition
                s, j = self.number()
                unit = d["quantity"]["unit"]
                qs = s + ("%" + unit if unit is not None else "")
                q = {"value": {"type": "linear", "value": {"type": "number", "value": j}}, "unit": unit}
            inherited = d["_bits"] & (4 | 8 | 1)
            text, _ = self.name_spelling(spelled, qty=qs)
            entry = {"name": spelled, "alias": None, "note": None, "quantity": q,
                     "modifiers": mods_str(2 | inherited), "_bits": 2 | inherited,
                     "relation": {"type": "reference", "references_to": target, "reference_target": "ingredient"}}
            d["relation"]["referenced_from"].append(len(igrs))
            igrs.append(entry)
            return ("c", "@&" + text, "ingredient", len(igrs) - 1)
        # intermediate reference
        if self.ext and self.f["inter"] and r.random() < 0.1:
            tgt = self.inter_target(st)
            if tgt is not None:
                spell, relation = tgt
                name = r.choice(["mixture", "dough", "sauce"])
                qs = None
                q = None
                text, _ = self.name_spelling(name, force_braces=True, qty=qs)
                entry = {"name": name, "alias": None, "note": None, "quantity": q, "modifiers": "REF", "_bits": 2,
                         "relation": relation}
                igrs.append(entry)
                return ("c", "@&" + spell + text, "ingredient", len(igrs) - 1)
        name = r.choice(ING_SINGLE + ING_MULTI)
        bits = 0
        mods = ""
        if self.ext and self.f["modifiers"] and r.random() < 0.3:
            for ch, _, b in r.sample([("?", "", 8), ("-", "", 4), ("@", "", 1)], r.randint(1, 2)):
                mods += ch
                bits |= b
        alias = None
        alias_s = ""
        if self.ext and self.f["alias"] and r.random() < 0.15:
            alias = r.choice(["oil", "the good stuff", "AP"])
            alias_s = "|" + alias
        q = None
        qs = None
        if r.random() < 0.7:
            qs, q = self.quantity("igr")
        note = None
        text, braces = self.name_spelling(name + alias_s, force_braces=bool(alias_s), qty=qs)
        if self.f["notes"] and r.random() < 0.2:
            note = r.choice(["chopped", "at room temperature", "sifted"])
            text += "(" + note + ")"
        entry = {"name": name, "alias": alias, "note": note, "quantity": q, "modifiers": mods_str(bits), "_bits": bits,
                 "relation": {"type": "definition", "referenced_from": [], "defined_in_step": True,
                              "reference_target": None}}
        igrs.append(entry)
        return ("c", "@" + mods + text, "ingredient", len(igrs) - 1)

    def inter_target(self, st):
        """an intermediate reference spelling and the relation it denotes, or None"""
        r = self.r
        content = st["cur_content"]
        step_positions = [i for i, b in enumerate(content) if b["type"] == "step"]
        choices = []
        if step_positions:
            choices += ["rel_step", "num_step"]
        if st["done_sections"] > 0:
            choices += ["rel_sec", "num_sec"]
        if not choices:
            return None
        c = r.choice(choices)
        if c == "rel_step":
            k = r.randint(1, len(step_positions))
            return "(~%d)" % k, {"type": "reference", "references_to": step_positions[-k], "reference_target": "step"}
        if c == "num_step":
            k = r.randint(1, len(step_positions))
            return "(%d)" % k, {"type": "reference", "references_to": step_positions[k - 1], "reference_target": "step"}
        if c == "rel_sec":
            k = r.randint(1, st["done_sections"])
            return "(=~%d)" % k, {"type": "reference", "references_to": st["done_sections"] - k,
                                   "reference_target": "section"}
        k = r.randint(1, st["done_sections"])
        return "(=%d)" % k, {"type": "reference", "references_to": k - 1, "reference_target": "section"}

    def cookware(self, st):
        r = self.r
        name = r.choice(CW_SINGLE + CW_MULTI)
        q = None
        qs = None
        if r.random() < 0.3:
            qs, q = self.quantity("cw")
        bits = 0
        mods = ""
        if self.ext and self.f["modifiers"] and r.random() < 0.2:
            ch, b = r.choice([("?", 8), ("-", 4)])
            mods, bits = ch, b
        text, _ = self.name_spelling(name, qty=qs)
        note = None
        if self.f["notes"] and r.random() < 0.15:
            note = r.choice(["greased", "the big one"])
            text += "(" + note + ")"
        st["cookware"].append({"name": name, "alias": None, "note": note, "quantity": q,
                               "modifiers": mods_str(bits),
                               "relation": {"type": "definition", "referenced_from": [], "defined_in_step": True}})
        return ("c", "#" + mods + text, "cookware", len(st["cookware"]) - 1)

    def timer(self, st):
        r = self.r
        name = r.choice(TM_NAMES + [None, None])
        if (not self.ext) and self.f["timer_plain"] and name is not None and r.random() < 0.3:
            # a timer without duration is core syntax (an error only with TIMER_REQUIRES_TIME)
            text, _ = self.name_spelling(name)
            st["timers"].append({"name": name, "quantity": None})
            return ("c", "~" + text, "timer", len(st["timers"]) - 1)
        qs, q = self.quantity("tm")
        text = (name or "") + "{" + qs + "}"
        st["timers"].append({"name": name, "quantity": q})
        return ("c", "~" + text, "timer", len(st["timers"]) - 1)

    # ---- printing a step ------------------------------------------------------
    def print_step(self, pieces):
        """spelling choices: blanks may become line wraps, comments may be inserted.
        returns (text, items) with items = [("text", s) | (kind, index)] (adjacent text merged)"""
        r = self.r
        out = []
        items = []

        def add_text(s):
            if items and items[-1][0] == "text":
                items[-1] = ("text", items[-1][1] + s)
            else:
                items.append(("text", s))

        n = len(pieces)
        for idx, p in enumerate(pieces):
            if p[0] == "sp":
                last = idx == n - 1
                k = r.random()
                if self.f["wrap"] and not last and k < 0.12:
                    if self.f["comments"] and r.random() < 0.3:
                        out.append(" -- a remark\n")
                        add_text("  ")
                    else:
                        out.append("\n")
                        add_text(" ")
                elif self.f["comments"] and k < 0.18:
                    out.append(" [- aside -] ")
                    add_text("  ")
                elif k < 0.25:
                    out.append("  ")
                    add_text("  ")
                else:
                    out.append(" ")
                    add_text(" ")
            elif p[0] == "t":
                out.append(p[1])
                add_text(p[2])
            else:
                out.append(p[1])
                items.append((p[2], p[3]))
        return "".join(out), items

    # ---- whole recipe --------------------------------------------------------
    def recipe(self):
        r = self.r
        st = {"ingredients": [], "cookware": [], "timers": [], "cur_content": [], "done_sections": 0}
        blocks_txt = []
        sections = []
        metadata = {}
        fm = None
        servings = None
        if self.f["metadata"] and r.random() < 0.6:
            keys = r.sample(["title", "description", "course", "cuisine", "k1"], r.randint(1, 3))
            for k in keys:
                metadata[k] = r.choice(["Pasta", "A simple dish", "dinner", "weeknight food", "x y z"])
            if r.random() < 0.3:
                servings = r.choice([1, 2, 4, 6])
                metadata["servings"] = servings
            if self.f["frontmatter"] and r.random() < 0.5:
                fm = "---\n" + "".join("%s: %s\n" % (k, v) for k, v in metadata.items()) + "---\n"
            else:
                for k, v in metadata.items():
                    blocks_txt.append(">>" + self.blank(0.7) + k + self.blank(0.2) + ":" + self.blank(0.8) + str(v))
                if servings is not None:
                    metadata["servings"] = str(servings)
        n_sections = r.randint(1, 3) if self.f["sections"] else 1
        for si in range(n_sections):
            name = None
            if si > 0 or r.random() < 0.3:
                name = r.choice(["Dough", "Filling", "To serve", "Salsa verde"])
                eqs = "=" * r.randint(1, 3)
                tail = r.choice(["", " " + eqs, " ="])
                blocks_txt.append(eqs + " " + name + tail)
            content = []
            st["cur_content"] = content
            stepno = 0
            for _ in range(r.randint(1, 3)):
                if self.f["textblocks"] and r.random() < 0.2:
                    words = [r.choice(WORDS) for _ in range(r.randint(1, 5))]
                    blocks_txt.append(">" + self.blank(0.8) + " ".join(words))
                    content.append({"type": "text", "value": " ".join(words)})
                else:
                    pieces = self.build_step(st)
                    txt, items = self.print_step(pieces)
                    # a step made only of blank text would not exist; pieces always has content
                    stepno += 1
                    blocks_txt.append(txt)
                    content.append({"type": "step", "number": stepno, "items": items})
            sections.append({"name": name, "content": content})
            st["done_sections"] += 1
        sep_choices = ["\n\n"]
        if self.f["comments"]:
            sep_choices += ["\n\n-- between blocks\n\n", "\n\n\n", "\n \n", "\n[- block\ncomment -]\n\n"]
        body = ""
        for i, b in enumerate(blocks_txt):
            if i:
                prev_single = blocks_txt[i - 1].startswith(">>") or blocks_txt[i - 1].startswith("=")
                this_single = b.startswith(">>") or b.startswith("=")
                if (prev_single or this_single) and r.random() < 0.5:
                    body += "\n"       # single-line blocks need no blank line around them
                else:
                    body += r.choice(sep_choices)
            body += b
        body += r.choice(["", "\n", "\n\n"])
        text = (fm or "") + body
        if self.f["crlf"]:
            text = text.replace("\n", "\r\n")
        expected = {
            "metadata": {k: v for k, v in metadata.items()},
            "sections": [{"name": s["name"],
                          "content": [norm_block(b) for b in s["content"]]} for s in sections],
            "ingredients": [{k: v for k, v in g.items() if not k.startswith("_")} for g in st["ingredients"]],
            "cookware": st["cookware"],
            "timers": st["timers"],
            "servings": [servings] if servings is not None else None,
        }
        return text, expected, {"old_style_meta": bool(metadata) and fm is None}


def norm_block(b):
    if b["type"] == "text":
        return {"type": "text", "value": collapse(b["value"]).strip()}
    items = []
    for it in b["items"]:
        if it[0] == "text":
            items.append(["text", collapse(it[1])])
        else:
            items.append([it[0], it[1]])
    # leading/trailing blank text of a step is insignificant ("up to whitespace inside step text")
    if items and items[0][0] == "text":
        items[0][1] = items[0][1].lstrip()
    if items and items[-1][0] == "text":
        items[-1][1] = items[-1][1].rstrip()
    items = [it for it in items if not (it[0] == "text" and it[1] == "")]
    return {"type": "step", "number": b["number"], "items": items}


def project(rj):
    """the same normalised projection, computed from the implementation's recipe JSON"""
    def comp(c, kind):
        d = {"name": c["name"]}
        if kind != "timer":
            d["alias"] = c["alias"]
            d["note"] = c["note"]
            d["modifiers"] = c["modifiers"]
            rel = dict(c["relation"])
            d["relation"] = rel
        q = c["quantity"]
        if kind == "cookware":
            d["quantity"] = q
        else:
            d["quantity"] = None if q is None else {"value": q["value"], "unit": q["unit"]}
        return d

    secs = []
    for s in rj["sections"]:
        content = []
        for b in s["content"]:
            if b["type"] == "text":
                content.append({"type": "text", "value": collapse(b["value"]).strip()})
            else:
                items = []
                for it in b["value"]["items"]:
                    if it["type"] == "text":
                        if items and items[-1][0] == "text":
                            items[-1][1] = collapse(items[-1][1] + it["value"])
                        else:
                            items.append(["text", collapse(it["value"])])
                    elif it["type"] == "inlineQuantity":
                        items.append(["inline", it["index"]])
                    else:
                        items.append([it["type"], it["index"]])
                if items and items[0][0] == "text":
                    items[0][1] = items[0][1].lstrip()
                if items and items[-1][0] == "text":
                    items[-1][1] = items[-1][1].rstrip()
                items = [it for it in items if not (it[0] == "text" and it[1] == "")]
                content.append({"type": "step", "number": b["value"]["number"], "items": items})
        secs.append({"name": s["name"], "content": content})
    md = rj["metadata"]["map"]
    return {
        "metadata": md,
        "sections": secs,
        "ingredients": [comp(c, "ingredient") for c in rj["ingredients"]],
        "cookware": [comp(c, "cookware") for c in rj["cookware"]],
        "timers": [comp(c, "timer") for c in rj["timers"]],
        "servings": rj.get("data"),
    }


def first_diff(a, b, path=""):
    if type(a) != type(b):
        return "%s: %r != %r" % (path, a, b)
    if isinstance(a, dict):
        for k in sorted(set(a) | set(b)):
            if k not in a or k not in b:
                return "%s.%s: missing on one side (%r / %r)" % (path, k, a.get(k), b.get(k))
            d = first_diff(a[k], b[k], path + "." + k)
            if d:
                return d
        return None
    if isinstance(a, list):
        if len(a) != len(b):
            return "%s: length %d != %d (%r / %r)" % (path, len(a), len(b), a, b)
        for i, (x, y) in enumerate(zip(a, b)):
            d = first_diff(x, y, "%s[%d]" % (path, i))
            if d:
                return d
        return None
    if a != b:
        return "%s: %r != %r" % (path, a, b)
    return None
