#!/usr/bin/env python3
"""Regenerate coq/Gen/SharedState.v: the inventory of shared / interior-mutable state of the crate in
/repo/src, keyed by (module area, kind) - never by identifier or line, so a rename or a move inside a
module area is harmless, while a new static / thread_local / lazily built table / interior-mutability
field / unsafe block changes the file (and breaks the obligation C18_inventory).

The scanner is token based (there is no Rust parser for Python here):
  * comments (line, nested block), string literals (plain, byte, C, raw with any number of #),
    char literals and lifetimes (so `'static` is not the keyword) are recognised by the lexer;
  * attributes are removed; an item under `#[cfg(test)]` (or any cfg(...) mentioning `test` outside a
    `not(...)`) is removed with its attribute; a file starting with `#![cfg(test)]` is skipped;
  * what counts:
      static items (anywhere, also inside functions: they are process wide)   Static*
      thread_local! { static ... }                                            ThreadLocal (one per static)
      lazy_static! { static ref ... }                                         MacroLazy   (one per static)
      fields of struct / union / enum variants and `type` aliases whose type mentions
        Cell RefCell OnceCell UnsafeCell LazyCell                             FieldCell
        Mutex RwLock OnceLock LazyLock Lazy Condvar Atomic*                   FieldSync
      unsafe { .. } / unsafe fn|extern / unsafe impl|trait                    UnsafeBlock / UnsafeFn / UnsafeImpl
  * what does not: function-local bindings (`let c = OnceCell::new()` in resolve_reference is a value on
    the stack of one call), expressions, imports.
The file is rewritten only when its content changes."""
import os
import re
import sys

sys.path.insert(0, os.path.join(os.path.dirname(os.path.abspath(__file__)), ".."))
from vlib import common  # noqa: E402

KINDS = ["StaticLazyLock", "StaticMut", "StaticInterior", "StaticPlain", "ThreadLocal", "MacroLazy",
         "FieldCell", "FieldSync", "UnsafeBlock", "UnsafeFn", "UnsafeImpl",
         # reads of ambient process state (a result that uses one depends on more than text, extensions, converter)
         "AmbientFs", "AmbientEnv", "AmbientTime", "AmbientProcess", "AmbientRandom", "HashIteration"]
# Path / PathBuf / DirEntry methods that ask the file system
PATH_FS = {"exists", "try_exists", "is_file", "is_dir", "is_symlink", "symlink_metadata", "read_dir", "read_link",
           "canonicalize"}
PATH_FS_NOARG = {"metadata"}            # `.metadata()` only without arguments (collector.metadata(k, v) is a method of ours)
TIME_IDS = {"SystemTime", "Instant", "UNIX_EPOCH"}
RANDOM_IDS = {"RandomState", "thread_rng", "getrandom", "OsRng"}
RANDOM_MODS = {"rand", "fastrand", "getrandom"}
HASH_TYPES = {"HashMap", "HashSet"}
HASH_ITER = {"iter", "iter_mut", "keys", "values", "values_mut", "into_iter", "into_keys", "into_values", "drain",
             "retain", "extract_if"}
LAZY = {"LazyLock", "OnceLock", "Lazy", "OnceCell", "LazyCell", "Once", "SyncLazy", "SyncOnceCell"}
SYNC = {"Mutex", "RwLock", "OnceLock", "LazyLock", "Lazy", "Condvar", "Once", "Barrier", "ReentrantLock"}
CELL = {"Cell", "RefCell", "OnceCell", "UnsafeCell", "LazyCell", "SyncUnsafeCell"}
ATOMIC = re.compile(r"^Atomic[A-Z][A-Za-z0-9]*$")

OPEN = {"(": ")", "[": "]", "{": "}"}
CLOSE = {")", "]", "}"}


class Tok:
    __slots__ = ("k", "t", "line")

    def __init__(self, k, t, line):
        self.k, self.t, self.line = k, t, line

    def __repr__(self):
        return "%s:%s@%d" % (self.k, self.t, self.line)


def lex(src):
    """-> list of Tok; k in id, life, lit, p (punctuation, one char except -> => ::)"""
    out = []
    i, n, line = 0, len(src), 1
    while i < n:
        c = src[i]
        if c == "\n":
            line += 1
            i += 1
            continue
        if c.isspace():
            i += 1
            continue
        if src.startswith("//", i):
            j = src.find("\n", i)
            i = n if j < 0 else j
            continue
        if src.startswith("/*", i):
            depth, j = 1, i + 2
            while j < n and depth:
                if src.startswith("/*", j):
                    depth += 1
                    j += 2
                elif src.startswith("*/", j):
                    depth -= 1
                    j += 2
                else:
                    if src[j] == "\n":
                        line += 1
                    j += 1
            i = j
            continue
        # raw strings r"..", r#".."#, br#".."#, cr#".."#
        m = re.match(r"(?:b|c)?r(#*)\"", src[i:i + 40])
        if m and (i == 0 or not (src[i - 1].isalnum() or src[i - 1] == "_")):
            end = '"' + m.group(1)
            j = src.find(end, i + m.end())
            j = n if j < 0 else j + len(end)
            line += src.count("\n", i, j)
            out.append(Tok("lit", "<raw>", line))
            i = j
            continue
        if c == '"' or (c in "bc" and i + 1 < n and src[i + 1] == '"' and
                        (i == 0 or not (src[i - 1].isalnum() or src[i - 1] == "_"))):
            j = i + (1 if c == '"' else 2)
            while j < n and src[j] != '"':
                if src[j] == "\\":
                    j += 1
                if j < n and src[j] == "\n":
                    line += 1
                j += 1
            out.append(Tok("lit", "<str>", line))
            i = j + 1
            continue
        if c == "'" or (c == "b" and i + 1 < n and src[i + 1] == "'"):
            j = i + (1 if c == "'" else 2)
            if j < n and src[j] == "\\":
                k = src.find("'", j + 2)
                out.append(Tok("lit", "<chr>", line))
                i = n if k < 0 else k + 1
                continue
            if j + 1 < n and src[j + 1] == "'" and src[j] != "'":
                out.append(Tok("lit", "<chr>", line))
                i = j + 2
                continue
            # lifetime or loop label
            k = j
            while k < n and (src[k].isalnum() or src[k] == "_"):
                k += 1
            out.append(Tok("life", src[i:k], line))
            i = max(k, i + 1)
            continue
        if c.isalpha() or c == "_":
            j = i
            if src.startswith("r#", i) and i + 2 < n and (src[i + 2].isalpha() or src[i + 2] == "_"):
                j = i + 2
            k = j
            while k < n and (src[k].isalnum() or src[k] == "_"):
                k += 1
            out.append(Tok("id", src[j:k], line))
            i = k
            continue
        if c.isdigit():
            k = i
            while k < n and (src[k].isalnum() or src[k] in "_."):
                if src[k] == "." and not (k + 1 < n and src[k + 1].isdigit()):
                    break
                k += 1
            out.append(Tok("lit", "<num>", line))
            i = k
            continue
        two = src[i:i + 2]
        if two in ("->", "=>", "::"):
            out.append(Tok("p", two, line))
            i += 2
            continue
        out.append(Tok("p", c, line))
        i += 1
    return out


def match_close(toks, i):
    """toks[i] is an opening bracket; index just after its matching close"""
    depth = 0
    n = len(toks)
    while i < n:
        t = toks[i]
        if t.k == "p":
            if t.t in OPEN:
                depth += 1
            elif t.t in CLOSE:
                depth -= 1
                if depth == 0:
                    return i + 1
        i += 1
    return n


def item_end(toks, i):
    """index just after the item starting at i: first `;` at depth 0, or the close of the first `{` block
    at depth 0 (whichever comes first)"""
    depth = 0
    n = len(toks)
    while i < n:
        t = toks[i]
        if t.k == "p":
            if t.t == "{" and depth == 0:
                return match_close(toks, i)
            if t.t in OPEN:
                depth += 1
            elif t.t in CLOSE:
                if depth == 0:
                    return i        # ran out of the enclosing block: stop before it
                depth -= 1
            elif t.t == ";" and depth == 0:
                return i + 1
        i += 1
    return n


def cfg_is_test(attr):
    """attr: tokens between #[ and ] ; true when it is cfg(..) / cfg_attr-free and mentions `test`
    positively"""
    if not attr or attr[0].t != "cfg":
        return False
    # walk with a stack of enclosing combinators
    stack = []
    prev = None
    for t in attr[1:]:
        if t.k == "p" and t.t == "(":
            stack.append(prev)
        elif t.k == "p" and t.t == ")":
            if stack:
                stack.pop()
        elif t.k == "id" and t.t == "test" and "not" not in stack:
            return True
        prev = t.t if t.k == "id" else None
    return False


def strip_attributes(toks):
    """remove attributes; remove items under cfg(test). Returns (tokens, whole_file_is_test)"""
    out = []
    i, n = 0, len(toks)
    skip_next_item = False
    while i < n:
        t = toks[i]
        if t.k == "p" and t.t == "#" and i + 1 < n and (
                (toks[i + 1].t == "[") or (toks[i + 1].t == "!" and i + 2 < n and toks[i + 2].t == "[")):
            inner = toks[i + 1].t == "!"
            j = i + (2 if inner else 1)
            e = match_close(toks, j)
            attr = toks[j + 1:e - 1]
            if cfg_is_test(attr):
                if inner:
                    return [], True
                skip_next_item = True
            i = e
            continue
        if skip_next_item:
            skip_next_item = False
            i = item_end(toks, i)
            continue
        out.append(t)
        i += 1
    return out, False


def idents(toks):
    return [t.t for t in toks if t.k == "id"]


def classify_type(toks):
    ids = idents(toks)
    if any(x in SYNC or ATOMIC.match(x) for x in ids):
        return "FieldSync"
    if any(x in CELL for x in ids):
        return "FieldCell"
    return None


def split_commas(toks):
    """split at commas at depth 0 (brackets and angle brackets)"""
    parts, cur = [], []
    depth = angle = 0
    for t in toks:
        if t.k == "p":
            if t.t in OPEN:
                depth += 1
            elif t.t in CLOSE:
                depth -= 1
            elif t.t == "<":
                angle += 1
            elif t.t == ">" and angle > 0:
                angle -= 1
            elif t.t == "," and depth == 0 and angle == 0:
                parts.append(cur)
                cur = []
                continue
        cur.append(t)
    if cur:
        parts.append(cur)
    return parts


def scan_tokens(toks):
    """-> list of (kind, line, description)"""
    found = []
    i, n = 0, len(toks)
    while i < n:
        t = toks[i]
        nxt = toks[i + 1] if i + 1 < n else None
        if t.k != "id":
            i += 1
            continue
        if t.t in ("thread_local", "lazy_static") and nxt is not None and nxt.t == "!" and i + 2 < n \
                and toks[i + 2].t in OPEN:
            e = match_close(toks, i + 2)
            k = sum(1 for x in toks[i + 3:e] if x.k == "id" and x.t == "static")
            for _ in range(max(1, k)):
                found.append(("ThreadLocal" if t.t == "thread_local" else "MacroLazy", t.line, t.t + "!"))
            i = e
            continue
        if t.t == "static" and nxt is not None and nxt.k == "id":
            e = item_end(toks, i)
            body = toks[i + 1:e]
            ids = idents(body)
            if ids and ids[0] == "mut":
                kind = "StaticMut"
            elif any(x in LAZY for x in ids):
                kind = "StaticLazyLock"
            elif any(x in SYNC or x in CELL or ATOMIC.match(x) for x in ids):
                kind = "StaticInterior"
            else:
                kind = "StaticPlain"
            name = ids[1] if ids and ids[0] in ("mut", "ref") and len(ids) > 1 else (ids[0] if ids else "?")
            found.append((kind, t.line, "static " + name))
            # the initialiser may hold unsafe blocks: rescan it without the leading keyword
            found.extend(scan_tokens(body))
            i = e
            continue
        if t.t == "unsafe" and nxt is not None:
            if nxt.t == "{":
                found.append(("UnsafeBlock", t.line, "unsafe block"))
            elif nxt.t in ("fn", "extern"):
                found.append(("UnsafeFn", t.line, "unsafe " + nxt.t))
            elif nxt.t in ("impl", "trait"):
                found.append(("UnsafeImpl", t.line, "unsafe " + nxt.t))
            i += 1
            continue
        if t.t in ("struct", "union", "enum") and nxt is not None and nxt.k == "id":
            j = i + 2
            # generics
            if j < n and toks[j].t == "<":
                depth = 0
                while j < n:
                    if toks[j].t == "<":
                        depth += 1
                    elif toks[j].t == ">":
                        depth -= 1
                        if depth == 0:
                            j += 1
                            break
                    j += 1
            body = None
            if j < n and toks[j].t == "(" and t.t == "struct":
                e = match_close(toks, j)
                body = toks[j + 1:e - 1]
                end = item_end(toks, e - 1) if e < n else e
            else:
                k = j
                depth = 0
                while k < n:
                    x = toks[k]
                    if x.k == "p":
                        if x.t == "{" and depth == 0:
                            break
                        if x.t == ";" and depth == 0:
                            break
                        if x.t in ("(", "["):
                            depth += 1
                        elif x.t in (")", "]"):
                            depth -= 1
                    k += 1
                if k < n and toks[k].t == "{":
                    e = match_close(toks, k)
                    body = toks[k + 1:e - 1]
                    end = e
                else:
                    end = k + 1
            if body is not None:
                for part in split_commas(body):
                    kind = classify_type(part)
                    if kind:
                        found.append((kind, part[0].line, "%s %s: field" % (t.t, nxt.t)))
            i = end
            continue
        if t.t == "type" and nxt is not None and nxt.k == "id":
            e = item_end(toks, i)
            kind = classify_type(toks[i + 2:e])
            if kind:
                found.append((kind, t.line, "type alias " + nxt.t))
            i = e
            continue
        i += 1
    return found


def _t(toks, i):
    return toks[i].t if 0 <= i < len(toks) else None


def scan_ambient(toks):
    """reads of ambient process state, anywhere in non-test code (also inside function bodies):
         AmbientFs       a path through the module `fs` (`fs::..`, `std::fs`), `File::open|create`, `OpenOptions`,
                         or a Path/PathBuf method that asks the file system (.exists() .is_file() .is_dir()
                         .metadata() .read_dir() .canonicalize() ...)
         AmbientEnv      a path through `env` (std::env::var, args, current_dir, temp_dir, ...); env!() is compile time
         AmbientTime     SystemTime, Instant, UNIX_EPOCH
         AmbientProcess  a path through `process` (id, Command, exit), `stdin`
         AmbientRandom   RandomState, rand::, thread_rng, getrandom, fastrand
         HashIteration   iteration over a std HashMap/HashSet (per-map random seed): HEURISTIC - names declared in
                         the same file with a HashMap/HashSet type or initialiser (fields, lets, parameters,
                         tuple-struct wrappers as `.0` of self), followed by .iter() .keys() .values() .drain()
                         .into_iter() .retain(), or used as the iterated expression of a `for`.  A map handed to
                         another file and iterated there is not seen."""
    found = []
    n = len(toks)
    # names bound to hash containers in this file
    hnames = set()
    for i, t in enumerate(toks):
        if t.k == "id" and t.t in HASH_TYPES:
            # `name : [&mut] [path::]HashMap<` or `name = HashMap::new()` / `name : .. = HashMap::..`
            j = i - 1
            while j >= 0 and (toks[j].t in ("::", "&", "mut", "std", "collections") or toks[j].k == "life"):
                j -= 1
            if j >= 1 and toks[j].t in (":", "=") and toks[j - 1].k == "id":
                hnames.add(toks[j - 1].t)
            # tuple struct wrapper: struct X(HashMap<..>) -> `.0`
            if j >= 2 and toks[j].t == "(" and toks[j - 1].k == "id" and _t(toks, j - 2) in ("struct",):
                hnames.add("0@" + toks[j - 1].t)
    wrappers = {h[2:] for h in hnames if h.startswith("0@")}
    in_wrapper_impl = []   # (end index) ranges of `impl Wrapper { .. }`
    for i, t in enumerate(toks):
        if t.k == "id" and t.t == "impl":
            j = i + 1
            while j < n and toks[j].t != "{" and toks[j].t != ";":
                j += 1
            if j < n and toks[j].t == "{" and any(x.k == "id" and x.t in wrappers for x in toks[i:j]):
                in_wrapper_impl.append((j, match_close(toks, j)))

    def wrapper_self(i):
        return any(a <= i < b for a, b in in_wrapper_impl)

    for i, t in enumerate(toks):
        if t.k != "id":
            # `for pat in <expr> {`: handled at the `for` keyword
            continue
        nx, pv, pv2 = _t(toks, i + 1), _t(toks, i - 1), _t(toks, i - 2)
        if t.t == "fs" and (nx == "::" or (pv == "::" and pv2 == "std")):
            found.append(("AmbientFs", t.line, "fs path"))
        elif t.t in ("File", "OpenOptions") and nx == "::":
            found.append(("AmbientFs", t.line, t.t + "::"))
        elif t.t == "env" and (nx == "::" or (pv == "::" and pv2 == "std")):
            found.append(("AmbientEnv", t.line, "env path"))
        elif t.t == "process" and (nx == "::" or (pv == "::" and pv2 == "std")):
            found.append(("AmbientProcess", t.line, "process path"))
        elif t.t == "stdin" and nx == "(":
            found.append(("AmbientProcess", t.line, "stdin()"))
        elif t.t in TIME_IDS:
            found.append(("AmbientTime", t.line, t.t))
        elif t.t in RANDOM_IDS or (t.t in RANDOM_MODS and nx == "::"):
            found.append(("AmbientRandom", t.line, t.t))
        elif pv == "." and nx == "(" and (t.t in PATH_FS or (t.t in PATH_FS_NOARG and _t(toks, i + 2) == ")")):
            found.append(("AmbientFs", t.line, "." + t.t + "()"))
        elif pv == "." and nx == "(" and t.t in HASH_ITER:
            recv = toks[i - 2] if i >= 2 else None
            if recv is not None and ((recv.k == "id" and recv.t in hnames) or
                                     (recv.k == "lit" and recv.t == "<num>" and _t(toks, i - 3) == "." and
                                      _t(toks, i - 4) == "self" and wrapper_self(i))):
                found.append(("HashIteration", t.line, "%s.%s()" % (recv.t if recv.k == "id" else "self.0", t.t)))
        elif t.t == "for":
            # for <pat> in <expr> {   : look at the last identifier of <expr>
            j = i + 1
            depth = 0
            while j < n and not (toks[j].t == "in" and toks[j].k == "id" and depth == 0):
                if toks[j].t in OPEN:
                    depth += 1
                elif toks[j].t in CLOSE:
                    depth -= 1
                if toks[j].t in ("{", ";") and depth <= 0:
                    break
                j += 1
            if j < n and toks[j].t == "in":
                k = j + 1
                last = None
                while k < n and toks[k].t != "{":
                    if toks[k].t in ("(", "["):
                        last = None
                        break
                    if toks[k].k == "id":
                        last = toks[k]
                    k += 1
                if last is not None and last.t in hnames and _t(toks, k) == "{" and toks[k - 1] is last:
                    found.append(("HashIteration", t.line, "for .. in %s" % last.t))
    return found


def scan_source(src):
    toks, all_test = strip_attributes(lex(src))
    if all_test:
        return []
    return scan_tokens(toks) + scan_ambient(toks)


def area_of(rel):
    first = rel.split(os.sep)[0]
    return first[:-3] if first.endswith(".rs") else first


# HashIteration is pinned (part of [items]) only on the parse path.  In these areas hash maps belong to converter
# construction, grouping and shopping lists (C10 / C16 look at their order), the heuristic has a known name
# collision there (`units.quantity` is a Vec), and a parse result cannot reach them: sites are reported as advisory.
HASH_ADVISORY_AREAS = {"convert", "quantity", "aisle", "ingredient_list", "scale"}


def scan_tree(root=None, advisory=None):
    """-> list of dict(area, kind, file, line, what), sorted by (area, kind order, file, line);
    HashIteration sites outside the parse path are appended to `advisory` (if given) instead"""
    root = root or os.path.join(common.REPO, "src")
    items = []
    for d, _, files in sorted(os.walk(root)):
        for fn in sorted(files):
            if not fn.endswith(".rs"):
                continue
            path = os.path.join(d, fn)
            rel = os.path.relpath(path, root)
            for kind, line, what in scan_source(open(path, encoding="utf-8").read()):
                it = {"area": area_of(rel), "kind": kind, "file": "src/" + rel, "line": line, "what": what}
                if kind == "HashIteration" and it["area"] in HASH_ADVISORY_AREAS:
                    if advisory is not None:
                        advisory.append(it)
                    continue
                items.append(it)
    items.sort(key=lambda x: (x["area"], KINDS.index(x["kind"]), x["file"], x["line"]))
    return items


def render(items):
    out = ["(* REGENERATED on every run from /repo/src/**/*.rs by gen/gen_shared.py: the inventory of",
           "   process-wide, thread-local and interior-mutable state and of unsafe code, keyed by",
           "   (module area = first path component under src/, kind) and sorted; identifiers and line",
           "   numbers are deliberately absent, so a rename is harmless and a new static / cache / lazily",
           "   built table / Cell|Mutex|Atomic field / unsafe block, and a new read of ambient process state",
           "   (file system, environment, clock, process, randomness; hash-map iteration on the parse path)",
           "   changes [items].",
           "   This committed copy is a snapshot so that a fresh clone builds. *)",
           "From Coq Require Import List String.", "Import ListNotations.", "Local Open Scope string_scope.",
           "Inductive kind := " + " | ".join(KINDS) + ".",
           "Definition kind_eqb (a b : kind) : bool :=", "  match a, b with"]
    out.append("  | " + " | ".join("%s, %s" % (k, k) for k in KINDS) + " => true")
    out.append("  | _, _ => false")
    out.append("  end.")
    out.append("Definition items : list (string * kind) := [")
    out.append(";\n".join('  ("%s", %s)' % (it["area"], it["kind"]) for it in items))
    out.append("].")
    return "\n".join(out) + "\n"


def regenerate():
    advisory = []
    items = scan_tree(advisory=advisory)
    path = os.path.join(common.COQ, "Gen/SharedState.v")
    txt = render(items)
    changed = not (os.path.exists(path) and open(path, encoding="utf-8").read() == txt)
    if changed:
        with open(path, "w", encoding="utf-8") as f:
            f.write(txt)
    return {"changed": changed, "items": items, "advisory": advisory}


def expected_items():
    """the list in the statement of C18_inventory (the single place where the expectation lives)"""
    src = open(os.path.join(common.COQ, "Properties/C18.v"), encoding="utf-8").read()
    m = re.search(r"Theorem\s+C18_inventory\s*:.*?=\s*\[(.*?)\]\s*\.", src, flags=re.S)
    if not m:
        return None
    return [(a, k) for a, k in re.findall(r'\(\s*"([^"]*)"(?:%string)?\s*,\s*([A-Za-z]+)\s*\)', m.group(1))]


if __name__ == "__main__":
    if len(sys.argv) > 1:
        for it in scan_tree(sys.argv[1]):
            print(it)
    else:
        r = regenerate()
        print("changed:", r["changed"])
        for it in r["items"]:
            print(it)
