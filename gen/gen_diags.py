#!/usr/bin/env python3
"""Regenerate coq/Gen/DiagSites.v: the inventory of the places where the crate makes a diagnostic
(a SourceDiag with a severity), read from the non-test code of
    /repo/src/parser/*.rs  src/analysis/*.rs  src/lexer/*.rs  src/metadata.rs  src/lib.rs  src/error.rs
on every run of the C07 check.

An entry is
    Site <stage> "<file stem>" "<enclosing fn>" "<how>" <severity> [<pushes>] <ordinal> "<message>"
(ordinal: 0-based position among the entries of that fn of that file, in source order) and never holds a line
number.  What is PINNED (obligation C07_diag_inventory, Properties/C07.v: [map site_key DiagSites.sites = ..]) and
what Model/DiagMap.v maps to the constructors of the models (parse-stage code D_.. of Model/Parser.v, kind of
Model/AnalysisDiag.v) is the entry WITHOUT its message ([DiagSites.key]): moving code, adding lines, running
rustfmt or rewording a message is harmless (the property does not talk about wording; the message stays in
Gen/DiagSites.v and in the reports for the reader), while a new diagnostic, a dropped one, an `error!` that
becomes a `warning!`, an `error!` handed to `ctx.warn` or a diagnostic that moves to another function changes
the keys and breaks the obligation.

Token level (gen_shared's tokens, attribute and cfg(test) stripping; the lexer here is gen_labels' with the
text of string literals kept).  What becomes an entry, in source order, file by file (sorted paths):
  error!(MSG ..) / warning!(MSG ..)      how = "error!" / "warning!"; the severity is the macro's name; the stage
                                         is the Stage:: the macro definition in scope names (the one of the same
                                         file, else of mod.rs of the same directory)
  SourceDiag::error(MSG, .., STAGE)      how = "SourceDiag::error" (also ::warning); inside a macro_rules! the
                                         enclosing fn is written `error!` / `warning!`
  SourceDiag::unlabeled(MSG, SEV, STAGE) the severity is Error / Warning when SEV ends in Severity::Error /
                                         Severity::Warning, else Dynamic (a run-time value)
  X.into_source_diag(|| MSG)             how = ".into_source_diag", severity Dynamic (the CheckResult decides)
  Self|SourceDiag { severity: SEV, message, .. }
                                         how = "SourceDiag{}" (the constructors of src/error.rs), stage AnyStage
  R.error(E) / R.warn(E) / ctx.push(E)   with E not one of the above: how = "forward" (a diagnostic made elsewhere
                                         is pushed: `Err(err) => bp.error(err)`), severity = what the method
                                         asserts (Error / Warning / Dynamic for push), message = <E>
MSG: a string literal is kept verbatim (escapes decoded); format!("..", args) gives the format string with its
`{..}` kept; a `const NAME: &str = ".."` of the same file is resolved; anything else is <expression text>.
[pushes]: how the diagnostic reaches a report, when that is visible: the push call the construction is an
argument of (`bp.error(error!(..).hint(..))`, also through a block argument), else the push of the variable
it is bound to (`let mut w = warning!(..); ..; self.ctx.warn(w)`), else the pushes of the closure it is the
body of (`let invalid_value = |..| { error!(..) }; .. self.ctx.error(invalid_value(..))`), else the pushes
`R.error(f(..))` of the function f it is returned by, anywhere in the scanned files.  Empty: returned or
stored (`Err(error!(..))`), the push is then a "forward" entry.  A push is ByError R / ByWarn R / ByPush R; only
`.push(` on a receiver whose last name is `ctx` or `report` is taken for a report push (Vec::push is everywhere).

The file is rewritten only when its content changes."""
import os
import re
import sys

sys.path.insert(0, os.path.join(os.path.dirname(os.path.abspath(__file__)), ".."))
from vlib import common  # noqa: E402
import gen_shared as gs  # noqa: E402
import gen_labels as gl  # noqa: E402

FILES_DIRS = [os.path.join("src", "analysis"), os.path.join("src", "lexer"), os.path.join("src", "parser")]
FILES_ONE = [os.path.join("src", "error.rs"), os.path.join("src", "lib.rs"), os.path.join("src", "metadata.rs")]
MACROS = {"error": "Error", "warning": "Warning"}
PUSH_METHODS = {"error": "ByError", "warn": "ByWarn", "push": "ByPush"}
REPORT_NAMES = {"ctx", "report"}
STAGES = {"Parse": "Parse", "Analysis": "Analysis"}


# ------------------------------------------------------------------ lexer (gen_labels.lex, string text kept)
def decode_str(raw):
    """the value of a plain Rust string literal body (between the quotes)"""
    out = []
    i, n = 0, len(raw)
    while i < n:
        c = raw[i]
        if c != "\\":
            out.append(c)
            i += 1
            continue
        i += 1
        if i >= n:
            break
        e = raw[i]
        if e == "\n":                       # line continuation: skip the newline and leading white space
            i += 1
            while i < n and raw[i] in " \t\n\r":
                i += 1
            continue
        if e == "u" and i + 1 < n and raw[i + 1] == "{":
            j = raw.find("}", i)
            try:
                out.append(chr(int(raw[i + 2:j].replace("_", ""), 16)))
            except ValueError:
                out.append("?")
            i = j + 1
            continue
        if e == "x" and i + 2 < n:
            try:
                out.append(chr(int(raw[i + 1:i + 3], 16)))
            except ValueError:
                out.append("?")
            i += 3
            continue
        out.append({"n": "\n", "t": "\t", "r": "\r", "0": "\0"}.get(e, e))
        i += 1
    return "".join(out)


def lex(src):
    """-> list of gs.Tok; k in id, life, lit, str, p; t is the source text; for k == "str" t is the VALUE of
    the literal (so that "a" and r"a" are the same message)"""
    out = []
    i, n, line = 0, len(src), 1
    Tok = gs.Tok
    while i < n:
        c = src[i]
        if c == "\n":
            line += 1
            i += 1
            continue
        if c.isspace():
            i += 1
            continue
        if src.startswith("//", i):
            j = src.find("\n", i)
            i = n if j < 0 else j
            continue
        if src.startswith("/*", i):
            depth, j = 1, i + 2
            while j < n and depth:
                if src.startswith("/*", j):
                    depth += 1
                    j += 2
                elif src.startswith("*/", j):
                    depth -= 1
                    j += 2
                else:
                    if src[j] == "\n":
                        line += 1
                    j += 1
            i = j
            continue
        m = re.match(r"(?:b|c)?r(#*)\"", src[i:i + 40])
        if m and (i == 0 or not (src[i - 1].isalnum() or src[i - 1] == "_")):
            end = '"' + m.group(1)
            j = src.find(end, i + m.end())
            body_end = n if j < 0 else j
            j = n if j < 0 else j + len(end)
            tok_line = line
            line += src.count("\n", i, j)
            out.append(Tok("str", src[i + m.end():body_end], tok_line))
            i = j
            continue
        if c == '"' or (c in "bc" and i + 1 < n and src[i + 1] == '"' and
                        (i == 0 or not (src[i - 1].isalnum() or src[i - 1] == "_"))):
            j = i + (1 if c == '"' else 2)
            start = j
            tok_line = line
            while j < n and src[j] != '"':
                if src[j] == "\\":
                    j += 1
                if j < n and src[j] == "\n":
                    line += 1
                j += 1
            out.append(Tok("str", decode_str(src[start:j]), tok_line))
            i = j + 1
            continue
        if c == "'" or (c == "b" and i + 1 < n and src[i + 1] == "'"):
            j = i + (1 if c == "'" else 2)
            if j < n and src[j] == "\\":
                k = src.find("'", j + 2)
                k = n if k < 0 else k + 1
                out.append(Tok("lit", src[i:k], line))
                i = k
                continue
            if j + 1 < n and src[j + 1] == "'" and src[j] != "'":
                out.append(Tok("lit", src[i:j + 2], line))
                i = j + 2
                continue
            k = j
            while k < n and (src[k].isalnum() or src[k] == "_"):
                k += 1
            out.append(Tok("life", src[i:k], line))
            i = max(k, i + 1)
            continue
        if c.isalpha() or c == "_":
            j = i
            if src.startswith("r#", i) and i + 2 < n and (src[i + 2].isalpha() or src[i + 2] == "_"):
                j = i + 2
            k = j
            while k < n and (src[k].isalnum() or src[k] == "_"):
                k += 1
            out.append(Tok("id", src[j:k], line))
            i = k
            continue
        if c.isdigit():
            k = i
            while k < n and (src[k].isalnum() or src[k] in "_."):
                if src[k] == "." and not (k + 1 < n and src[k + 1].isdigit()):
                    break
                k += 1
            out.append(Tok("lit", src[i:k], line))
            i = k
            continue
        two = src[i:i + 2]
        if two in ("->", "=>", "::"):
            out.append(Tok("p", two, line))
            i += 2
            continue
        out.append(Tok("p", c, line))
        i += 1
    return out


def shown(toks):
    """text of a token run for an <expression> message: string literals in quotes again"""
    return gl.text_of([gs.Tok(t.k, '"%s"' % t.t if t.k == "str" else t.t, t.line) for t in toks])


# ------------------------------------------------------------------ structure
def macro_ranges(toks):
    """-> list of (name, a, b): the body brackets of every macro_rules! NAME { .. }"""
    out = []
    n = len(toks)
    for i, t in enumerate(toks):
        if t.k == "id" and t.t == "macro_rules" and i + 3 < n and toks[i + 1].t == "!" and toks[i + 2].k == "id" \
                and toks[i + 3].t in gs.OPEN:
            out.append((toks[i + 2].t, i + 3, gs.match_close(toks, i + 3)))
    return out


def consts_of(toks):
    """`const NAME: &str = "..";` anywhere in the file -> {NAME: value}"""
    out = {}
    n = len(toks)
    for i, t in enumerate(toks):
        if t.k == "id" and t.t == "const" and i + 1 < n and toks[i + 1].k == "id":
            j = i + 2
            while j < n and toks[j].t not in ("=", ";"):
                j += 1
            if j + 2 < n and toks[j].t == "=" and toks[j + 1].k == "str" and toks[j + 2].t == ";":
                out[toks[i + 1].t] = toks[j + 1].t
    return out


def message_of(toks, a, b, consts):
    """the message of the argument toks[a:b]"""
    e = toks[a:b]
    while e and e[-1].t == ",":
        e = e[:-1]
    # || MSG  (the closure of into_source_diag)
    if len(e) >= 2 and e[0].t == "|" and e[1].t == "|":
        e = e[2:]
    if len(e) == 1 and e[0].k == "str":
        return e[0].t
    if len(e) == 1 and e[0].k == "id" and e[0].t in consts:
        return consts[e[0].t]
    if len(e) >= 4 and e[0].k == "id" and e[0].t == "format" and e[1].t == "!" and e[2].t in gs.OPEN \
            and e[3].k == "str":
        return e[3].t
    return "<" + shown(e) + ">"


def severity_of_expr(e):
    ids = [x.t for x in e if x.k == "id"]
    if len(ids) >= 2 and ids[-2] == "Severity" and ids[-1] in ("Error", "Warning"):
        return ids[-1]
    return "Dynamic"


def stage_of_expr(e):
    ids = [x.t for x in e if x.k == "id"]
    if len(ids) >= 2 and ids[-2] == "Stage" and ids[-1] in STAGES:
        return STAGES[ids[-1]]
    return "AnyStage"


def receiver(toks, dot_at):
    """text of the dotted path that ends before the `.` at dot_at: `self.ctx`, `bp`, `block`"""
    parts = []
    j = dot_at - 1
    while j >= 0 and toks[j].k == "id":
        parts.append(toks[j].t)
        if j - 1 >= 0 and toks[j - 1].t == "." and j - 2 >= 0 and toks[j - 2].k == "id":
            j -= 2
        else:
            break
    return ".".join(reversed(parts)) if parts else "?"


def push_calls(toks):
    """-> list of dict(at = index of the method name, open = index of `(`, close, kind, recv)"""
    out = []
    n = len(toks)
    for i, t in enumerate(toks):
        if t.k == "id" and t.t in PUSH_METHODS and i > 0 and toks[i - 1].t == "." and i + 1 < n and toks[i + 1].t == "(":
            recv = receiver(toks, i - 1)
            if t.t == "push" and recv.split(".")[-1] not in REPORT_NAMES:
                continue
            out.append({"at": i, "open": i + 1, "close": gs.match_close(toks, i + 1), "kind": PUSH_METHODS[t.t],
                        "recv": recv})
    return out


def enclosing_open(toks, i, lo):
    """index of the innermost unmatched opening bracket before i (not below lo), or None"""
    depth = 0
    j = i - 1
    while j >= lo:
        x = toks[j]
        if x.k == "p":
            if x.t in gs.CLOSE:
                depth += 1
            elif x.t in gs.OPEN:
                if depth == 0:
                    return j
                depth -= 1
        j -= 1
    return None


def statement_binder(toks, i, lo):
    """the lower-case names bound by the `let` statement (let / if let / while let) that toks[i] belongs to, and
    whether the initialiser is a closure: (names, is_closure, let_index) or None"""
    depth = 0
    j = i - 1
    while j >= lo:
        x = toks[j]
        if x.k == "p":
            if x.t in gs.CLOSE:
                depth += 1
            elif x.t in gs.OPEN:
                if depth == 0:
                    if x.t == "{":
                        break
                    j -= 1            # inside the arguments of a call: keep going outwards
                    continue
                depth -= 1
            elif x.t == ";" and depth == 0:
                break
        j -= 1
    k = j + 1
    while k < i and toks[k].k == "id" and toks[k].t in ("if", "while", "else", "return"):
        k += 1
    if not (k < i and toks[k].k == "id" and toks[k].t == "let"):
        return None
    e = k + 1
    d = 0
    while e < i and not (toks[e].t == "=" and d == 0):
        if toks[e].t in gs.OPEN:
            d += 1
        elif toks[e].t in gs.CLOSE:
            d -= 1
        e += 1
    if e >= i:
        return None
    pat = toks[k + 1:e]
    colon = next((q for q, x in enumerate(pat) if x.t == ":"), None)
    if colon is not None:
        pat = pat[:colon]
    names = [x.t for x in pat if x.k == "id" and x.t not in ("mut", "ref") and x.t[:1].islower()]
    is_closure = e + 1 < len(toks) and toks[e + 1].t == "|" or (e + 2 < len(toks) and toks[e + 1].t == "move"
                                                                 and toks[e + 2].t == "|")
    return names, is_closure, k


def closure_of(toks, i, lo):
    """name of the nearest `let NAME = |..| ..` closure whose body holds toks[i] (walking out block by block)"""
    at = i
    while True:
        sb = statement_binder(toks, at, lo)
        if sb is not None and sb[1] and len(sb[0]) == 1:
            return sb[0][0]
        o = enclosing_open(toks, at, lo)
        if o is None:
            return None
        at = o


# ------------------------------------------------------------------ scan
def scan_source(src, macro_stage_default=None):
    """-> (items, macro_defs); items: dict(fn, how, sev, stage (None: from the macro in scope), msg, line, at,
    pushes, carried_by_fn); macro_defs: {macro name: stage}"""
    toks, all_test = gs.strip_attributes(lex(src))
    if all_test:
        return [], {}, []
    n = len(toks)
    fns = gl.fn_ranges(toks)
    macros = macro_ranges(toks)
    consts = consts_of(toks)
    pushes = push_calls(toks)
    items = []

    def fn_of(i):
        for name, a, b in macros:
            if a <= i < b:
                return name + "!", None
        f = gl.enclosing(fns, i)
        return (f["name"], f) if f else ("-", None)

    def add(i, how, sev, stage, msg, span):
        name, f = fn_of(i)
        items.append({"fn": name, "fnrec": f, "how": how, "sev": sev, "stage": stage, "msg": msg,
                      "line": toks[i].line, "at": i, "span": span, "pushes": []})

    for i, t in enumerate(toks):
        if t.k != "id":
            continue
        nx = toks[i + 1] if i + 1 < n else None
        nx2 = toks[i + 2] if i + 2 < n else None
        pv = toks[i - 1] if i > 0 else None
        if nx is None:
            continue
        # error!(..) / warning!(..)
        if t.t in MACROS and nx.t == "!" and nx2 is not None and nx2.t in gs.OPEN and not (pv and pv.t == "macro_rules"):
            if pv is not None and pv.t == "::" and not (i >= 2 and toks[i - 2].t in ("crate", "self", "super")):
                continue                       # tracing::error!(..) and the like: a log line, not a diagnostic
            args = gl.split_args(toks, i + 2)
            msg = message_of(toks, args[0][0], args[0][1], consts) if args else "<>"
            add(i, t.t + "!", MACROS[t.t], None, msg, (i, gs.match_close(toks, i + 2)))
            continue
        # SourceDiag::error / ::warning / ::unlabeled
        if t.t == "SourceDiag" and nx.t == "::" and nx2 is not None and nx2.k == "id" \
                and nx2.t in ("error", "warning", "unlabeled") and i + 3 < n and toks[i + 3].t == "(":
            args = gl.split_args(toks, i + 3)
            msg = message_of(toks, args[0][0], args[0][1], consts) if args else "<>"
            if nx2.t == "unlabeled":
                sev = severity_of_expr(toks[args[1][0]:args[1][1]]) if len(args) > 1 else "Dynamic"
            else:
                sev = MACROS[nx2.t]
            stage = stage_of_expr(toks[args[-1][0]:args[-1][1]]) if len(args) > 1 else "AnyStage"
            add(i, "SourceDiag::" + nx2.t, sev, stage, msg, (i, gs.match_close(toks, i + 3)))
            continue
        # .into_source_diag(|| MSG)
        if t.t == "into_source_diag" and pv is not None and pv.t == "." and nx.t == "(":
            args = gl.split_args(toks, i + 1)
            msg = message_of(toks, args[0][0], args[0][1], consts) if args else "<>"
            add(i, ".into_source_diag", "Dynamic", "Analysis", msg, (i, gs.match_close(toks, i + 1)))
            continue
        # Self { severity: .., message, .. } / SourceDiag { .. }
        if t.t in ("Self", "SourceDiag") and nx.t == "{" and not (pv and pv.k == "id" and pv.t in ("struct", "impl", "for")):
            close = gs.match_close(toks, i + 1)
            fields = gs.split_commas(toks[i + 2:close - 1])
            names = {f[0].t: f for f in fields if f and f[0].k == "id"}
            if "severity" in names and "message" in names:
                f = names["severity"]
                sev = severity_of_expr(f[2:]) if len(f) > 2 and f[1].t == ":" else "Dynamic"
                fs = names.get("stage")
                stage = stage_of_expr(fs[2:]) if fs is not None and len(fs) > 2 and fs[1].t == ":" else "AnyStage"
                fm = names["message"]
                msg = "<" + (shown(fm[2:]) if len(fm) > 2 and fm[1].t == ":" else "message") + ">"
                add(i, "SourceDiag{}", sev, stage, msg, (i, close))
            continue

    # ---- how each construction is pushed
    used_pushes = set()

    def direct_push(it):
        at, lo = it["at"], (it["fnrec"]["body"][0] if it["fnrec"] else 0)
        while True:
            o = enclosing_open(toks, at, lo)
            if o is None:
                return []
            for k, p in enumerate(pushes):
                if p["open"] == o:
                    used_pushes.add(k)
                    return [(p["kind"], p["recv"])]
            if toks[o].t == "{" and not (o > 0 and toks[o - 1].t in ("(", ",")):
                return []                      # the block of an if / match / closure / fn, not a block argument
            at = o

    def pushes_of_arg(pred, a, b, first_only=False):
        """the push calls between token a and b whose argument satisfies pred(the tokens of the argument)"""
        out = []
        for k, p in enumerate(pushes):
            if a <= p["at"] < b and pred(toks[p["open"] + 1:p["close"] - 1]):
                used_pushes.add(k)
                out.append((p["kind"], p["recv"]))
                if first_only:
                    break
        return out

    fn_carriers = {}
    for it in items:
        if it["how"] == "SourceDiag{}" or it["fn"].endswith("!"):
            continue
        ps = direct_push(it)
        f = it["fnrec"]
        lo, hi = (f["body"] if f else (0, n))
        if not ps:
            sb = statement_binder(toks, it["at"], lo)
            if sb is not None and not sb[1]:
                # the variable lives to the end of the block that holds the `let`; its first push counts
                o = enclosing_open(toks, sb[2], lo)
                end = gs.match_close(toks, o) if o is not None else hi
                for name in sb[0]:
                    ps += pushes_of_arg(lambda arg, name=name: len(arg) == 1 and arg[0].t == name, it["at"], end, True)
        if not ps:
            cl = closure_of(toks, it["at"], lo)
            if cl is not None:
                ps += pushes_of_arg(lambda arg, cl=cl: len(arg) >= 2 and arg[0].t == cl and arg[1].t == "(", lo, hi)
                it["closure"] = cl
        if not ps and f is not None and "closure" not in it:
            fn_carriers.setdefault(f["name"], []).append(it)
        it["pushes"] = ps
    return items, toks, pushes, used_pushes, fn_carriers, fns, macros


def scan_tree(root=None):
    """-> list of dict(stage, file (stem), path, fn, how, sev, pushes [(kind, recv)], msg, line)"""
    root = root or common.REPO
    paths = []
    for d in FILES_DIRS:
        full = os.path.join(root, d)
        if os.path.isdir(full):
            paths += [os.path.join(d, fn) for fn in sorted(os.listdir(full)) if fn.endswith(".rs")]
    paths += [p for p in FILES_ONE if os.path.exists(os.path.join(root, p))]
    paths.sort()
    scanned = {}
    for rel in paths:
        r = scan_source(open(os.path.join(root, rel), encoding="utf-8").read())
        if len(r) == 3:
            continue
        scanned[rel] = r
    # the stage of the error!/warning! macros: the Stage of the definitions of the file, else of mod.rs beside it
    macro_stage = {}
    for rel, (items, toks, pushes, used, carriers, fns, macros) in scanned.items():
        st = {}
        for it in items:
            if it["fn"].endswith("!") and it["fn"][:-1] in MACROS:
                st.setdefault(it["fn"][:-1], set()).add(it["stage"])
        macro_stage[rel] = {k: (list(v)[0] if len(v) == 1 else "AnyStage") for k, v in st.items()}
    # pushes of the diagnostics returned by a function: R.error(f(..)) / R.warn(self.f(..)) anywhere
    for rel, (items, toks, pushes, used, carriers, fns, macros) in scanned.items():
        for fname, its in carriers.items():
            found = []
            for rel2, (_, toks2, pushes2, used2, _, _, _) in scanned.items():
                for k, p in enumerate(pushes2):
                    arg = toks2[p["open"] + 1:p["close"] - 1]
                    while len(arg) >= 2 and arg[0].t in ("self", "Self") and arg[1].t in (".", "::"):
                        arg = arg[2:]
                    if len(arg) >= 2 and arg[0].t == fname and arg[1].t == "(":
                        used2.add(k)
                        found.append((p["kind"], p["recv"]))
            for it in its:
                it["pushes"] = found
    out = []
    for rel in paths:
        if rel not in scanned:
            continue
        items, toks, pushes, used, carriers, fns, macros = scanned[rel]
        stem = os.path.splitext(os.path.basename(rel))[0]
        here = macro_stage.get(rel, {})
        beside = macro_stage.get(os.path.join(os.path.dirname(rel), "mod.rs"), {})
        rows = []
        for it in items:
            stage = it["stage"]
            if stage is None:
                m = it["how"][:-1]
                stage = here.get(m) or beside.get(m) or "AnyStage"
            rows.append({"stage": stage, "file": stem, "path": rel, "fn": it["fn"], "how": it["how"], "sev": it["sev"],
                         "pushes": sorted(set(it["pushes"])), "msg": it["msg"], "line": it["line"], "at": it["at"]})
        # forward pushes: a push call whose argument is none of the constructions above
        spans = [it["span"] for it in items]
        for k, p in enumerate(pushes):
            if k in used or any(p["open"] < a and b <= p["close"] for a, b in spans):
                continue
            if p["at"] >= 2 and toks[p["at"] - 2].k == "id" and toks[p["at"] - 2].t == "fn":
                continue
            f = gl.enclosing(fns, p["at"])
            name = f["name"] if f else "-"
            for mname, a, b in macros:
                if a <= p["at"] < b:
                    name = mname + "!"
            sev = {"ByError": "Error", "ByWarn": "Warning", "ByPush": "Dynamic"}[p["kind"]]
            stage = "Analysis" if os.sep + "analysis" + os.sep in os.sep + rel else \
                ("Parse" if (os.sep + "parser" + os.sep in os.sep + rel or os.sep + "lexer" + os.sep in os.sep + rel)
                 else "AnyStage")
            rows.append({"stage": stage, "file": stem, "path": rel, "fn": name, "how": "forward", "sev": sev,
                         "pushes": [(p["kind"], p["recv"])], "msg": "<" + shown(toks[p["open"] + 1:p["close"] - 1]) + ">",
                         "line": toks[p["at"]].line, "at": p["at"]})
        rows.sort(key=lambda r: r["at"])
        seen = {}
        for r in rows:                      # ordinal: position among the entries of that fn of this file
            r["ord"] = seen.get(r["fn"], 0)
            seen[r["fn"]] = r["ord"] + 1
        out += rows
    return out


# ------------------------------------------------------------------ which constructor of the models
HOW_CLASS = {"error!": "macro", "warning!": "macro", ".into_source_diag": "callback", "forward": "forward"}


def how_class(how):
    return HOW_CLASS.get(how, "constructor")


def assign_ctors(items, table):
    """name, for every site, the constructor of the models that stands for it (it["ctor"], it["via"]), from the
    dictionary [table] of Model/DiagMap.v (rows: fine key, constructor, wording):
      1 key       the row with exactly this (stage, file, fn, how, severity, pushes, ordinal) and this message
      2 message   else an unused row of the same file with the same message (one of the same fn first): the
                  diagnostic moved, was reordered, is built or pushed another way, or changed severity
      3 key only  else the row with exactly this key: reworded in place
      4 position  else, when a file has as many unnamed sites as unused rows and they pair off in source order with
                  the same class of `how` (macro / constructor / callback / forward): fn renamed AND message reworded
      5 merged    a row still unused whose fn has a named site of the same class and severity: that site is listed a
                  second time for this constructor (two sites regrouped into one)
      -           else "unknown" - which breaks the pin (a diagnostic nobody mapped)
    A push of a diagnostic made elsewhere (how = "forward") is `Forward` without looking anything up."""
    rows = [{"key": k, "ctor": c, "msg": m, "used": False} for k, c, m in (table or []) if k[3] != "forward"]
    for it in items:
        it["ctor"], it["via"] = (("Forward", "how") if it["how"] == "forward" else (None, None))

    def take(it, pred, via):
        if it["ctor"] is not None:
            return
        for r in rows:
            if not r["used"] and r["key"][1] == ascii_of(it["file"]) and how_class(r["key"][3]) == how_class(it["how"]) \
                    and pred(r):
                r["used"] = True
                it["ctor"], it["via"] = r["ctor"], via
                return

    for via, pred in (
            ("key", lambda it, r: r["key"] == key_of(it) and r["msg"] == ascii_of(it["msg"])),
            ("fn+message", lambda it, r: r["key"][2] == ascii_of(it["fn"]) and r["msg"] == ascii_of(it["msg"])),
            ("message", lambda it, r: r["msg"] == ascii_of(it["msg"])),
            ("key, reworded", lambda it, r: r["key"] == key_of(it))):
        for it in items:
            take(it, lambda r, it=it, pred=pred: pred(it, r), via)
    for f in sorted(set(it["file"] for it in items)):
        left = [it for it in items if it["file"] == f and it["ctor"] is None]
        free = [r for r in rows if not r["used"] and r["key"][1] == ascii_of(f)]
        if left and len(left) == len(free) and all(how_class(a["how"]) == how_class(b["key"][3]) for a, b in zip(left, free)):
            for a, b in zip(left, free):
                b["used"] = True
                a["ctor"], a["via"] = b["ctor"], "position"
    for it in items:
        if it["ctor"] is None:
            it["ctor"], it["via"] = "unknown", "-"
    # 5 merged: a row nobody used, of a fn that still has a named site of the same class and severity: the sites of
    # two constructors were regrouped into one (a closure / helper that takes the differing text as an argument).  The
    # site is listed once more, for that constructor too (same key; the old wording in the message)
    out = []
    for it in items:
        out.append(it)
        if it["via"] in ("how", "-", "merged"):
            continue
        for r in rows:
            if not r["used"] and r["key"][1] == ascii_of(it["file"]) and r["key"][2] == ascii_of(it["fn"]) \
                    and how_class(r["key"][3]) == how_class(it["how"]) and r["key"][4] == it["sev"]:
                r["used"] = True
                twin = dict(it)
                twin.update({"ctor": r["ctor"], "via": "merged", "msg": "<also, regrouped into this site: %s>" % r["msg"]})
                out.append(twin)
    items[:] = out
    return items


def summary_of(items):
    """what is pinned: per (stage, file stem) the SET of (severity, constructor), as sorted rows; the number of sites
    of each row rides along for the reader (two sites of one constructor merged into one, or one split in two, is
    a regrouping, not a change of the diagnostics).  Pushes of diagnostics made elsewhere ("forward") are not
    diagnostics and stay out of it"""
    cnt = {}
    for it in items:
        if it["how"] == "forward":
            continue
        k = (it["stage"], ascii_of(it["file"]), it["sev"], it["ctor"])
        cnt[k] = cnt.get(k, 0) + 1
    return [k + (n,) for k, n in sorted(cnt.items())]


def render_row(row):
    stage, file, sev, ctor, n = row
    return "(%s, %s, %s, %s)" % (COQ_STAGE[stage], _q(file), COQ_SEV[sev], _q(ctor))


ROW = re.compile(r"\(\s*(AtParse|AtAnalysis|AtAny)\s*,\s*" + r'"((?:[^"]|"")*)"' + r"\s*,\s*(IsError|IsWarning|IsDynamic)\s*,\s*"
                 + r'"((?:[^"]|"")*)"' + r"\s*\)")


def parse_rows(text):
    rs, rv = {v: k for k, v in COQ_STAGE.items()}, {v: k for k, v in COQ_SEV.items()}
    return [(rs[m.group(1)], m.group(2).replace('""', '"'), rv[m.group(3)], m.group(4).replace('""', '"'), 1)
            for m in ROW.finditer(text)]


# ------------------------------------------------------------------ Coq
COQ_STAGE = {"Parse": "AtParse", "Analysis": "AtAnalysis", "AnyStage": "AtAny"}
COQ_SEV = {"Error": "IsError", "Warning": "IsWarning", "Dynamic": "IsDynamic"}
def ascii_of(s):
    s = "".join(ch if 32 <= ord(ch) < 127 else ("\\n" if ch == "\n" else "?") for ch in s)
    return s.replace("(*", "( *").replace("*)", "* )")


def coq_string(s):
    return '"' + ascii_of(s).replace('"', '""') + '"'


def key_of(it):
    """the entry without its message: the tuple the theorem statement lists and Model/DiagMap.v maps"""
    return (it["stage"], ascii_of(it["file"]), ascii_of(it["fn"]), ascii_of(it["how"]), it["sev"],
            tuple((k, ascii_of(r)) for k, r in it["pushes"]), it["ord"])


def _q(s):
    return '"' + s.replace('"', '""') + '"'


def render_key(key, msg=None, ctor="Key", sep=""):
    """`Key ..` as written in Properties/C07.v and Model/DiagMap.v; the message rides along as a comment (after
    the list separator `sep`)"""
    stage, file, fn, how, sev, pushes, ordn = key
    s = "%s %s %s %s %s %s [%s] %d" % (ctor, COQ_STAGE[stage], _q(file), _q(fn), _q(how), COQ_SEV[sev],
                                       "; ".join("%s %s" % (k, _q(r)) for k, r in pushes), ordn)
    return s + sep if msg is None else s + sep + "   (* %s *)" % _q(ascii_of(msg))


def render_entry(it):
    """`Site ..` as written in Gen/DiagSites.v"""
    return "  %s\n    %s %s" % (render_key(key_of(it), ctor="Site"), _q(it["ctor"]), _q(ascii_of(it["msg"])))


def render(items):
    out = ["(* REGENERATED on every run of the C07 check from /repo/src/{parser,analysis,lexer}/*.rs, src/metadata.rs,",
           "   src/lib.rs and src/error.rs by gen/gen_diags.py: every place of the non-test code where a diagnostic (a",
           "   SourceDiag with a severity) is made - every error!(..) / warning!(..), SourceDiag::error / ::warning /",
           "   ::unlabeled (the macro definitions), .into_source_diag(..), the struct literals of src/error.rs - and",
           "   every push of a diagnostic made elsewhere (how = \"forward\"), as",
           "     Site stage file-stem enclosing-fn how severity-of-the-macro [pushes seen] ordinal message",
           "   in source order, files sorted by path; ordinal = position among the entries of that fn of that file.",
           "   The message is the string literal or the format string with its {..} kept, else <expression>; it is",
           "   INFORMATIVE: what is pinned (C07_diag_inventory, Properties/C07.v) and mapped to the constructors of",
           "   the models (Model/DiagMap.v) is [site_key], the entry without it.  Line numbers are deliberately absent:",
           "   moving code and rewording a message are harmless; a new, dropped or moved diagnostic, a changed severity",
           "   and a changed push method change [map site_key sites].",
           "   This committed copy is a snapshot so that a fresh clone builds. *)",
           "From Coq Require Import List String.", "Import ListNotations.", "Local Open Scope string_scope.",
           "Inductive stage := AtParse | AtAnalysis | AtAny.",
           "(* IsDynamic: the severity is a run-time value at this place *)",
           "Inductive sev := IsError | IsWarning | IsDynamic.",
           "(* BlockParser::error / SourceReport::error (assert an Error), ::warn (assert a Warning), SourceReport::push *)",
           "Inductive push := ByError (receiver : string) | ByWarn (receiver : string) | ByPush (receiver : string).",
           "Record site := Site { site_stage : stage; site_file : string; site_fn : string; site_how : string;",
           "                      site_sev : sev; site_pushes : list push; site_ord : nat; site_ctor : string;",
           "                      site_msg : string }.",
           "Record key := Key { key_stage : stage; key_file : string; key_fn : string; key_how : string;",
           "                    key_sev : sev; key_pushes : list push; key_ord : nat }.",
           "Definition site_key (s : site) : key :=",
           "  Key (site_stage s) (site_file s) (site_fn s) (site_how s) (site_sev s) (site_pushes s) (site_ord s).",
           "Definition sites : list site := ["]
    out.append(";\n".join(render_entry(it) for it in items))
    out.append("].")
    out.append("(* what is pinned (C07_diag_inventory): per (stage, file) the set of (severity, constructor of the models that")
    out.append("   stands for the diagnostic: site_ctor), as sorted rows; \"forward\" pushes are left out.")
    out.append("   C07_diag_summary_ok: these are exactly the (stage, file, severity, constructor) of [sites]. *)")
    out.append("Definition summary : list (stage * string * sev * string) := [")
    out.append(";\n".join("  " + render_row(r) for r in summary_of(items)))
    out.append("].")
    return "\n".join(out) + "\n"


def scan(root=None):
    """the sites of the tree, each with the constructor the dictionary of Model/DiagMap.v gives it"""
    return assign_ctors(scan_tree(root), pinned_table())


def regenerate():
    items = scan()
    path = os.path.join(common.COQ, "Gen/DiagSites.v")
    txt = render(items)
    changed = not (os.path.exists(path) and open(path, encoding="utf-8").read() == txt)
    if changed:
        with open(path, "w", encoding="utf-8") as f:
            f.write(txt)
    return {"changed": changed, "items": items}


QS = r'"((?:[^"]|"")*)"'
ENTRY = re.compile(r"(?:Site|Key)\s+(AtParse|AtAnalysis|AtAny)\s+" + QS + r"\s+" + QS + r"\s+" + QS +
                   r"\s+(IsError|IsWarning|IsDynamic)\s+\[([^\]]*)\]\s+(\d+)\s*;?(?:\s*\(\*\s*" + QS + r"\s*\*\))?"
                   r"(?:\s*,\s*([A-Za-z_]+(?:\s+[A-Za-z_0-9]+)?)\s*\)\s*;?(?:\s*\(\*\s*" + QS + r"\s*\*\))?)?")
PUSH = re.compile(r"(ByError|ByWarn|ByPush)\s+" + QS)


def parse_entries(text):
    """-> list of (key, message or None, target text or None) of the `Key ..` / `Site ..` entries of a Coq text"""
    un = lambda s: s.replace('""', '"')   # noqa: E731
    rs, rv = {v: k for k, v in COQ_STAGE.items()}, {v: k for k, v in COQ_SEV.items()}
    return [((rs[m.group(1)], un(m.group(2)), un(m.group(3)), un(m.group(4)), rv[m.group(5)],
              tuple((k, un(r)) for k, r in PUSH.findall(m.group(6))), int(m.group(7))),
             un(m.group(8)) if m.group(8) is not None else (un(m.group(10)) if m.group(10) is not None else None),
             m.group(9))
            for m in ENTRY.finditer(text)]


def expected_summary():
    """the rows in the statement of C07_diag_inventory (the single place where the expectation lives)"""
    src = open(os.path.join(common.COQ, "Properties/C07.v"), encoding="utf-8").read()
    m = re.search(r"Theorem\s+C07_diag_inventory\s*:\s*DiagSites\.summary\s*=\s*\[(.*?)\n\s*\]\s*\.\s*Proof", src, flags=re.S)
    return None if not m else parse_rows(m.group(1))


def summary_diff(items, expected):
    """(lines, unknown): the rows of the multiset that differ from the pinned ones, each followed by the sites of
    the source that make up the row (with their messages), and the sites nobody could name"""
    have = {r[:4]: r[4] for r in summary_of(items)}
    exp = {r[:4]: r[4] for r in (expected or [])}
    lines = []
    for k in sorted(set(have) | set(exp)):
        if (k in have) != (k in exp):
            lines.append("%s %s %s.rs: %s diagnostic of constructor %s (%s)" % (
                "+" if k in have else "-", k[0], k[1], k[2], k[3],
                "in the code, not pinned" if k in have else "pinned, no site of the code has it"))
            for it in items:
                if (it["stage"], ascii_of(it["file"]), it["sev"], it["ctor"]) == k and it["how"] != "forward":
                    lines.append("      %s:%d %s (named by %s)" % (it["path"], it["line"], show_key(key_of(it), it["msg"]), it["via"]))
    unknown = ["%s:%d %s" % (it["path"], it["line"], show_key(key_of(it), it["msg"])) for it in items if it["ctor"] == "unknown"]
    return lines, unknown


def expected_sites():
    """the keys in the statement of C07_diag_inventory (the single place where the expectation lives), each with
    the message written beside it as a comment (informative: the wording when the list was last written)"""
    src = open(os.path.join(common.COQ, "Properties/C07.v"), encoding="utf-8").read()
    m = re.search(r"Theorem\s+C07_diag_inventory\s*:\s*map\s+site_key\s+DiagSites\.sites\s*=\s*\[(.*?)\n\s*\]\s*\.\s*Proof",
                  src, flags=re.S)
    if not m:
        return None
    return [(k, msg) for k, msg, _ in parse_entries(m.group(1))]


def pinned_table():
    """[table] of Model/DiagMap.v: (key, constructor text) - `PCode D_DIV_ZERO`, `AKind KRefNotFound`, `Ctor`,
    `Forward`, `Unmodelled callback_why`; its keys are proved to be the pinned list (C07_diag_table_keys)"""
    src = open(os.path.join(common.COQ, "Model/DiagMap.v"), encoding="utf-8").read()
    m = re.search(r"Definition\s+table\s*:[^=]*:=\s*\[(.*?)\n\]\s*\.", src, flags=re.S)
    if not m:
        return None
    return [(k, " ".join(t.split()), msg) for k, msg, t in parse_entries(m.group(1)) if t is not None]


def show_key(key, msg=None):
    stage, file, fn, how, sev, pushes, ordn = key
    return "%s %s.rs fn %s #%d: %s %s %s%s" % (stage, file, fn, ordn, how, sev,
                                              "[" + ", ".join("%s %s" % p for p in pushes) + "]",
                                              "" if msg is None else ' "%s"' % ascii_of(msg))


def diff(items, expected):
    """(new, gone): entries of the source that the theorem does not list (with their location), and the
    converse; aligned as sequences, so a changed entry is reported where it is"""
    import difflib
    have = [key_of(it) for it in items]
    exp = [k for k, _ in (expected or [])]
    msgs = [m for _, m in (expected or [])]
    new, gone = [], []
    for op, i1, i2, j1, j2 in difflib.SequenceMatcher(None, exp, have, autojunk=False).get_opcodes():
        if op in ("replace", "delete"):
            gone += ["- " + show_key(e, m) for e, m in zip(exp[i1:i2], msgs[i1:i2])]
        if op in ("replace", "insert"):
            new += ["+ %s   (%s:%d)" % (show_key(key_of(it), it["msg"]), it["path"], it["line"]) for it in items[j1:j2]]
    return new, gone


if __name__ == "__main__":
    if len(sys.argv) > 1 and sys.argv[1] == "--coq":
        sys.stdout.write(render(scan_tree()))
        sys.exit(0)
    if len(sys.argv) > 1 and sys.argv[1] == "--theorem":
        its = scan_tree(sys.argv[2] if len(sys.argv) > 2 else None)
        print("\n".join("  " + render_key(key_of(it), it["msg"], sep=";" if i + 1 < len(its) else "")
                        for i, it in enumerate(its)))
        sys.exit(0)
    if len(sys.argv) > 1 and sys.argv[1] == "--summary":
        its = scan(sys.argv[2] if len(sys.argv) > 2 else None)
        print(";\n".join("  " + render_row(r) for r in summary_of(its)))
        for it in its:
            if it["via"] != "key":
                print("# %s:%d %s -> %s (by %s)" % (it["path"], it["line"], show_key(key_of(it), it["msg"]), it["ctor"], it["via"]))
        sys.exit(0)
    if len(sys.argv) > 1:
        its = scan(sys.argv[1])
    else:
        r = regenerate()
        print("changed:", r["changed"])
        its = r["items"]
    for it in its:
        print("%s:%d  %s" % (it["path"], it["line"], show_key(key_of(it), it["msg"])))
