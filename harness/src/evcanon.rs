//! Canonical rendering of parser events (shared by several harness binaries and, token for
//! token, by runner/events_main.ml).
use cooklang::parser::{BlockKind, Event, IntermediateRefMode, IntermediateTargetKind, Quantity, QuantityValue};
use cooklang::quantity::{Number, Value};
use cooklang::{Span, Text};

use crate::{f64_exact, hex};

pub fn span(s: Span) -> String {
    format!("{}-{}", s.start(), s.end())
}

pub fn is_soft(f: &cooklang::text::TextFragment) -> bool {
    format!("{:?}", f).starts_with("SoftBreak(")
}

pub fn text(t: &Text) -> String {
    let mut o = format!("T{}[", span(t.span()));
    let mut first = true;
    for f in t.fragments() {
        if !first {
            o.push(',');
        }
        first = false;
        if is_soft(f) {
            o.push('~');
        }
        o.push_str(&hex(f.text()));
        o.push('@');
        o.push_str(&f.start().to_string());
    }
    o.push(']');
    o
}

pub fn opt_text(t: &Option<Text>) -> String {
    t.as_ref().map(text).unwrap_or_else(|| "-".into())
}

pub fn number(n: &Number) -> String {
    match n {
        Number::Regular(v) => format!("f:{}", f64_exact(*v).replace(' ', ":")),
        Number::Fraction { whole, num, den, err } => {
            if *err == 0.0 {
                format!("F:{}:{}:{}", whole, num, den)
            } else {
                format!("F:{}:{}:{}:err", whole, num, den)
            }
        }
    }
}

pub fn value(v: &Value) -> String {
    match v {
        Value::Number(n) => format!("N({})", number(n)),
        Value::Range { start, end } => format!("R({};{})", number(start), number(end)),
        Value::Text(t) => format!("X({})", hex(t)),
    }
}

pub fn qvalue(q: &QuantityValue) -> String {
    format!(
        "{}@{} lock={}",
        value(q.value.value()),
        span(q.value.span()),
        q.scaling_lock.map(span).unwrap_or_else(|| "-".into())
    )
}

pub fn quantity(q: &cooklang::Located<Quantity>) -> String {
    format!(
        "Q[{} unit={} @{}]",
        qvalue(&q.value().value),
        opt_text(&q.value().unit),
        span(q.span())
    )
}

pub fn diag(d: &cooklang::error::SourceDiag) -> String {
    let labels: Vec<String> = d.labels.iter().map(|(s, _)| span(*s)).collect();
    format!("D {} {}", if d.is_error() { "e" } else { "w" }, labels.join(","))
}

pub fn event(ev: &Event) -> String {
    match ev {
        Event::YAMLFrontMatter(t) => format!("Y {}", text(t)),
        Event::Metadata { key, value } => format!("M {} {}", text(key), text(value)),
        Event::Section { name } => format!("S {}", opt_text(name)),
        Event::Start(BlockKind::Step) => "B1".into(),
        Event::Start(BlockKind::Text) => "B0".into(),
        Event::End(BlockKind::Step) => "E1".into(),
        Event::End(BlockKind::Text) => "E0".into(),
        Event::Text(t) => format!("X {}", text(t)),
        Event::Ingredient(i) => {
            let s = i.span();
            let i = i.value();
            let inter = match &i.intermediate_data {
                None => "-".to_string(),
                Some(d) => format!(
                    "{}{}:{}@{}",
                    if d.value().ref_mode == IntermediateRefMode::Relative { "r" } else { "n" },
                    if d.value().target_kind == IntermediateTargetKind::Section { "s" } else { "t" },
                    d.value().val,
                    span(d.span())
                ),
            };
            format!(
                "I mods={}@{} inter={} name={} alias={} qty={} note={} @{}",
                i.modifiers.value().bits(),
                span(i.modifiers.span()),
                inter,
                text(&i.name),
                opt_text(&i.alias),
                i.quantity.as_ref().map(quantity).unwrap_or_else(|| "-".into()),
                opt_text(&i.note),
                span(s)
            )
        }
        Event::Cookware(c) => {
            let s = c.span();
            let c = c.value();
            format!(
                "C mods={}@{} name={} alias={} qty={} note={} @{}",
                c.modifiers.value().bits(),
                span(c.modifiers.span()),
                text(&c.name),
                opt_text(&c.alias),
                c.quantity
                    .as_ref()
                    .map(|q| format!("V[{} @{}]", qvalue(q.value()), span(q.span())))
                    .unwrap_or_else(|| "-".into()),
                opt_text(&c.note),
                span(s)
            )
        }
        Event::Timer(t) => {
            let s = t.span();
            let t = t.value();
            format!(
                "R name={} qty={} @{}",
                opt_text(&t.name),
                t.quantity.as_ref().map(quantity).unwrap_or_else(|| "-".into()),
                span(s)
            )
        }
        Event::Error(d) | Event::Warning(d) => diag(d),
    }
}

pub fn events(evs: &[Event]) -> String {
    if evs.is_empty() {
        return "-".into();
    }
    evs.iter().map(event).collect::<Vec<_>>().join(" | ")
}
