//! L-std: `CooklangValueExt` accessors, `Metadata::{time,servings,tags,author,source,locale}`,
//! the parse-time std-key warning, `RecipeTime::total`.
//!
//! Case lines:
//!   `U <conv>`                         -> `U <n units> ; <keys,..> <time 0/1> <ratio m e> <diff m e> ; ...`
//!   `K <code point>`                   -> `K <is_alphabetic> <is_whitespace>`
//!   `<conv> <carrier> <focus> (<key hex> <value hex>)+`
//! conv: b = bundled, e = Converter::empty(), s = bundled + units/spanish.toml (path in env
//! STDMETA_SPANISH).  carrier: o = `>> key: value` lines, y = YAML front matter (value is raw
//! YAML text).  focus: subset of `tsgnl` (time, servings, tags, name/url, locale) or `-`.
//! Output: `E (<yaml term> <warned 0/1>)* ; M .. ; T .. ; O .. ; MT .. ; MO .. ; S .. ; MS .. ; D .. ;
//!          G .. ; MG .. ; N .. ; MA .. ; MU .. ; L .. ; ML .. ; F <class> ; V <violated|-> ; FV <exact>`
//! Everything before ` ; V ` is what the model must reproduce; V is the monitor: the documented
//! meaning of the stored value (module `doc`, written from the doc comments and extensions.md,
//! exact rational arithmetic) against what the accessors returned.
use cooklang::convert::{Converter, ConverterBuilder, PhysicalQuantity, UnitsFile};
use cooklang::metadata::{CooklangValueExt, NameAndUrl, RecipeTime, StdKey};
use cooklang::{CooklangParser, Extensions};
use serde_yaml::Value;
use std::str::FromStr;
use vh::*;

fn term(v: &Value) -> String {
    match v {
        Value::Null => "n".into(),
        Value::Bool(b) => if *b { "t".into() } else { "f".into() },
        Value::Number(n) => format!(
            "#{}:{}",
            n.as_u64().map(|u| u.to_string()).unwrap_or_else(|| "-".into()),
            hex(&n.to_string())
        ),
        Value::String(s) => hex(s),
        Value::Sequence(l) => format!("[{}]", l.iter().map(term).collect::<Vec<_>>().join(",")),
        Value::Mapping(m) => format!(
            "{{{}}}",
            m.iter().map(|(k, v)| format!("{}={}", term(k), term(v))).collect::<Vec<_>>().join(",")
        ),
        Value::Tagged(t) => format!("!{}:{}", hex(&t.tag.to_string()), term(&t.value)),
    }
}

fn on(o: Option<u32>) -> String {
    o.map(|n| n.to_string()).unwrap_or_else(|| "-".into())
}
fn rt(t: &RecipeTime) -> String {
    match t {
        RecipeTime::Total(n) => format!("T{}", n),
        RecipeTime::Composed { prep_time, cook_time } => format!("C{}/{}", on(*prep_time), on(*cook_time)),
    }
}
fn ort(t: &Option<RecipeTime>) -> String {
    t.as_ref().map(rt).unwrap_or_else(|| "-".into())
}
fn olist(l: &Option<Vec<u32>>) -> String {
    match l {
        None => "-".into(),
        Some(v) => format!("[{}]", v.iter().map(|n| n.to_string()).collect::<Vec<_>>().join(",")),
    }
}
fn otags(l: &Option<Vec<String>>) -> String {
    match l {
        None => "-".into(),
        Some(v) => format!("[{}]", v.iter().map(|s| hex(s)).collect::<Vec<_>>().join(",")),
    }
}
fn ostr(o: Option<&str>) -> String {
    o.map(hex).unwrap_or_else(|| "-".into())
}
fn onu(o: &Option<(Option<String>, Option<String>)>) -> String {
    match o {
        None => "-".into(),
        Some((n, u)) => format!("{}/{}", ostr(n.as_deref()), ostr(u.as_deref())),
    }
}
fn oloc(o: &Option<(String, Option<String>)>) -> String {
    match o {
        None => "-".into(),
        Some((l, d)) => format!("{}/{}", hex(l), ostr(d.as_deref())),
    }
}
fn nu_pair(n: NameAndUrl) -> (Option<String>, Option<String>) {
    (n.name().map(str::to_string), n.url().map(str::to_string))
}
fn g<T>(f: impl FnOnce() -> T, show: impl FnOnce(&T) -> String, panicked: &mut bool) -> (Option<T>, String) {
    match guarded(f) {
        Ok(v) => {
            let s = show(&v);
            (Some(v), s)
        }
        Err(_) => {
            *panicked = true;
            (None, "panic".into())
        }
    }
}

/// The documented meaning, independent of the implementation's parsing code.
mod doc {
    use super::*;

    #[derive(Debug, Clone, Copy, PartialEq)]
    pub enum D<T> {
        Is(T),
        Nothing,
        Skip, // the monitor's own arithmetic would overflow: not judged
    }

    #[derive(Clone, Copy, Debug)]
    pub struct Rat {
        pub n: u128,
        pub d: u128,
    }
    impl Rat {
        fn add(self, o: Rat) -> Option<Rat> {
            let n = self.n.checked_mul(o.d)?.checked_add(o.n.checked_mul(self.d)?)?;
            let d = self.d.checked_mul(o.d)?;
            Some(Rat { n, d }.reduce())
        }
        fn mul(self, o: Rat) -> Option<Rat> {
            Some(Rat { n: self.n.checked_mul(o.n)?, d: self.d.checked_mul(o.d)? }.reduce())
        }
        fn reduce(self) -> Rat {
            fn gcd(a: u128, b: u128) -> u128 { if b == 0 { a } else { gcd(b, a % b) } }
            let g = gcd(self.n, self.d);
            if g > 1 { Rat { n: self.n / g, d: self.d / g } } else { self }
        }
    }

    fn natural(s: &str) -> Option<Option<u128>> {
        // digits only; Some(None) = a natural too large for the monitor
        if s.is_empty() || !s.bytes().all(|b| b.is_ascii_digit()) {
            return None;
        }
        let t = s.trim_start_matches('0');
        if t.len() > 30 {
            return Some(None);
        }
        Some(Some(if t.is_empty() { 0 } else { t.parse::<u128>().unwrap() }))
    }

    /// `digits[.digits]`, `digits.`, `.digits`
    fn decimal(s: &str) -> Option<Option<Rat>> {
        let (ip, fp) = match s.split_once('.') {
            Some((a, b)) => (a, b),
            None => (s, ""),
        };
        if ip.is_empty() && fp.is_empty() {
            return None;
        }
        if !ip.bytes().all(|b| b.is_ascii_digit()) || !fp.bytes().all(|b| b.is_ascii_digit()) {
            return None;
        }
        let all = format!("{}{}", ip, fp);
        let t = all.trim_start_matches('0');
        if t.len() > 25 || fp.len() > 12 {
            return Some(None);
        }
        let n = if t.is_empty() { 0 } else { t.parse::<u128>().unwrap() };
        Some(Some(Rat { n, d: 10u128.pow(fp.len() as u32) }.reduce()))
    }

    /// compact form: `<H>h`, `<M>m`, `<H>h<M>m`; naturals may carry a leading `+`
    fn hhmm(s: &str) -> Option<Option<Rat>> {
        fn nat(s: &str) -> Option<Option<u128>> {
            natural(s.strip_prefix('+').unwrap_or(s))
        }
        let (h, m) = if let Some(body) = s.strip_suffix('m') {
            match body.split_once('h') {
                Some((h, m)) => (Some(h), Some(m)),
                None => (None, Some(body)),
            }
        } else if let Some(body) = s.strip_suffix('h') {
            (Some(body), None)
        } else {
            return None;
        };
        let hv = match h { Some(x) => Some(nat(x)?), None => None };
        let mv = match m { Some(x) => Some(nat(x)?), None => None };
        let mut tot: u128 = 0;
        if let Some(x) = hv {
            match x { Some(x) => tot += x * 60, None => return Some(None) }
        }
        if let Some(x) = mv {
            match x { Some(x) => tot += x, None => return Some(None) }
        }
        Some(Some(Rat { n: tot, d: 1 }))
    }

    fn f64_int(v: f64) -> Option<u128> {
        if v.is_finite() && v > 0.0 && v.fract() == 0.0 && v < 1e30 { Some(v as u128) } else { None }
    }

    /// minutes per `unit`, by the unit's definition: hard-coded names when the converter has no
    /// units, otherwise any key of a Time unit of the converter, sized against its minute
    fn unit_minutes(conv: &Converter, unit: &str) -> Option<Option<Rat>> {
        if conv.unit_count() == 0 {
            let r = match unit {
                "s" | "sec" | "secs" | "second" | "seconds" => Rat { n: 1, d: 60 },
                "m" | "min" | "minute" | "minutes" => Rat { n: 1, d: 1 },
                "h" | "hour" | "hours" => Rat { n: 60, d: 1 },
                "d" | "day" | "days" => Rat { n: 1440, d: 1 },
                _ => return None,
            };
            return Some(Some(r));
        }
        let u = conv.find_unit(unit)?;
        if u.physical_quantity != PhysicalQuantity::Time {
            return None;
        }
        let min = conv.find_unit("min").or_else(|| conv.find_unit("minute")).or_else(|| conv.find_unit("minutes"))?;
        if min.physical_quantity != PhysicalQuantity::Time {
            return None;
        }
        match (f64_int(u.ratio), f64_int(min.ratio)) {
            (Some(a), Some(b)) => Some(Some(Rat { n: a, d: b }.reduce())),
            _ => Some(None),
        }
    }

    fn pairs(conv: &Converter, s: &str) -> Option<Option<Rat>> {
        let mut parts = s.split(char::is_whitespace).filter(|p| !p.is_empty());
        let mut total = Rat { n: 0, d: 1 };
        let mut any = false;
        let mut skip = false;
        while let Some(p) = parts.next() {
            let cut = p.char_indices().find(|(_, c)| !(c.is_ascii_digit() || *c == '.')).map(|(i, _)| i);
            let (num, unit) = match cut {
                Some(i) => (&p[..i], &p[i..]),
                None => (p, parts.next()?),
            };
            let q = decimal(num)?;
            let u = unit_minutes(conv, unit)?;
            any = true;
            match (q, u) {
                (Some(q), Some(u)) => match q.mul(u).and_then(|x| total.add(x)) {
                    Some(t) => total = t,
                    None => skip = true,
                },
                _ => skip = true,
            }
        }
        if !any {
            return None;
        }
        Some(if skip { None } else { Some(total) })
    }

    /// a number without unit, in decimal or scientific notation; Err(()) = negative
    fn number(s: &str) -> Option<Result<Option<Rat>, ()>> {
        let (neg, body) = match s.as_bytes().first()? {
            b'-' => (true, &s[1..]),
            b'+' => (false, &s[1..]),
            _ => (false, s),
        };
        let (mant, exp) = match body.find(['e', 'E']) {
            Some(i) => {
                let e = &body[i + 1..];
                let (eneg, ed) = match e.as_bytes().first()? {
                    b'-' => (true, &e[1..]),
                    b'+' => (false, &e[1..]),
                    _ => (false, e),
                };
                let ev = natural(ed)?;
                let ev: i64 = match ev { Some(x) if x < 100000 => x as i64, _ => 100000 };
                (&body[..i], if eneg { -ev } else { ev })
            }
            None => (body, 0),
        };
        let (ip, fp) = match mant.split_once('.') {
            Some((a, b)) => (a, b),
            None => (mant, ""),
        };
        if (ip.is_empty() && fp.is_empty())
            || !ip.bytes().all(|b| b.is_ascii_digit())
            || !fp.bytes().all(|b| b.is_ascii_digit())
        {
            return None;
        }
        let all = format!("{}{}", ip, fp);
        let t = all.trim_start_matches('0');
        if t.is_empty() {
            return Some(Ok(Some(Rat { n: 0, d: 1 })));
        }
        if neg {
            return Some(Err(()));
        }
        let sc = exp - fp.len() as i64; // value = t * 10^sc
        let mag = sc + t.len() as i64; // value < 10^mag, >= 10^(mag-1)
        if mag - 1 >= 10 {
            return Some(Ok(Some(Rat { n: 1u128 << 40, d: 1 }))); // certainly beyond u32
        }
        if mag <= -1 {
            return Some(Ok(Some(Rat { n: 1, d: 100 }))); // certainly rounds to 0
        }
        if t.len() > 20 || sc.abs() > 30 {
            return Some(Ok(None));
        }
        let n: u128 = t.parse().unwrap();
        Some(Ok(Some(if sc >= 0 {
            Rat { n: n * 10u128.pow(sc as u32), d: 1 }
        } else {
            Rat { n, d: 10u128.pow((-sc) as u32) }.reduce()
        })))
    }

    /// the minutes a string denotes
    pub fn minutes_str(conv: &Converter, s: &str) -> D<Rat> {
        let r = if let Some(r) = hhmm(s) {
            r
        } else if let Some(r) = pairs(conv, s) {
            r
        } else if let Some(r) = number(s) {
            match r {
                Ok(r) => r,
                Err(()) => return D::Nothing,
            }
        } else {
            return D::Nothing;
        };
        match r {
            Some(q) => D::Is(q),
            None => D::Skip,
        }
    }

    /// does the accessor's answer `got` agree with the documented meaning?
    pub fn minutes_ok(conv: &Converter, v: &Value, got: Option<u32>) -> Option<bool> {
        let v = untag(v);
        if let Value::Number(n) = v {
            let want = n.as_u64().filter(|u| *u <= u32::MAX as u64).map(|u| u as u32);
            return Some(want == got);
        }
        let Value::String(s) = v else { return Some(got.is_none()) };
        match minutes_str(conv, s) {
            D::Skip => None,
            D::Nothing => Some(got.is_none()),
            D::Is(q) => {
                // rounded half up; a tie within 2^-40 may go either way
                let two_d = q.d.checked_mul(2)?;
                let r = q.n.checked_mul(2)?.checked_add(q.d)? / two_d;
                match got {
                    Some(g) => {
                        if r == g as u128 && r <= u32::MAX as u128 {
                            return Some(true);
                        }
                        let gd = (g as u128).checked_mul(q.d)?;
                        let dist2 = gd.abs_diff(q.n).checked_mul(2)?;
                        Some(dist2 <= q.d + (q.n >> 39) && g as u128 <= u32::MAX as u128 && (r <= u32::MAX as u128 || g == u32::MAX))
                    }
                    None => Some(r > u32::MAX as u128 || {
                        // tie at the upper bound
                        r == u32::MAX as u128 && q.n.checked_mul(2)?.checked_add(q.d + (q.n >> 39))? / two_d > r
                    }),
                }
            }
        }
    }

    pub fn untag(v: &Value) -> &Value {
        let mut v = v;
        while let Value::Tagged(t) = v {
            v = &t.value;
        }
        v
    }

    pub fn minutes_val(conv: &Converter, v: &Value) -> D<u32> {
        // used for composed times: exact only
        let v = untag(v);
        if let Value::Number(n) = v {
            return match n.as_u64().filter(|u| *u <= u32::MAX as u64) {
                Some(u) => D::Is(u as u32),
                None => D::Nothing,
            };
        }
        let Value::String(s) = v else { return D::Nothing };
        match minutes_str(conv, s) {
            D::Skip => D::Skip,
            D::Nothing => D::Nothing,
            D::Is(q) => {
                let Some(r) = q.n.checked_mul(2).and_then(|x| x.checked_add(q.d)).map(|x| x / (2 * q.d)) else { return D::Skip };
                // refuse to judge near ties
                let frac2 = (q.n * 2 + q.d) % (2 * q.d);
                if frac2 == 0 || frac2 == 2 * q.d - 1 { /* exact tie or just below: fine, exact arithmetic */ }
                if r <= u32::MAX as u128 { D::Is(r as u32) } else { D::Nothing }
            }
        }
    }

    /// leading number of a servings entry: digits, then nothing or a non-alphanumeric character
    fn serving_text(s: &str) -> Option<u32> {
        let end = s.find(|c: char| !c.is_ascii_digit()).unwrap_or(s.len());
        let (num, rest) = s.split_at(end);
        if num.is_empty() {
            return None;
        }
        if let Some(c) = rest.chars().next() {
            if c.is_ascii_alphanumeric() {
                return None;
            }
        }
        let t = num.trim_start_matches('0');
        if t.len() > 10 {
            return None;
        }
        let n: u64 = if t.is_empty() { 0 } else { t.parse().unwrap() };
        u32::try_from(n).ok()
    }
    fn natural_u32(v: &Value) -> Option<u32> {
        match untag(v) {
            Value::Number(n) => n.as_u64().and_then(|u| u32::try_from(u).ok()),
            _ => None,
        }
    }
    pub fn servings(v: &Value) -> Option<Vec<u32>> {
        let l: Vec<u32> = if let Some(n) = natural_u32(v) {
            vec![n]
        } else {
            match untag(v) {
                Value::String(s) => s.split('|').map(|e| serving_text(e.trim())).collect::<Option<Vec<_>>>()?,
                Value::Sequence(seq) => seq
                    .iter()
                    .map(|e| natural_u32(e).or_else(|| match untag(e) {
                        Value::String(s) => serving_text(s),
                        _ => None,
                    }))
                    .collect::<Option<Vec<_>>>()?,
                _ => return None,
            }
        };
        let set: std::collections::BTreeSet<u32> = l.iter().copied().collect();
        if set.len() != l.len() {
            return None;
        }
        Some(l)
    }

    pub fn tags(v: &Value) -> Option<Vec<String>> {
        let entries: Vec<String> = match untag(v) {
            Value::String(s) => s.split(',').map(|e| e.trim().to_string()).collect(),
            Value::Sequence(seq) => seq
                .iter()
                .map(|e| match e {
                    Value::Number(n) => Some(n.to_string()),
                    other => match untag(other) {
                        Value::String(s) => Some(s.clone()),
                        _ => None,
                    },
                })
                .collect::<Option<Vec<_>>>()?,
            _ => return None,
        };
        let mut out: Vec<String> = Vec::new();
        for e in entries {
            if !e.is_empty() && !out.contains(&e) {
                out.push(e);
            }
        }
        Some(out)
    }

    /// `scheme://host[/...]`: letters before `://`, a non-empty host without blanks
    pub fn valid_url(s: &str) -> bool {
        let Some(i) = s.find("://") else { return false };
        let (scheme, rest) = (&s[..i], &s[i + 3..]);
        let host = rest.split('/').next().unwrap_or("");
        scheme.chars().all(char::is_alphabetic) && !host.is_empty() && !host.chars().any(char::is_whitespace)
    }

    /// the seven rows of the table in extensions.md ("Name with URL")
    pub fn name_url(s: &str) -> (Option<String>, Option<String>) {
        let some = |x: &str| {
            let t = x.trim();
            if t.is_empty() { None } else { Some(t.to_string()) }
        };
        let t = s.trim_end_matches(|c: char| c.is_ascii_whitespace());
        if t.ends_with('>') && t.matches('<').count() == 1 {
            let open = t.find('<').unwrap();
            let (name, url) = (&t[..open], &t[open + 1..t.len() - 1]);
            if !url.contains('>') && valid_url(url.trim()) {
                return (some(name), some(url)); // `name <valid url>`, `<valid url>`
            }
        }
        if valid_url(s) {
            return (None, some(s)); // `valid url`
        }
        (some(s), None) // `name`, `invalid url`, `<invalid url>`, `name <invalid url>`
    }
    pub fn name_url_val(v: &Value) -> Option<(Option<String>, Option<String>)> {
        if let Value::Number(n) = v {
            return Some(name_url(&n.to_string()));
        }
        match untag(v) {
            Value::String(s) => Some(name_url(s)),
            Value::Mapping(m) => {
                let f = |k: &str| m.get(k).and_then(|x| match untag(x) { Value::String(s) => Some(s.as_str()), _ => None });
                let (n, u) = (f("name"), f("url"));
                if n.is_none() && u.is_none() {
                    return None;
                }
                let some = |x: Option<&str>| x.map(str::trim).filter(|t| !t.is_empty()).map(str::to_string);
                Some((some(n), some(u)))
            }
            _ => None,
        }
    }

    /// `ll` or `ll_CC`, ASCII letters
    pub fn locale(v: &Value) -> Option<(String, Option<String>)> {
        let Value::String(s) = untag(v) else { return None };
        let c: Vec<char> = s.chars().collect();
        let l = |x: &[char]| x.iter().all(|c| c.is_ascii_alphabetic());
        if c.len() == 2 && l(&c) {
            return Some((s.clone(), None));
        }
        if c.len() == 5 && c[2] == '_' && l(&c[..2]) && l(&c[3..]) {
            return Some((c[..2].iter().collect(), Some(c[3..].iter().collect())));
        }
        None
    }
}

fn conv_dump(c: &Converter) -> String {
    let mut o = format!("U {}", c.unit_count());
    for u in c.all_units() {
        let keys: Vec<String> = u.names.iter().chain(&u.symbols).chain(&u.aliases).map(|k| hex(k)).collect();
        o.push_str(&format!(
            " ; {} {} {} {}",
            keys.join(","),
            if u.physical_quantity == PhysicalQuantity::Time { 1 } else { 0 },
            f64_exact(u.ratio),
            f64_exact(u.difference)
        ));
    }
    o
}

fn f64_class(s: &str) -> (String, String) {
    match s.parse::<f64>() {
        Err(_) => ("err".into(), "-".into()),
        Ok(v) if v.is_nan() => ("nan".into(), "-".into()),
        Ok(v) if v.is_infinite() => (if v > 0.0 { "inf".into() } else { "-inf".into() }, "-".into()),
        Ok(v) => ("fin".into(), f64_exact(v).replace(' ', ":")),
    }
}

fn main() {
    let spanish: Option<Converter> = std::env::var("STDMETA_SPANISH").ok().and_then(|p| {
        let text = std::fs::read_to_string(p).ok()?;
        let f: UnitsFile = toml::from_str(&text).ok()?;
        ConverterBuilder::new()
            .with_units_file(UnitsFile::bundled())
            .and_then(|b| b.with_units_file(f))
            .and_then(|b| b.finish())
            .ok()
    });
    let bundled = Converter::bundled();
    let empty = Converter::empty();
    // "renamed-units converter": the bundled file whose minute is called minuto/minutos/mnt, so that
    // none of min/minute/minutes is known and `m` is only the metre
    let renamed: Option<Converter> = (|| {
        use cooklang::convert::units_file::{BestUnits, Units};
        let mut file = UnitsFile::bundled();
        for group in &mut file.quantity {
            if group.quantity != PhysicalQuantity::Time {
                continue;
            }
            group.best = Some(BestUnits::Unified(["s", "h", "mnt", "d"].map(String::from).to_vec()));
            if let Some(Units::Unified(units)) = &mut group.units {
                for unit in units.iter_mut() {
                    if unit.symbols.iter().any(|s| &**s == "min") {
                        unit.names = vec!["minuto".into(), "minutos".into()];
                        unit.symbols = vec!["mnt".into()];
                        unit.aliases = vec![];
                    }
                }
            }
        }
        ConverterBuilder::new().with_units_file(file).and_then(|b| b.finish()).ok()
    })();
    let pick = |id: &str| -> Option<Converter> {
        match id {
            "b" => Some(bundled.clone()),
            "e" => Some(empty.clone()),
            "s" => spanish.clone(),
            "r" => renamed.clone(),
            _ => None,
        }
    };
    let parsers: Vec<(String, Option<CooklangParser>)> = ["b", "e", "s", "r"]
        .iter()
        .map(|id| (id.to_string(), pick(id).map(|c| CooklangParser::new(Extensions::all(), c))))
        .collect();

    drive(|f| {
        if f[0] == "U" {
            return match pick(f[1]) {
                Some(c) => conv_dump(&c),
                None => "U unavailable".into(),
            };
        }
        if f[0] == "K" {
            let c = char::from_u32(f[1].parse().unwrap()).unwrap();
            return format!("K {} {}", c.is_alphabetic() as u8, c.is_whitespace() as u8);
        }
        let Some(parser) = parsers.iter().find(|(id, _)| id == f[0]).and_then(|(_, p)| p.as_ref()) else {
            return "unavailable".into();
        };
        let conv = parser.converter();
        let carrier = f[1];
        let focus = f[2];
        let entries: Vec<(String, String)> = f[3..].chunks(2).map(|c| (unhex(c[0]), unhex(c[1]))).collect();
        let mut src = String::new();
        if carrier == "y" {
            src.push_str("---\n");
            for (k, v) in &entries {
                src.push_str(&format!("{}: {}\n", k, v));
            }
            src.push_str("---\n");
        } else {
            for (k, v) in &entries {
                src.push_str(&format!(">> {}: {}\n", k, v));
            }
        }
        let mut panicked = false;
        let mut viol: Vec<&str> = Vec::new();
        let parsed = guarded(|| parser.parse(&src));
        let Ok(result) = parsed else {
            return "E panic ; V nopanic ; FV -".into();
        };
        let warnings: Vec<String> = result.report().warnings().map(|w| w.message.to_string()).collect();
        let Some(recipe) = result.output() else {
            return "E noparse ; V - ; FV -".into();
        };
        let meta = &recipe.metadata;
        let mut e_out = String::from("E");
        let mut first: Option<&Value> = None;
        for (i, (k, _)) in entries.iter().enumerate() {
            let warned = warnings.iter().any(|m| *m == format!("Unsupported value for key: '{}'", k));
            match meta.map.get(k.as_str()) {
                Some(v) => {
                    if i == 0 {
                        first = Some(v);
                    }
                    e_out.push_str(&format!(" {} {}", term(v), warned as u8));
                    // warning <=> the accessor of that key gives nothing
                    if let Ok(sk) = StdKey::from_str(k) {
                        let none: Option<bool> = match sk {
                            StdKey::Time => guarded(|| v.as_time(conv).is_none()).ok(),
                            StdKey::PrepTime | StdKey::CookTime => guarded(|| v.as_minutes(conv).is_none()).ok(),
                            StdKey::Servings => Some(v.as_servings().is_none()),
                            StdKey::Tags => Some(v.as_tags().is_none()),
                            StdKey::Locale => Some(v.as_locale().is_none()),
                            StdKey::Author | StdKey::Source => Some(v.as_name_and_url().is_none()),
                            StdKey::Title | StdKey::Description => Some(v.as_str().is_none()),
                            _ => Some(false),
                        };
                        match none {
                            Some(n) if n != warned => viol.push("warning_iff_none"),
                            None => panicked = true,
                            _ => {}
                        }
                    }
                }
                None => e_out.push_str(&format!(" ? {}", warned as u8)),
            }
        }
        // the DOCUMENTED value of an entry: on a `>> key: value` line it is the text as written (old-style
        // metadata has no types), whatever the implementation chose to store; in front matter it is the YAML value
        // (values holding comment openers or escapes are spelled differently from what they denote: not overridden)
        let plain = !(entries[0].1.contains("--") || entries[0].1.contains("[-") || entries[0].1.contains('\\'));
        let docv: Option<Value> = if carrier == "o" && plain {
            Some(Value::String(entries[0].1.trim().to_string()))
        } else {
            None
        };
        let skip = "~".to_string();
        let mut o: Vec<(&str, String)> = Vec::new();
        let (mut fcls, mut fexact) = ("~".to_string(), "-".to_string());

        // ---- time
        if focus.contains('t') {
            if let Some(v) = first {
                let dv: &Value = docv.as_ref().unwrap_or(v);
                let (m, ms) = g(|| v.as_minutes(conv), |x| on(*x), &mut panicked);
                let (t, ts) = g(|| v.as_time(conv), ort, &mut panicked);
                let tot = match &t {
                    Some(Some(t)) => {
                        let t = *t;
                        let (val, s) = g(|| t.total(), |x| x.to_string(), &mut panicked);
                        if let (Some(val), RecipeTime::Composed { prep_time, cook_time }) = (val, t) {
                            let sum = prep_time.unwrap_or(0) as u64 + cook_time.unwrap_or(0) as u64;
                            if val as u64 != sum.min(u32::MAX as u64) {
                                viol.push("total");
                            }
                        }
                        s
                    }
                    None => "panic".into(),
                    _ => "-".into(),
                };
                o.push(("M", ms));
                o.push(("T", ts));
                o.push(("O", tot));
                if let Some(m) = m {
                    match doc::minutes_ok(conv, dv, m) {
                        Some(false) => viol.push("minutes"),
                        _ => {}
                    }
                }
                if let Some(t) = t {
                    // as_time: the minutes if there are any, else a mapping of prep/cook
                    let want: doc::D<Option<RecipeTime>> = match doc::untag(dv) {
                        Value::Mapping(mm) => {
                            let part = |k: &str| match mm.get(k) {
                                None => doc::D::Is(None),
                                Some(x) => match doc::minutes_val(conv, x) {
                                    doc::D::Is(n) => doc::D::Is(Some(n)),
                                    doc::D::Nothing => doc::D::Nothing,
                                    doc::D::Skip => doc::D::Skip,
                                },
                            };
                            match (part("prep"), part("cook")) {
                                (doc::D::Is(p), doc::D::Is(c)) => doc::D::Is(Some(RecipeTime::Composed { prep_time: p, cook_time: c })),
                                (doc::D::Skip, _) | (_, doc::D::Skip) => doc::D::Skip,
                                _ => doc::D::Is(None),
                            }
                        }
                        _ => doc::D::Skip, // judged through `minutes`
                    };
                    if let doc::D::Is(w) = want {
                        if w != t {
                            viol.push("time");
                        }
                    }
                    if !matches!(doc::untag(dv), Value::Mapping(_)) {
                        let as_total = t.and_then(|t| match t { RecipeTime::Total(n) => Some(n), _ => None });
                        if let Some(m) = m {
                            if as_total != m || (t.is_some() && as_total.is_none()) {
                                viol.push("time");
                            }
                        }
                    }
                }
                if let Some(s) = doc::untag(dv).as_str() {
                    let (c, e) = f64_class(s);
                    fcls = c;
                    fexact = e;
                }
            } else {
                o.push(("M", skip.clone()));
                o.push(("T", skip.clone()));
                o.push(("O", skip.clone()));
            }
            let (mt, mts) = g(|| meta.time(conv), ort, &mut panicked);
            let mo = match mt {
                Some(Some(t)) => {
                    let (val, s) = g(|| t.total(), |x| x.to_string(), &mut panicked);
                    if let (Some(val), RecipeTime::Composed { prep_time, cook_time }) = (val, t) {
                        let sum = prep_time.unwrap_or(0) as u64 + cook_time.unwrap_or(0) as u64;
                        if val as u64 != sum.min(u32::MAX as u64) {
                            viol.push("total");
                        }
                    }
                    s
                }
                None => "panic".into(),
                _ => "-".into(),
            };
            o.push(("MT", mts));
            o.push(("MO", mo));
        } else {
            for k in ["M", "T", "O", "MT", "MO"] {
                o.push((k, skip.clone()));
            }
        }

        // ---- servings
        if focus.contains('s') {
            let s = first.map(|v| v.as_servings());
            o.push(("S", s.as_ref().map(olist).unwrap_or(skip.clone())));
            if let (Some(v), Some(s)) = (first, &s) {
                let dv: &Value = docv.as_ref().unwrap_or(v);
                if doc::servings(dv) != *s {
                    viol.push("servings");
                }
            }
            let ms = meta.servings();
            o.push(("MS", olist(&ms)));
            let data = serde_json::to_value(recipe).ok().map(|j| j["data"].clone());
            let stored: Option<Vec<u32>> = data.as_ref().and_then(|d| d.as_array()).map(|a| a.iter().map(|x| x.as_u64().unwrap() as u32).collect());
            o.push(("D", olist(&stored)));
            // what is stored for scaling is what the accessor of the servings entry returns
            let last_servings = entries
                .iter()
                .filter(|(k, _)| matches!(StdKey::from_str(k), Ok(StdKey::Servings)))
                .filter_map(|(k, _)| meta.map.get(k.as_str()).map(|v| v.as_servings()))
                .filter(|x| x.is_some())
                .last()
                .flatten();
            if stored != last_servings {
                viol.push("stored_servings");
            }
        } else {
            for k in ["S", "MS", "D"] {
                o.push((k, skip.clone()));
            }
        }

        // ---- tags
        if focus.contains('g') {
            let conv_tags = |v: &Value| v.as_tags().map(|l| l.into_iter().map(|c| c.into_owned()).collect::<Vec<String>>());
            let t = first.map(conv_tags);
            o.push(("G", t.as_ref().map(otags).unwrap_or(skip.clone())));
            if let (Some(v), Some(t)) = (first, &t) {
                let dv: &Value = docv.as_ref().unwrap_or(v);
                if doc::tags(dv) != *t {
                    viol.push("tags");
                }
            }
            o.push(("MG", otags(&meta.tags().map(|l| l.into_iter().map(|c| c.into_owned()).collect()))));
        } else {
            for k in ["G", "MG"] {
                o.push((k, skip.clone()));
            }
        }

        // ---- name / url
        if focus.contains('n') {
            let n = first.map(|v| v.as_name_and_url().map(nu_pair));
            o.push(("N", n.as_ref().map(onu).unwrap_or(skip.clone())));
            if let (Some(v), Some(n)) = (first, &n) {
                let dv: &Value = docv.as_ref().unwrap_or(v);
                if doc::name_url_val(dv) != *n {
                    viol.push("name_url");
                }
            }
            o.push(("MA", onu(&meta.author().map(nu_pair))));
            o.push(("MU", onu(&meta.source().map(nu_pair))));
        } else {
            for k in ["N", "MA", "MU"] {
                o.push((k, skip.clone()));
            }
        }

        // ---- locale
        if focus.contains('l') {
            let own = |x: Option<(&str, Option<&str>)>| x.map(|(a, b)| (a.to_string(), b.map(str::to_string)));
            let l = first.map(|v| own(v.as_locale()));
            o.push(("L", l.as_ref().map(oloc).unwrap_or(skip.clone())));
            if let (Some(v), Some(l)) = (first, &l) {
                let dv: &Value = docv.as_ref().unwrap_or(v);
                if doc::locale(dv) != *l {
                    viol.push("locale");
                }
            }
            o.push(("ML", oloc(&own(meta.locale()))));
        } else {
            for k in ["L", "ML"] {
                o.push((k, skip.clone()));
            }
        }
        if panicked {
            viol.push("nopanic");
        }
        viol.sort();
        viol.dedup();
        let mut line = e_out;
        for (k, v) in o {
            line.push_str(&format!(" ; {} {}", k, v));
        }
        line.push_str(&format!(" ; F {}", fcls));
        line.push_str(&format!(" ; V {} ; FV {}", if viol.is_empty() { "-".to_string() } else { viol.join(",") }, fexact));
        line
    });
}
