//! The monitor's comment scanner on its own: one flag per character (1 = inside a comment),
//! for comparison with the Coq scanner of Model/CommentMask.v.  Case: `<hex input>`.
use vh::*;

fn main() {
    drive(|f| {
        let input = unhex(f[0]);
        let m = comment_mask(&input, 0);
        let s: String = input.char_indices().map(|(i, _)| if m[i] { '1' } else { '0' }).collect();
        format!("K {}", if s.is_empty() { "-".to_string() } else { s })
    });
}
