//! L-hist (C18): one parser reused over a history of calls, fresh parsers in fresh processes, and
//! threads sharing one `Arc<CooklangParser>`.  This binary only produces canonical results; the
//! monitor (identical canonical outputs) is evaluated in checks/c18.py and, for the thread mode,
//! also here (every observation of a pool item must equal every other one).
//!
//! Case line (all modes): `<op> <hex input> <ext bits> <conv: e|b>`
//!   op p  parse                     -> recipe JSON (serde_json image), is_valid, ordered diagnostics
//!   op m  parse_metadata            -> metadata map JSON, is_valid, ordered diagnostics
//!   op s  parse, scale, convert     -> JSON of scale(2.5), of default_scale+convert(Imperial) and
//!                                      +convert(Metric), with the conversion errors (forces the
//!                                      process-wide fraction table of src/quantity.rs)
//! Output: one line per case: 32 hex digits (two FNV-1a 64 digests of the canonical text), or the text
//! itself when HIST_FULL=1.  A panic is the canonical text `panic`.
//!
//! HIST_MODE (argv[1] is the case file, `-` = stdin):
//!   hist     parsers are created once per (ext, conv) and reused for the whole file (one history)
//!   fresh    a new Converter and a new CooklangParser for every line
//!   spawn    every line is evaluated by a new process (`HIST_MODE=one`), i.e. new hash seeds and a
//!            fraction table that nobody has forced yet
//!   one      like fresh, single line given as argv[1..5]
//!   place    every line is evaluated with the text at 12 placements in memory (see `placements`)
//!   cold     cold-start thread round (see `cold_mode`)
//!   refs     prints the names of the input's recipe references (`@@name{}`), hex, comma separated
//! HIST_CWD (any mode): change to this working directory first (ambient perturbation; together with
//!   changed environment variables it must not change any result)
//!   threads  the file is a pool; HIST_THREADS threads share ONE Arc<CooklangParser>
//!            (HIST_EXT, HIST_CONV), wait on a barrier, then evaluate HIST_ITERS pool items each
//!            (seeded by HIST_SEED and the thread number; the first item of every thread is an `s`
//!            op when the pool has one, so that the first LazyLock access races).  Nothing in the
//!            process touches the parser pipeline before the barrier opens.  Afterwards the main
//!            thread evaluates every pool item once more, alone.  Output per pool item:
//!            `<digest alone> <observations> <observations that differ> <first differing digest|->`
use cooklang::convert::System;
use cooklang::error::SourceReport;
use cooklang::{Converter, CooklangParser, Extensions};
use serde_json::{json, Value};
use std::collections::HashMap;
use std::sync::{Arc, Barrier};
use vh::*;

fn diags(rep: &SourceReport) -> Value {
    Value::Array(
        rep.iter()
            .map(|d| {
                json!([
                    if d.is_error() { "e" } else { "w" },
                    format!("{:?}", d.stage),
                    d.message.to_string(),
                    d.labels
                        .iter()
                        .map(|(s, l)| json!([s.start(), s.end(), l.as_ref().map(|x| x.to_string())]))
                        .collect::<Vec<_>>(),
                    d.hints.iter().map(|h| h.to_string()).collect::<Vec<_>>(),
                ])
            })
            .collect(),
    )
}

fn ser<T: serde::Serialize>(v: &T) -> Value {
    serde_json::to_value(v).unwrap_or(json!("unserializable"))
}

fn canon(parser: &CooklangParser, op: &str, input: &str) -> String {
    let r = guarded(|| match op {
        "p" => {
            let r = parser.parse(input);
            json!({"valid": r.is_valid(), "out": r.has_output(), "diags": diags(r.report()),
                   "recipe": r.output().map(ser)})
        }
        "m" => {
            let r = parser.parse_metadata(input);
            json!({"valid": r.is_valid(), "out": r.has_output(), "diags": diags(r.report()),
                   "map": r.output().map(|m| ser(&m.map))})
        }
        "s" => {
            let conv = parser.converter();
            let get = || parser.parse(input).into_output();
            let mut o = json!({});
            if let Some(rec) = get() {
                o["scaled"] = ser(&rec.scale(2.5, conv));
            }
            for (name, sys) in [("imperial", System::Imperial), ("metric", System::Metric)] {
                if let Some(rec) = get() {
                    let mut sc = rec.default_scale();
                    let errs = sc.convert(sys, conv);
                    o[name] = json!({"recipe": ser(&sc),
                                     "errors": errs.iter().map(|e| e.to_string()).collect::<Vec<_>>()});
                }
            }
            o
        }
        _ => panic!("unknown op"),
    });
    match r {
        Ok(v) => v.to_string(),
        Err(_) => "panic".to_string(),
    }
}

fn fnv(s: &str, basis: u64) -> u64 {
    let mut h = basis;
    for b in s.as_bytes() {
        h ^= *b as u64;
        h = h.wrapping_mul(0x100000001b3);
    }
    h
}

fn digest(s: &str) -> u128 {
    ((fnv(s, 0xcbf29ce484222325) as u128) << 64) | fnv(s, 0x9ae16a3b2f90404f) as u128
}

fn show(s: &str, full: bool) -> String {
    if full {
        s.to_string()
    } else {
        format!("{:032x}", digest(s))
    }
}

fn make_parser(bits: u32, bundled: bool) -> CooklangParser {
    let conv = if bundled { Converter::bundled() } else { Converter::empty() };
    CooklangParser::new(Extensions::from_bits_truncate(bits), conv)
}

struct Rng(u64);
impl Rng {
    fn next(&mut self) -> u64 {
        // xorshift64*
        self.0 ^= self.0 >> 12;
        self.0 ^= self.0 << 25;
        self.0 ^= self.0 >> 27;
        self.0.wrapping_mul(0x2545F4914F6CDD1D)
    }
}

fn env_u64(k: &str, d: u64) -> u64 {
    std::env::var(k).ok().and_then(|v| v.parse().ok()).unwrap_or(d)
}

fn threads_mode(path: &str) {
    quiet_panics();
    let text = std::fs::read_to_string(path).expect("pool file");
    let pool: Arc<Vec<(String, String)>> = Arc::new(
        text.lines()
            .filter(|l| !l.is_empty())
            .map(|l| {
                let f: Vec<&str> = l.split(' ').collect();
                (f[0].to_string(), unhex(f[1]))
            })
            .collect(),
    );
    let nthreads = env_u64("HIST_THREADS", 16) as usize;
    let iters = env_u64("HIST_ITERS", 2000) as usize;
    let seed = env_u64("HIST_SEED", 1);
    let bits = env_u64("HIST_EXT", 0) as u32;
    let bundled = std::env::var("HIST_CONV").map(|v| v == "b").unwrap_or(false);
    let parser = Arc::new(make_parser(bits, bundled));
    let s_items: Arc<Vec<usize>> = Arc::new((0..pool.len()).filter(|i| pool[*i].0 == "s").collect());
    let barrier = Arc::new(Barrier::new(nthreads));
    let mut handles = Vec::new();
    for t in 0..nthreads {
        let (pool, parser, barrier, s_items) = (pool.clone(), parser.clone(), barrier.clone(), s_items.clone());
        handles.push(std::thread::spawn(move || {
            let mut rng = Rng(seed.wrapping_mul(0x9E3779B97F4A7C15) ^ ((t as u64 + 1) << 32) | 1);
            let mut seen: Vec<(u32, u128)> = Vec::with_capacity(iters);
            // choose the first item before the barrier so that the first thing done after it is the call
            let first = if s_items.is_empty() { rng.next() as usize % pool.len() } else { s_items[rng.next() as usize % s_items.len()] };
            barrier.wait();
            for k in 0..iters {
                let i = if k == 0 { first } else { rng.next() as usize % pool.len() };
                let (op, input) = &pool[i];
                seen.push((i as u32, digest(&canon(&parser, op, input))));
            }
            seen
        }));
    }
    let mut obs: Vec<Vec<u128>> = vec![Vec::new(); pool.len()];
    for h in handles {
        for (i, d) in h.join().expect("worker thread died") {
            obs[i as usize].push(d);
        }
    }
    let out = std::io::stdout();
    let mut out = std::io::BufWriter::new(out.lock());
    use std::io::Write;
    for (i, (op, input)) in pool.iter().enumerate() {
        let alone = digest(&canon(&parser, op, input));
        let bad: Vec<&u128> = obs[i].iter().filter(|d| **d != alone).collect();
        writeln!(
            out,
            "{:032x} {} {} {}",
            alone,
            obs[i].len(),
            bad.len(),
            bad.first().map(|d| format!("{:032x}", d)).unwrap_or_else(|| "-".into())
        )
        .unwrap();
    }
    out.flush().unwrap();
}

/// "cold start": HIST_THREADS threads share one parser in a process that has not lexed anything
/// yet; every thread evaluates EVERY pool item, in file order, and all threads are lined up again
/// before each item by a spinning barrier (tens of nanoseconds apart instead of the microseconds
/// of a futex wake-up), so that the first time the process meets a character, several threads
/// meet it together.  Output as in `threads`.
fn cold_mode(path: &str) {
    use std::sync::atomic::{AtomicUsize, Ordering};
    quiet_panics();
    let text = std::fs::read_to_string(path).expect("pool file");
    let pool: Arc<Vec<(String, String)>> = Arc::new(
        text.lines()
            .filter(|l| !l.is_empty())
            .map(|l| {
                let f: Vec<&str> = l.split(' ').collect();
                (f[0].to_string(), unhex(f[1]))
            })
            .collect(),
    );
    let nthreads = env_u64("HIST_THREADS", 16) as usize;
    let bits = env_u64("HIST_EXT", 0) as u32;
    let bundled = std::env::var("HIST_CONV").map(|v| v == "b").unwrap_or(false);
    let parser = Arc::new(make_parser(bits, bundled));
    let arrived = Arc::new(AtomicUsize::new(0));
    let mut handles = Vec::new();
    for _ in 0..nthreads {
        let (pool, parser, arrived) = (pool.clone(), parser.clone(), arrived.clone());
        handles.push(std::thread::spawn(move || {
            let mut seen: Vec<u128> = Vec::with_capacity(pool.len());
            for (i, (op, input)) in pool.iter().enumerate() {
                arrived.fetch_add(1, Ordering::AcqRel);
                let target = (i + 1) * nthreads;
                let mut spins = 0u32;
                while arrived.load(Ordering::Acquire) < target {
                    spins += 1;
                    if spins > 20_000 {
                        std::thread::yield_now();
                    } else {
                        std::hint::spin_loop();
                    }
                }
                seen.push(digest(&canon(&parser, op, input)));
            }
            seen
        }));
    }
    let all: Vec<Vec<u128>> = handles.into_iter().map(|h| h.join().expect("worker thread died")).collect();
    let out = std::io::stdout();
    let mut out = std::io::BufWriter::new(out.lock());
    use std::io::Write;
    for (i, (op, input)) in pool.iter().enumerate() {
        let alone = digest(&canon(&parser, op, input));
        let bad: Vec<u128> = all.iter().map(|v| v[i]).filter(|d| *d != alone).collect();
        writeln!(
            out,
            "{:032x} {} {} {}",
            alone,
            all.len(),
            bad.len(),
            bad.first().map(|d| format!("{:032x}", d)).unwrap_or_else(|| "-".into())
        )
        .unwrap();
    }
    out.flush().unwrap();
}

/// "buffer placement": the same text at 9 consecutive offsets of a larger buffer (all 8 residues of
/// the start address modulo 8), in the middle of a longer String, and behind a byte order mark that
/// the caller stripped.  -> (label, start address mod 8, canonical text) per variant
fn placements(parser: &CooklangParser, op: &str, text: &str) -> Vec<(String, usize, String)> {
    let mut v = Vec::new();
    for k in 0..=8usize {
        let mut s = String::with_capacity(k + text.len() + 16);
        for _ in 0..k {
            s.push('#');
        }
        s.push_str(text);
        let t = &s[k..];
        v.push((format!("offset{}", k), t.as_ptr() as usize % 8, canon(parser, op, t)));
    }
    for (label, pre, post) in [("middle13", "Filler text.\n", "\n\nTail @step{1}.\n"), ("middle5", "abc\n\n", " [- x -] @z")] {
        let s = format!("{}{}{}", pre, text, post);
        let t = &s[pre.len()..pre.len() + text.len()];
        v.push((label.to_string(), t.as_ptr() as usize % 8, canon(parser, op, t)));
    }
    let s = format!("\u{FEFF}{}", text);
    let t = &s[3..];
    v.push(("after_bom".to_string(), t.as_ptr() as usize % 8, canon(parser, op, t)));
    v
}

fn main() {
    // ambient perturbation: run everything below from another working directory (case files are
    // given by absolute path); children of `spawn` inherit it together with the environment
    if let Ok(d) = std::env::var("HIST_CWD") {
        if !d.is_empty() {
            std::env::set_current_dir(&d).expect("HIST_CWD");
        }
    }
    let mode = std::env::var("HIST_MODE").unwrap_or_else(|_| "hist".into());
    let full = std::env::var("HIST_FULL").map(|v| v == "1").unwrap_or(false);
    let args: Vec<String> = std::env::args().collect();
    match mode.as_str() {
        "threads" => threads_mode(&args[1]),
        "cold" => cold_mode(&args[1]),
        // `<digest at offset 0> <variants> <variants that differ> <label:digest of the first|-> <residues mod 8 seen>`
        // with HIST_FULL=1: `<label> <canonical text>` of offset0 and of the first differing variant, tab separated
        "place" => {
            let mut parsers: HashMap<(u32, bool), CooklangParser> = HashMap::new();
            drive(|f| {
                let key = (f[2].parse::<u32>().unwrap(), f[3] == "b");
                let p = parsers.entry(key).or_insert_with(|| make_parser(key.0, key.1));
                let v = placements(p, f[0], &unhex(f[1]));
                let base = &v[0].2;
                let bad: Vec<&(String, usize, String)> = v.iter().filter(|x| &x.2 != base).collect();
                let mut res: Vec<usize> = v.iter().map(|x| x.1).collect();
                res.sort();
                res.dedup();
                if full {
                    match bad.first() {
                        Some(b) => format!("offset0 {}\t{} {}", base, b.0, b.2),
                        None => format!("offset0 {}", base),
                    }
                } else {
                    format!(
                        "{:032x} {} {} {} {}",
                        digest(base),
                        v.len(),
                        bad.len(),
                        bad.first().map(|b| format!("{}@{}:{:032x}", b.0, b.1, digest(&b.2))).unwrap_or_else(|| "-".into()),
                        res.len()
                    )
                }
            });
        }
        "one" => {
            quiet_panics();
            let p = make_parser(args[3].parse().unwrap(), args[4] == "b");
            println!("{}", show(&canon(&p, &args[1], &unhex(&args[2])), full));
        }
        "spawn" => {
            let exe = std::env::current_exe().expect("current_exe");
            drive(|f| {
                let o = std::process::Command::new(&exe)
                    .args(f)
                    .env("HIST_MODE", "one")
                    .output()
                    .expect("spawn");
                assert!(o.status.success(), "child failed");
                String::from_utf8(o.stdout).expect("utf8").trim_end().to_string()
            });
        }
        // names of the recipe references (`@@name{}`) of the input, as the analysis hands them to
        // ParseOptions::recipe_ref_check: hex names separated by commas, or `-`
        "refs" => drive(|f| {
            let p = make_parser(f[2].parse().unwrap(), f[3] == "b");
            let input = unhex(f[1]);
            match guarded(|| {
                p.parse(&input).output().map(|r| {
                    r.ingredients
                        .iter()
                        .filter(|i| i.modifiers().contains(cooklang::Modifiers::RECIPE))
                        .map(|i| hex(&i.name))
                        .collect::<Vec<_>>()
                })
            }) {
                Ok(Some(v)) if !v.is_empty() => v.join(","),
                _ => "-".to_string(),
            }
        }),
        "fresh" => drive(|f| {
            let p = make_parser(f[2].parse().unwrap(), f[3] == "b");
            show(&canon(&p, f[0], &unhex(f[1])), full)
        }),
        "hist" => {
            let mut parsers: HashMap<(u32, bool), CooklangParser> = HashMap::new();
            drive(|f| {
                let key = (f[2].parse::<u32>().unwrap(), f[3] == "b");
                let p = parsers.entry(key).or_insert_with(|| make_parser(key.0, key.1));
                show(&canon(p, f[0], &unhex(f[1])), full)
            });
        }
        m => panic!("unknown HIST_MODE {}", m),
    }
}
