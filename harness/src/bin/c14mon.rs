//! C14 monitor: the metadata map of `parse_metadata` equals the map of `parse`, whenever both
//! have output.  Independent of the model: only the two public results are compared.
//!
//! Case mode:   `<hex input> <ext bits> <conv: e|b>`
//!   output     `P:<stage>`                              a panic (reported, C03's business)
//!              `R f<0|1> m<0|1> <=|!|-> fm<0|1> k<n>`   f/m: full/meta-only have output; `=`/`!`: maps
//!                                                      equal / differ (only when both have output);
//!                                                      fm: input has a front matter event; k: number of
//!                                                      keys of the metadata-only map
//!              on `!` followed by ` <hex json full map> <hex json meta map>`
//! Enumeration: `E <hex alphabet> <len> <hex prefix> <ext bits, comma separated>`
//!   every string prefix ++ w, w over the alphabet with |prefix ++ w| = len (in chars), under every
//!   listed extension set, empty converter.  Output
//!              `S n=<cases> both=<n> nonempty=<n> fm=<n> panics=<n> bad=<n> first=<hex input>:<ext>,...`
//! L-meta:      `L <hex input> <ext bits>`
//!   output     `F <map> ;; M <map>`, <map> = `fm` (the input has a front matter: not compared),
//!              `panic`, `none` (no output), `-` (empty), `hexkey=hexvalue,...` in insertion order
//!              (`nonstr` if a key or value is not a YAML string: cannot happen without front matter)
use cooklang::{Converter, CooklangParser, Extensions};
use serde_json::Value;
use vh::*;

struct Obs {
    full_out: bool,
    meta_out: bool,
    equal: Option<bool>,
    keys: usize,
    full_json: String,
    meta_json: String,
}

fn observe(parser: &CooklangParser, input: &str) -> Result<Obs, &'static str> {
    let r = guarded(|| parser.parse(input)).map_err(|_| "parse")?;
    let m = guarded(|| parser.parse_metadata(input)).map_err(|_| "parse_metadata")?;
    let mut o = Obs { full_out: r.has_output(), meta_out: m.has_output(), equal: None, keys: 0,
                      full_json: String::new(), meta_json: String::new() };
    if let (Some(rec), Some(md)) = (r.output(), m.output()) {
        o.keys = md.map.len();
        let a: Result<Value, _> = serde_json::to_value(&rec.metadata.map);
        let b: Result<Value, _> = serde_json::to_value(&md.map);
        let eq = match (&a, &b) {
            (Ok(x), Ok(y)) => x == y && rec.metadata.map.len() == md.map.len(),
            // keys serde_json cannot render (sequences, mappings): fall back to the YAML values
            (Err(_), Err(_)) => rec.metadata.map == md.map,
            _ => false,
        };
        o.equal = Some(eq);
        if !eq {
            o.full_json = a.map(|v| v.to_string()).unwrap_or_else(|_| format!("{:?}", rec.metadata.map));
            o.meta_json = b.map(|v| v.to_string()).unwrap_or_else(|_| format!("{:?}", md.map));
        }
    }
    Ok(o)
}

fn map_line(m: &serde_yaml::Mapping) -> String {
    if m.is_empty() {
        return "-".into();
    }
    let mut parts = Vec::new();
    for (k, v) in m.iter() {
        match (k.as_str(), v.as_str()) {
            (Some(k), Some(v)) => parts.push(format!("{}={}", hex(k), hex(v))),
            _ => return "nonstr".into(),
        }
    }
    parts.join(",")
}

fn has_fm(input: &str, ext: Extensions) -> bool {
    matches!(
        guarded(|| cooklang::parser::PullParser::new(input, ext).into_meta_iter().next()),
        Ok(Some(cooklang::parser::Event::YAMLFrontMatter(_)))
    )
}

fn main() {
    let bundled = Converter::bundled();
    let empty = Converter::empty();
    let mut cache: Option<(u32, bool, CooklangParser)> = None;
    drive(|f| {
        if f[0] == "E" {
            let alpha: Vec<char> = unhex(f[1]).chars().collect();
            let len: usize = f[2].parse().unwrap();
            let prefix = unhex(f[3]);
            let exts: Vec<u32> = f[4].split(',').map(|x| x.parse().unwrap()).collect();
            let parsers: Vec<(u32, CooklangParser)> = exts
                .iter()
                .map(|b| (*b, CooklangParser::new(Extensions::from_bits_truncate(*b), empty.clone())))
                .collect();
            let free = len.saturating_sub(prefix.chars().count());
            let (mut n, mut both, mut nonempty, mut fm, mut panics, mut bad) = (0u64, 0u64, 0u64, 0u64, 0u64, 0u64);
            let mut first: Vec<String> = Vec::new();
            let mut idx = vec![0usize; free];
            let k = alpha.len();
            let mut done = false;
            while !done {
                let mut s = prefix.clone();
                for i in &idx {
                    s.push(alpha[*i]);
                }
                for (bits, p) in &parsers {
                    n += 1;
                    match observe(p, &s) {
                        Err(_) => panics += 1,
                        Ok(o) => {
                            if let Some(eq) = o.equal {
                                both += 1;
                                if o.keys > 0 {
                                    nonempty += 1;
                                }
                                if !eq {
                                    bad += 1;
                                    if first.len() < 5 {
                                        first.push(format!("{}:{}", hex(&s), bits));
                                    }
                                }
                            }
                        }
                    }
                }
                if has_fm(&s, Extensions::empty()) {
                    fm += 1;
                }
                // next word
                let mut j = free;
                loop {
                    if j == 0 {
                        done = true;
                        break;
                    }
                    j -= 1;
                    idx[j] += 1;
                    if idx[j] < k {
                        break;
                    }
                    idx[j] = 0;
                }
            }
            return format!(
                "S n={} both={} nonempty={} fm={} panics={} bad={} first={}",
                n, both, nonempty, fm, panics, bad,
                if first.is_empty() { "-".to_string() } else { first.join(",") }
            );
        }
        if f[0] == "L" {
            let input = unhex(f[1]);
            let ext = Extensions::from_bits_truncate(f[2].parse::<u32>().unwrap());
            if has_fm(&input, ext) {
                return "F fm ;; M fm".to_string();
            }
            let p = CooklangParser::new(ext, empty.clone());
            let full = match guarded(|| p.parse(&input)) {
                Err(_) => "panic".to_string(),
                Ok(r) => r.output().map(|x| map_line(&x.metadata.map)).unwrap_or_else(|| "none".into()),
            };
            let meta = match guarded(|| p.parse_metadata(&input)) {
                Err(_) => "panic".to_string(),
                Ok(r) => r.output().map(|x| map_line(&x.map)).unwrap_or_else(|| "none".into()),
            };
            return format!("F {} ;; M {}", full, meta);
        }
        let input = unhex(f[0]);
        let bits = f[1].parse::<u32>().unwrap();
        let b = f.len() > 2 && f[2] == "b";
        let fresh = match &cache {
            Some((cb, cv, _)) => *cb != bits || *cv != b,
            None => true,
        };
        if fresh {
            let conv = if b { bundled.clone() } else { empty.clone() };
            cache = Some((bits, b, CooklangParser::new(Extensions::from_bits_truncate(bits), conv)));
        }
        let parser = &cache.as_ref().unwrap().2;
        match observe(parser, &input) {
            Err(stage) => format!("P:{}", stage),
            Ok(o) => {
                let fm = has_fm(&input, Extensions::from_bits_truncate(bits));
                let mut line = format!(
                    "R f{} m{} {} fm{} k{}",
                    o.full_out as u8, o.meta_out as u8,
                    match o.equal { Some(true) => "=", Some(false) => "!", None => "-" },
                    fm as u8, o.keys
                );
                if o.equal == Some(false) {
                    line.push(' ');
                    line.push_str(&hex(&o.full_json));
                    line.push(' ');
                    line.push_str(&hex(&o.meta_json));
                }
                line
            }
        }
    });
}
