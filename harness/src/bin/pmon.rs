//! Property monitors on the implementation for C03 (no panic), C04 (spans), C05 (nothing dropped).
//! Case: `<hex input> <ext bits> <conv: e|b>`.  Output: `V <violations, comma separated | ->`
//! violation names: `c03:<stage>`, `c04:span`, `c04:frag`, `c04:order`, `c04:label`, `c04:render`,
//! `c05:<byte offset of the dropped character>`.
use cooklang::convert::System;
use cooklang::ingredient_list::IngredientList;
use cooklang::parser::{Event, PullParser};
use cooklang::{Converter, CooklangParser, Extensions, Span, Text};
use vh::*;

fn span_ok(input: &str, s: Span) -> bool {
    s.start() <= s.end() && s.end() <= input.len() && input.is_char_boundary(s.start()) && input.is_char_boundary(s.end())
}

struct Chk<'a> {
    input: &'a str,
    bad_span: bool,
    bad_frag: bool,
}

impl Chk<'_> {
    fn sp(&mut self, s: Span) {
        if !span_ok(self.input, s) {
            self.bad_span = true;
        }
    }
    fn text(&mut self, t: &Text) {
        self.sp(t.span());
        for f in t.fragments() {
            let s = f.span();
            self.sp(s);
            if span_ok(self.input, s) && &self.input[s.range()] != f.text() {
                self.bad_frag = true;
            }
        }
    }
    fn otext(&mut self, t: &Option<Text>) {
        if let Some(t) = t {
            self.text(t)
        }
    }
    fn quantity(&mut self, q: &cooklang::Located<cooklang::parser::Quantity>) {
        // a recovered quantity carries the default span 0..0, which is in bounds
        self.sp(q.span());
        self.sp(q.value().value.value.span());
        if let Some(l) = q.value().value.scaling_lock {
            self.sp(l)
        }
        self.otext(&q.value().unit);
    }
}

/// span of an event for coverage / ordering (None for diagnostics and Start/End)
fn ev_span(ev: &Event) -> Option<Span> {
    match ev {
        Event::YAMLFrontMatter(t) | Event::Text(t) => Some(t.span()),
        Event::Metadata { key, value } => Some(Span::from(key.span().start()..value.span().end().max(key.span().end()))),
        Event::Section { name } => name.as_ref().map(|t| t.span()),
        Event::Ingredient(i) => Some(i.span()),
        Event::Cookware(c) => Some(c.span()),
        Event::Timer(t) => Some(t.span()),
        _ => None,
    }
}

fn main() {
    let bundled = Converter::bundled();
    let empty = Converter::empty();
    let light = std::env::var("PMON_LIGHT").is_ok();
    let run = |f: &[&str]| -> String {
        let input = unhex(f[0]);
        let bits = f[1].parse::<u32>().unwrap();
        let ext = Extensions::from_bits_truncate(bits);
        let conv = if f[2] == "b" { &bundled } else { &empty };
        let mut v: Vec<String> = Vec::new();

        // ---- C03 / C04 / C05 on the event stream
        if guarded(|| cooklang::verif_hooks::tokens(&input)).is_err() {
            v.push("c03:tokens".into());
        }
        match guarded(|| PullParser::new(&input, ext).collect::<Vec<_>>()) {
            Err(_) => v.push("c03:events".into()),
            Ok(evs) => {
                let mut c = Chk { input: &input, bad_span: false, bad_frag: false };
                let mut bad_label = false;
                let mut has_error = false;
                let mut spans: Vec<Span> = Vec::new();
                for ev in &evs {
                    match ev {
                        Event::YAMLFrontMatter(t) | Event::Text(t) => c.text(t),
                        Event::Metadata { key, value } => {
                            c.text(key);
                            c.text(value)
                        }
                        Event::Section { name } => c.otext(name),
                        Event::Ingredient(i) => {
                            c.sp(i.span());
                            let i = i.value();
                            c.sp(i.modifiers.span());
                            if let Some(d) = &i.intermediate_data {
                                c.sp(d.span())
                            }
                            c.text(&i.name);
                            c.otext(&i.alias);
                            c.otext(&i.note);
                            if let Some(q) = &i.quantity {
                                c.quantity(q)
                            }
                        }
                        Event::Cookware(cw) => {
                            c.sp(cw.span());
                            let cw = cw.value();
                            c.sp(cw.modifiers.span());
                            c.text(&cw.name);
                            c.otext(&cw.alias);
                            c.otext(&cw.note);
                            if let Some(q) = &cw.quantity {
                                c.sp(q.span());
                                c.sp(q.value().value.span());
                                if let Some(l) = q.value().scaling_lock {
                                    c.sp(l)
                                }
                            }
                        }
                        Event::Timer(t) => {
                            c.sp(t.span());
                            let t = t.value();
                            c.otext(&t.name);
                            if let Some(q) = &t.quantity {
                                c.quantity(q)
                            }
                        }
                        Event::Error(d) | Event::Warning(d) => {
                            if matches!(ev, Event::Error(_)) {
                                has_error = true;
                            }
                            for (s, _) in &d.labels {
                                if !span_ok(&input, *s) {
                                    bad_label = true;
                                }
                            }
                        }
                        _ => {}
                    }
                    if let Some(s) = ev_span(ev) {
                        spans.push(s);
                    }
                }
                if c.bad_span {
                    v.push("c04:span".into());
                }
                if c.bad_frag {
                    v.push("c04:frag".into());
                }
                if bad_label {
                    v.push("c04:label".into());
                }
                // source order, no overlap
                if spans.windows(2).any(|w| w[0].end() > w[1].start() || w[0].start() > w[1].start()) {
                    v.push("c04:order".into());
                }
                // C05: nothing dropped when there is no error event
                if !has_error {
                    let from = match evs.first() {
                        Some(Event::YAMLFrontMatter(t)) => {
                            // the cooklang part starts after the closing fence line
                            let ye = t.span().end();
                            match input.get(ye..).and_then(|r| r.find('\n')) {
                                Some(p) => ye + p + 1,
                                None => input.len(),
                            }
                        }
                        _ => 0,
                    };
                    let mask = comment_mask(&input, from);
                    let mut covered = vec![false; input.len()];
                    for s in &spans {
                        if span_ok(&input, *s) {
                            for x in s.range() {
                                covered[x] = true;
                            }
                        }
                    }
                    for (i, ch) in input.char_indices() {
                        if ch.is_alphanumeric() && !mask[i] && !covered[i] {
                            // inside the YAML region everything is covered by the front matter event;
                            // the fence lines hold no letters or digits
                            v.push(format!("c05:{}", i));
                            break;
                        }
                    }
                }
                if guarded(|| cooklang::ast::build_ast(evs.into_iter())).is_err() {
                    v.push("c03:build_ast".into());
                }
            }
        }
        if guarded(|| PullParser::new(&input, ext).into_meta_iter().count()).is_err() {
            v.push("c03:meta_events".into());
        }

        // ---- full pipeline consumers
        let parser = CooklangParser::new(ext, conv.clone());
        match guarded(|| parser.parse_metadata(&input)) {
            Err(_) => v.push("c03:parse_metadata".into()),
            Ok(m) => {
                for d in m.report().iter() {
                    if d.labels.iter().any(|(s, _)| !span_ok(&input, *s)) {
                        v.push("c04:label".into());
                        break;
                    }
                }
                if guarded(|| {
                    let mut buf = Vec::new();
                    let _ = m.report().write("f", &input, false, &mut buf);
                }).is_err() {
                    v.push("c04:render".into());
                }
            }
        }
        match guarded(|| parser.parse(&input)) {
            Err(_) => v.push("c03:parse".into()),
            Ok(r) => {
                for d in r.report().iter() {
                    if d.labels.iter().any(|(s, _)| !span_ok(&input, *s)) {
                        v.push("c04:label".into());
                        break;
                    }
                }
                for color in [false, true] {
                    if guarded(|| {
                        let mut buf = Vec::new();
                        let _ = r.report().write("file.cook", &input, color, &mut buf);
                    }).is_err() {
                        v.push("c04:render".into());
                        break;
                    }
                }
                if light {
                    // C04/C05 runs: the consumers below belong to C03
                } else if let Some(rec) = r.output() {
                    let fresh = || parser.parse(&input).into_output().expect("output vanished");
                    let stages: Vec<(&str, Box<dyn Fn() + '_>)> = vec![
                        ("accessors", Box::new(|| {
                            let m = &rec.metadata;
                            let _ = m.title();
                            let _ = m.description();
                            let _ = m.tags();
                            let _ = m.author();
                            let _ = m.source();
                            let _ = m.servings();
                            let _ = m.locale();
                            if let Some(t) = m.time(conv) {
                                let _ = t.total();
                            }
                        })),
                        ("scale", Box::new(|| {
                            let _ = fresh().scale(2.5, conv);
                        })),
                        ("scale_to_servings", Box::new(|| {
                            let _ = fresh().scale_to_servings(3, conv);
                        })),
                        ("default_scale+convert+group", Box::new(|| {
                            let scaled = fresh().default_scale();
                            let _ = scaled.group_ingredients(conv);
                            let _ = scaled.group_cookware();
                            let mut l = IngredientList::new();
                            l.add_recipe(&scaled, conv);
                            for sys in [System::Metric, System::Imperial] {
                                let mut s2 = fresh().default_scale();
                                let _ = s2.convert(sys, conv);
                                let _ = s2.group_ingredients(conv);
                            }
                        })),
                        ("serde", Box::new(|| {
                            // an Err from the serializer (e.g. a YAML key that is not a string) is a
                            // returned value, not a panic: whether recipes survive JSON is C15's subject
                            if let Ok(j) = serde_json::to_string(rec) {
                                let _: Result<cooklang::ScalableRecipe, _> = serde_json::from_str(&j);
                            }
                            let scaled = fresh().scale(3.0, conv);
                            if let Ok(j) = serde_json::to_string(&scaled) {
                                let _: Result<cooklang::ScaledRecipe, _> = serde_json::from_str(&j);
                            }
                        })),
                    ];
                    for (name, st) in stages {
                        if guarded(|| st()).is_err() {
                            v.push(format!("c03:{}", name));
                        }
                    }
                }
            }
        }
        v.sort();
        v.dedup();
        format!("V {}", if v.is_empty() { "-".to_string() } else { v.join(",") })
    };
    // spans so wrong that the monitor's own bookkeeping fails must not kill the run: they are reported
    drive(|f| guarded(|| run(f)).unwrap_or_else(|_| "V mon:panic".to_string()));
}
