//! L-build: `ConverterBuilder::{add_units_file, finish}` on sequences of units files.
//!
//! Case line: `<hex TOML text of file 1> [<hex TOML 2> [<hex TOML 3>]]`.
//! Output   : `F <files as parsed, hash maps in their iteration order> ; R <outcome> ; D <dump|-> ; A <api flags|->`
//!   outcome: `ok` | `err <Variant> <payload>` | `panic` | `tomlerr`
//! `builder --default <units.toml>`: dump of the live default converter (same `D` format) and whether the
//! text of units.toml deserialises to `UnitsFile::bundled()`.
//!
//! Units, quantities, systems, lookups and best unit lists are read through the public API
//! (`all_units`, `find_unit`, `best_units`, `default_system`); the complete key set of the index,
//! the thresholds of the best lists and the fractions table have no public getter and are read from
//! the derived `Debug` output of `Converter`, parsed by a small generic reader below (no hook in /repo).
use cooklang::convert::units_file::*;
use cooklang::convert::{Converter, ConverterBuilder, ConverterBuilderError, PhysicalQuantity, System, Unit, UnitsFile};
use vh::*;

// ---------------------------------------------------------------- encoding of parsed files

fn fq(v: f64) -> String {
    assert!(v.is_finite(), "non finite number in a case");
    f64_exact(v)
}

fn pq(q: PhysicalQuantity) -> &'static str {
    match q {
        PhysicalQuantity::Volume => "V",
        PhysicalQuantity::Mass => "M",
        PhysicalQuantity::Length => "L",
        PhysicalQuantity::Temperature => "T",
        PhysicalQuantity::Time => "H",
    }
}

fn strs<'a, S: AsRef<str> + 'a>(v: impl IntoIterator<Item = &'a S>, o: &mut Vec<String>) {
    let l: Vec<String> = v.into_iter().map(|s| hex(s.as_ref())).collect();
    o.push(l.len().to_string());
    o.extend(l);
}

fn prec(p: Precedence) -> &'static str {
    match p {
        Precedence::Before => "b",
        Precedence::After => "a",
        Precedence::Override => "o",
    }
}

const PREFIXES: [SIPrefix; 6] = [
    SIPrefix::Kilo,
    SIPrefix::Hecto,
    SIPrefix::Deca,
    SIPrefix::Deci,
    SIPrefix::Centi,
    SIPrefix::Milli,
];

fn fw(w: &FractionsConfigWrapper, o: &mut Vec<String>) {
    match w {
        FractionsConfigWrapper::Toggle(b) => {
            o.push("t".into());
            o.push((*b as u8).to_string());
        }
        FractionsConfigWrapper::Custom(h) => {
            o.push("c".into());
            match h.enabled {
                None => o.push("-".into()),
                Some(b) => o.push((b as u8).to_string()),
            }
            match h.accuracy {
                None => o.push("-".into()),
                Some(a) => {
                    o.push("q".into());
                    o.push(fq(a as f64))
                }
            }
            match h.max_denominator {
                None => o.push("-".into()),
                Some(a) => o.push(a.to_string()),
            }
            match h.max_whole {
                None => o.push("-".into()),
                Some(a) => o.push(a.to_string()),
            }
        }
    }
}

fn ofw(w: &Option<FractionsConfigWrapper>, o: &mut Vec<String>) {
    match w {
        None => o.push("-".into()),
        Some(w) => fw(w, o),
    }
}

fn uelist(v: &[UnitEntry], o: &mut Vec<String>) {
    o.push(v.len().to_string());
    for e in v {
        strs(&e.names, o);
        strs(&e.symbols, o);
        strs(&e.aliases, o);
        o.push(fq(e.ratio));
        o.push(fq(e.difference));
        o.push((e.expand_si as u8).to_string());
    }
}

fn ostrs(v: &Option<Vec<std::sync::Arc<str>>>, o: &mut Vec<String>) {
    match v {
        None => o.push("-".into()),
        Some(l) => {
            o.push("L".into());
            strs(l, o)
        }
    }
}

fn enc_file(f: &UnitsFile) -> String {
    let mut o: Vec<String> = vec!["F".into()];
    o.push(
        match f.default_system {
            None => "-",
            Some(System::Metric) => "m",
            Some(System::Imperial) => "i",
        }
        .into(),
    );
    match &f.si {
        None => o.push("-".into()),
        Some(si) => {
            o.push("S".into());
            for t in [&si.prefixes, &si.symbol_prefixes] {
                match t {
                    None => o.push("-".into()),
                    Some(m) => {
                        o.push("T".into());
                        for p in PREFIXES {
                            strs(&m[p], &mut o);
                        }
                    }
                }
            }
            o.push(prec(si.precedence).into());
        }
    }
    match &f.fractions {
        None => o.push("-".into()),
        Some(fr) => {
            o.push("R".into());
            ofw(&fr.all, &mut o);
            ofw(&fr.metric, &mut o);
            ofw(&fr.imperial, &mut o);
            o.push(fr.quantity.len().to_string());
            for (q, w) in &fr.quantity {
                o.push(pq(*q).into());
                fw(w, &mut o);
            }
            o.push(fr.unit.len().to_string());
            for (k, w) in &fr.unit {
                o.push(hex(k));
                fw(w, &mut o);
            }
        }
    }
    match &f.extend {
        None => o.push("-".into()),
        Some(ex) => {
            o.push("X".into());
            o.push(prec(ex.precedence).into());
            o.push(ex.units.len().to_string());
            for (k, e) in &ex.units {
                o.push(hex(k));
                match e.ratio {
                    None => o.push("-".into()),
                    Some(r) => {
                        o.push("q".into());
                        o.push(fq(r))
                    }
                }
                match e.difference {
                    None => o.push("-".into()),
                    Some(r) => {
                        o.push("q".into());
                        o.push(fq(r))
                    }
                }
                ostrs(&e.names, &mut o);
                ostrs(&e.symbols, &mut o);
                ostrs(&e.aliases, &mut o);
            }
        }
    }
    o.push(f.quantity.len().to_string());
    for g in &f.quantity {
        o.push(pq(g.quantity).into());
        match &g.best {
            None => o.push("-".into()),
            Some(BestUnits::Unified(l)) => {
                o.push("u".into());
                strs(l, &mut o)
            }
            Some(BestUnits::BySystem { metric, imperial }) => {
                o.push("s".into());
                strs(metric, &mut o);
                strs(imperial, &mut o)
            }
        }
        match &g.units {
            None => o.push("-".into()),
            Some(Units::Unified(l)) => {
                o.push("u".into());
                uelist(l, &mut o)
            }
            Some(Units::BySystem {
                metric,
                imperial,
                unspecified,
            }) => {
                o.push("s".into());
                uelist(metric, &mut o);
                uelist(imperial, &mut o);
                uelist(unspecified, &mut o)
            }
        }
    }
    o.join(" ")
}

// ---------------------------------------------------------------- reader of `{:?}` output

#[derive(Debug, Clone)]
enum Dv {
    Str(String),
    Atom(String),
    Seq(Vec<Dv>),
    Map(Vec<(Dv, Dv)>),
    Struct(String, Vec<(String, Dv)>),
    Tuple(String, Vec<Dv>),
}

struct Rd<'a> {
    s: &'a [u8],
    p: usize,
}

impl<'a> Rd<'a> {
    fn peek(&self) -> u8 {
        if self.p < self.s.len() {
            self.s[self.p]
        } else {
            0
        }
    }
    fn eat(&mut self, t: &str) -> bool {
        if self.s[self.p..].starts_with(t.as_bytes()) {
            self.p += t.len();
            true
        } else {
            false
        }
    }
    fn expect(&mut self, t: &str) -> Result<(), String> {
        if self.eat(t) {
            Ok(())
        } else {
            Err(format!("expected {:?} at {}", t, self.p))
        }
    }
    fn string(&mut self) -> Result<String, String> {
        // after the opening quote; Rust's escape_debug
        let mut out: Vec<u8> = Vec::new();
        loop {
            let c = self.peek();
            self.p += 1;
            match c {
                0 => return Err("unterminated string".into()),
                b'"' => break,
                b'\\' => {
                    let e = self.peek();
                    self.p += 1;
                    match e {
                        b'n' => out.push(b'\n'),
                        b'r' => out.push(b'\r'),
                        b't' => out.push(b'\t'),
                        b'0' => out.push(0),
                        b'\\' => out.push(b'\\'),
                        b'"' => out.push(b'"'),
                        b'\'' => out.push(b'\''),
                        b'u' => {
                            self.expect("{")?;
                            let st = self.p;
                            while self.peek() != b'}' && self.peek() != 0 {
                                self.p += 1;
                            }
                            let h = std::str::from_utf8(&self.s[st..self.p]).map_err(|e| e.to_string())?;
                            let cp = u32::from_str_radix(h, 16).map_err(|e| e.to_string())?;
                            self.expect("}")?;
                            let ch = char::from_u32(cp).ok_or("bad scalar")?;
                            let mut b = [0u8; 4];
                            out.extend_from_slice(ch.encode_utf8(&mut b).as_bytes());
                        }
                        _ => return Err("unknown escape".into()),
                    }
                }
                c => out.push(c),
            }
        }
        String::from_utf8(out).map_err(|e| e.to_string())
    }
    fn list(&mut self, close: &str) -> Result<Vec<Dv>, String> {
        let mut v = Vec::new();
        if self.eat(close) {
            return Ok(v);
        }
        loop {
            v.push(self.value()?);
            if self.eat(", ") {
                continue;
            }
            self.expect(close)?;
            return Ok(v);
        }
    }
    fn value(&mut self) -> Result<Dv, String> {
        if self.eat("\"") {
            return Ok(Dv::Str(self.string()?));
        }
        if self.eat("[") {
            return Ok(Dv::Seq(self.list("]")?));
        }
        if self.eat("(") {
            return Ok(Dv::Seq(self.list(")")?));
        }
        if self.eat("{") {
            let mut v = Vec::new();
            if self.eat("}") {
                return Ok(Dv::Map(v));
            }
            loop {
                let k = self.value()?;
                self.expect(": ")?;
                let x = self.value()?;
                v.push((k, x));
                if self.eat(", ") {
                    continue;
                }
                self.expect("}")?;
                return Ok(Dv::Map(v));
            }
        }
        let st = self.p;
        while !matches!(self.peek(), 0 | b',' | b')' | b']' | b'}' | b':' | b' ' | b'(' | b'{' | b'[' | b'"') {
            self.p += 1;
        }
        if st == self.p {
            return Err(format!("empty atom at {}", st));
        }
        let name = String::from_utf8(self.s[st..self.p].to_vec()).map_err(|e| e.to_string())?;
        if self.eat("(") {
            return Ok(Dv::Tuple(name, self.list(")")?));
        }
        if self.eat(" { ") {
            let mut v = Vec::new();
            loop {
                let fs = self.p;
                while !matches!(self.peek(), 0 | b':') {
                    self.p += 1;
                }
                let fname = String::from_utf8(self.s[fs..self.p].to_vec()).map_err(|e| e.to_string())?;
                self.expect(": ")?;
                v.push((fname, self.value()?));
                if self.eat(", ") {
                    continue;
                }
                self.expect(" }")?;
                return Ok(Dv::Struct(name, v));
            }
        }
        Ok(Dv::Atom(name))
    }
}

impl Dv {
    fn field(&self, n: &str) -> Result<&Dv, String> {
        match self {
            Dv::Struct(_, f) => f.iter().find(|(k, _)| k == n).map(|(_, v)| v).ok_or(format!("no field {}", n)),
            _ => Err(format!("not a struct (looking for {})", n)),
        }
    }
    fn atom(&self) -> Result<&str, String> {
        match self {
            Dv::Atom(a) => Ok(a),
            _ => Err("not an atom".into()),
        }
    }
    fn seq(&self) -> Result<&Vec<Dv>, String> {
        match self {
            Dv::Seq(a) => Ok(a),
            _ => Err("not a sequence".into()),
        }
    }
    fn map(&self) -> Result<&Vec<(Dv, Dv)>, String> {
        match self {
            Dv::Map(a) => Ok(a),
            _ => Err("not a map".into()),
        }
    }
    fn tuple1(&self, n: &str) -> Result<&Dv, String> {
        match self {
            Dv::Tuple(name, v) if name == n && v.len() == 1 => Ok(&v[0]),
            _ => Err(format!("not {}(..)", n)),
        }
    }
}

fn pq_of_debug(s: &str) -> Result<&'static str, String> {
    Ok(match s {
        "Volume" => "V",
        "Mass" => "M",
        "Length" => "L",
        "Temperature" => "T",
        "Time" => "H",
        _ => return Err(format!("quantity {}", s)),
    })
}

fn best_list(v: &Dv, o: &mut Vec<String>) -> Result<Vec<usize>, String> {
    let l = v.tuple1("BestConversions")?.seq()?;
    o.push(l.len().to_string());
    let mut ids = Vec::new();
    for e in l {
        let pair = e.seq()?;
        if pair.len() != 2 {
            return Err("best pair".into());
        }
        let th: f64 = pair[0].atom()?.parse().map_err(|_| "threshold".to_string())?;
        if !th.is_finite() {
            o.push("nf".into());
            o.push("0".into());
        } else {
            o.push(f64_exact(th));
        }
        let id: usize = pair[1].atom()?.parse().map_err(|_| "best id".to_string())?;
        o.push(id.to_string());
        ids.push(id);
    }
    Ok(ids)
}

fn frac_cfg(v: &Dv, o: &mut Vec<String>) -> Result<(), String> {
    let en = v.field("enabled")?.atom()?;
    o.push(if en == "true" { "1".into() } else { "0".into() });
    let acc: f32 = v.field("accuracy")?.atom()?.parse().map_err(|_| "accuracy".to_string())?;
    o.push(if acc.is_finite() { f64_exact(acc as f64) } else { "nf 0".into() });
    o.push(v.field("max_denominator")?.atom()?.to_string());
    o.push(v.field("max_whole")?.atom()?.to_string());
    Ok(())
}

fn opt_frac(v: &Dv, o: &mut Vec<String>) -> Result<(), String> {
    match v {
        Dv::Atom(a) if a == "None" => {
            o.push("-".into());
            Ok(())
        }
        _ => {
            o.push("c".into());
            frac_cfg(v.tuple1("Some")?, o)
        }
    }
}

const QUANTITIES: [PhysicalQuantity; 5] = [
    PhysicalQuantity::Volume,
    PhysicalQuantity::Mass,
    PhysicalQuantity::Length,
    PhysicalQuantity::Temperature,
    PhysicalQuantity::Time,
];

/// Canonical dump `U .. I .. Q .. B .. R .. S ..` and the API agreement flags.
fn dump(c: &Converter) -> Result<(String, String), String> {
    let dbg = format!("{:?}", c);
    let mut rd = Rd { s: dbg.as_bytes(), p: 0 };
    let root = rd.value()?;
    if rd.p != dbg.len() {
        return Err("trailing Debug output".into());
    }
    let mut o: Vec<String> = Vec::new();
    let mut flags: Vec<&str> = Vec::new();
    // units: public API
    let units: Vec<&Unit> = c.all_units().collect();
    o.push("U".into());
    o.push(units.len().to_string());
    for u in &units {
        strs(&u.names, &mut o);
        strs(&u.symbols, &mut o);
        strs(&u.aliases, &mut o);
        o.push(fq(u.ratio));
        o.push(fq(u.difference));
        o.push(pq(u.physical_quantity).into());
        o.push(
            match u.system {
                None => "-",
                Some(System::Metric) => "m",
                Some(System::Imperial) => "i",
            }
            .into(),
        );
    }
    if c.unit_count() != units.len() {
        flags.push("unit_count");
    }
    let id_of = |p: *const Unit| units.iter().position(|u| std::ptr::eq(*u as *const Unit, p));
    // index: Debug (complete key set), cross-checked with find_unit
    let idx = root.field("unit_index")?.tuple1("UnitIndex")?.map()?;
    let mut ents: Vec<(String, usize)> = Vec::new();
    for (k, v) in idx {
        let k = match k {
            Dv::Str(s) => s.clone(),
            _ => return Err("index key".into()),
        };
        let id: usize = v.atom()?.parse().map_err(|_| "index id".to_string())?;
        match c.find_unit(&k) {
            Some(a) => {
                if id_of(std::sync::Arc::as_ptr(&a)) != Some(id) {
                    flags.push("find_unit");
                }
            }
            None => flags.push("find_unit"),
        }
        ents.push((k, id));
    }
    // every key of every unit through the public lookup as well
    for (i, u) in units.iter().enumerate() {
        for k in u.names.iter().chain(&u.symbols).chain(&u.aliases) {
            let got = c.find_unit(k).and_then(|a| id_of(std::sync::Arc::as_ptr(&a)));
            let listed = ents.iter().find(|(kk, _)| kk.as_str() == &**k).map(|(_, id)| *id);
            if got != listed {
                flags.push("find_unit_keys");
            }
            let _ = i;
        }
    }
    ents.sort();
    o.push("I".into());
    o.push(ents.len().to_string());
    for (k, id) in &ents {
        o.push(hex(k));
        o.push(id.to_string());
    }
    // quantity index: Debug
    o.push("Q".into());
    let qi = root.field("quantity_index")?.map()?;
    if qi.len() != 5 {
        return Err("quantity_index".into());
    }
    for (k, v) in qi {
        o.push(pq_of_debug(k.atom()?)?.into());
        let l = v.seq()?;
        o.push(l.len().to_string());
        for e in l {
            o.push(e.atom()?.to_string());
        }
    }
    // best: Debug for thresholds, ids cross-checked with best_units()
    o.push("B".into());
    let best = root.field("best")?.map()?;
    if best.len() != 5 {
        return Err("best".into());
    }
    for ((k, v), q) in best.iter().zip(QUANTITIES) {
        let code = pq_of_debug(k.atom()?)?;
        if code != pq(q) {
            return Err("best order".into());
        }
        o.push(code.into());
        let api_ids = |sys: Option<System>| -> Vec<Option<usize>> {
            c.best_units(q, sys).iter().map(|a| id_of(std::sync::Arc::as_ptr(a))).collect()
        };
        match v {
            Dv::Tuple(n, inner) if n == "Unified" && inner.len() == 1 => {
                o.push("u".into());
                let ids = best_list(&inner[0], &mut o)?;
                let want: Vec<Option<usize>> = ids.iter().map(|i| Some(*i)).collect();
                if api_ids(None) != want || api_ids(Some(System::Metric)) != want {
                    flags.push("best_units");
                }
            }
            Dv::Struct(n, _) if n == "BySystem" => {
                o.push("s".into());
                let m = best_list(v.field("metric")?, &mut o)?;
                let i = best_list(v.field("imperial")?, &mut o)?;
                let wm: Vec<Option<usize>> = m.iter().map(|i| Some(*i)).collect();
                let wi: Vec<Option<usize>> = i.iter().map(|i| Some(*i)).collect();
                let mut both = wm.clone();
                both.extend(wi.clone());
                if api_ids(Some(System::Metric)) != wm || api_ids(Some(System::Imperial)) != wi || api_ids(None) != both {
                    flags.push("best_units");
                }
            }
            _ => return Err("best store".into()),
        }
    }
    // fractions: Debug
    let fr = root.field("fractions")?;
    o.push("R".into());
    opt_frac(fr.field("all")?, &mut o)?;
    opt_frac(fr.field("metric")?, &mut o)?;
    opt_frac(fr.field("imperial")?, &mut o)?;
    let mut qents: Vec<(String, Vec<String>)> = Vec::new();
    for (k, v) in fr.field("quantity")?.map()? {
        let mut t = Vec::new();
        frac_cfg(v, &mut t)?;
        qents.push((pq_of_debug(k.atom()?)?.to_string(), t));
    }
    qents.sort();
    o.push(qents.len().to_string());
    for (k, t) in qents {
        o.push(k);
        o.extend(t);
    }
    let mut uents: Vec<(usize, Vec<String>)> = Vec::new();
    for (k, v) in fr.field("unit")?.map()? {
        let mut t = Vec::new();
        frac_cfg(v, &mut t)?;
        uents.push((k.atom()?.parse().map_err(|_| "fraction unit id".to_string())?, t));
    }
    uents.sort();
    o.push(uents.len().to_string());
    for (k, t) in uents {
        o.push(k.to_string());
        o.extend(t);
    }
    o.push("S".into());
    o.push(
        match c.default_system() {
            System::Metric => "m",
            System::Imperial => "i",
        }
        .into(),
    );
    flags.sort();
    flags.dedup();
    Ok((o.join(" "), if flags.is_empty() { "ok".into() } else { flags.join(",") }))
}

fn err_line(e: &ConverterBuilderError) -> String {
    let dbg = format!("{:?}", e);
    let name: String = dbg.chars().take_while(|c| c.is_ascii_alphanumeric() || *c == '_').collect();
    #[allow(unreachable_patterns)]
    let payload = match e {
        ConverterBuilderError::DuplicateUnit { name } => hex(name),
        ConverterBuilderError::DuplicateExtendUnit { key } => hex(key),
        ConverterBuilderError::InvalidExtendExpanded { key } => hex(key),
        ConverterBuilderError::UnknownUnit(u) => hex(&u.0),
        ConverterBuilderError::EmptyBest { quantity, .. } => pq(*quantity).to_string(),
        // a variant this harness was not written against: the first string field of its Debug output
        _ => {
            let mut rd = Rd { s: dbg.as_bytes(), p: 0 };
            match rd.value() {
                Ok(Dv::Struct(_, fs)) => fs
                    .iter()
                    .find_map(|(_, v)| if let Dv::Str(s) = v { Some(hex(s)) } else { None })
                    .unwrap_or_else(|| "-".to_string()),
                _ => "-".to_string(),
            }
        }
    };
    format!("err {} {}", name, payload)
}

fn main() {
    let args: Vec<String> = std::env::args().collect();
    if args.len() > 2 && args[1] == "--default" {
        let text = std::fs::read_to_string(&args[2]).expect("units.toml");
        let parsed: UnitsFile = toml::from_str(&text).expect("units.toml parses");
        let same = parsed == UnitsFile::bundled();
        let c = Converter::default();
        let (d, a) = dump(&c).expect("dump of the default converter");
        let built = ConverterBuilder::new()
            .with_units_file(parsed.clone())
            .and_then(|b| b.finish())
            .map(|b| b == c)
            .unwrap_or(false);
        println!("F {} ; G {} ; E {} ; D {} ; A {}", enc_file(&parsed), same as u8, built as u8, d, a);
        return;
    }
    drive(|f| {
        let mut files: Vec<UnitsFile> = Vec::new();
        for h in f {
            match toml::from_str::<UnitsFile>(&unhex(h)) {
                Ok(u) => files.push(u),
                Err(_) => return "F - ; R tomlerr ; D - ; A -".to_string(),
            }
        }
        let enc: Vec<String> = files.iter().map(enc_file).collect();
        let res = guarded(move || {
            let mut b = ConverterBuilder::new();
            for u in files {
                b.add_units_file(u)?;
            }
            b.finish()
        });
        let (r, d, a) = match res {
            Err(_) => ("panic".to_string(), "-".to_string(), "-".to_string()),
            Ok(Err(e)) => (err_line(&e), "-".to_string(), "-".to_string()),
            Ok(Ok(c)) => match guarded(|| dump(&c)) {
                Ok(Ok((d, a))) => ("ok".to_string(), d, a),
                Ok(Err(e)) => ("ok".to_string(), "-".to_string(), format!("dumpfail:{}", e.replace(' ', "_"))),
                Err(_) => ("ok".to_string(), "-".to_string(), "dumppanic".to_string()),
            },
        };
        format!("F {} {} ; R {} ; D {} ; A {}", enc.len(), enc.join(" "), r, d, a)
    });
}
