//! L-aisle: `aisle::parse`, `aisle::write`, `AisleConf::ingredients_info`.
//! Case line: `<hex input>`.
//! Output: `P <parse> ; W <hex|-> ; R <same|diff|err|panic|-> ; L <lookup|-> ; V <violations|->`
use cooklang::aisle::{self, AisleConf, AisleConfError};
use vh::*;

fn canon_conf(c: &AisleConf) -> String {
    let mut o = String::from("ok");
    for cat in &c.categories {
        o.push_str(" C");
        o.push_str(&hex(cat.name));
        for igr in &cat.ingredients {
            o.push_str(" I");
            let names: Vec<String> = igr.names.iter().map(|n| hex(n)).collect();
            o.push_str(&names.join(","));
        }
    }
    o
}

fn span_ok(input: &str, s: cooklang::Span) -> bool {
    s.start() <= s.end()
        && s.end() <= input.len()
        && input.is_char_boundary(s.start())
        && input.is_char_boundary(s.end())
}

fn main() {
    drive(|f| {
        let input = unhex(f[0]);
        let mut viol: Vec<&str> = Vec::new();
        let parsed = guarded(|| aisle::parse(&input));
        let (p, w, r, l): (String, String, String, String);
        match &parsed {
            Err(_) => {
                p = "panic".to_string();
                w = "-".into();
                r = "-".into();
                l = "-".into();
                viol.push("total");
            }
            Ok(Err(e)) => {
                w = "-".into();
                r = "-".into();
                l = "-".into();
                let spans: Vec<cooklang::Span> = match e {
                    AisleConfError::Parse { span, .. } => vec![*span],
                    AisleConfError::DuplicateCategory {
                        first_span,
                        second_span,
                        ..
                    }
                    | AisleConfError::DuplicateIngredient {
                        first_span,
                        second_span,
                        ..
                    } => vec![*first_span, *second_span],
                };
                if !spans.iter().all(|s| span_ok(&input, *s)) {
                    viol.push("error_spans");
                }
                p = match e {
                    AisleConfError::Parse { span, .. } => {
                        format!("eparse {} {}", span.start(), span.end())
                    }
                    AisleConfError::DuplicateCategory {
                        name,
                        first_span,
                        second_span,
                    } => format!(
                        "edupcat {} {} {} {} {}",
                        hex(name),
                        first_span.start(),
                        first_span.end(),
                        second_span.start(),
                        second_span.end()
                    ),
                    AisleConfError::DuplicateIngredient {
                        name,
                        first_span,
                        second_span,
                    } => format!(
                        "eduping {} {} {} {} {}",
                        hex(name),
                        first_span.start(),
                        first_span.end(),
                        second_span.start(),
                        second_span.end()
                    ),
                };
            }
            Ok(Ok(conf)) => {
                p = canon_conf(conf);
                // duplicate freedom
                let mut cats = std::collections::HashSet::new();
                let mut names = std::collections::HashSet::new();
                let mut nodup = true;
                for c in &conf.categories {
                    nodup &= cats.insert(c.name);
                    for i in &c.ingredients {
                        for n in &i.names {
                            nodup &= names.insert(*n);
                        }
                    }
                }
                if !nodup {
                    viol.push("nodup");
                }
                // write + reparse
                let mut buf = Vec::new();
                let wr = guarded(|| aisle::write(conf, &mut buf));
                match wr {
                    Ok(Ok(())) => {
                        let text = String::from_utf8(buf).expect("write produced non UTF-8");
                        w = hex(&text);
                        r = match guarded(|| aisle::parse(&text)) {
                            Err(_) => "panic".into(),
                            Ok(Err(_)) => "err".into(),
                            Ok(Ok(c2)) => {
                                if c2.categories == conf.categories {
                                    "same".into()
                                } else {
                                    "diff".into()
                                }
                            }
                        };
                        if r != "same" {
                            viol.push("roundtrip");
                        }
                        // the same through a sink that accepts at most 3 bytes per call (io::Write allows
                        // short writes): what arrives must be the same text
                        struct Chunky(Vec<u8>);
                        impl std::io::Write for Chunky {
                            fn write(&mut self, b: &[u8]) -> std::io::Result<usize> {
                                let n = b.len().min(3);
                                self.0.extend_from_slice(&b[..n]);
                                Ok(n)
                            }
                            fn flush(&mut self) -> std::io::Result<()> {
                                Ok(())
                            }
                        }
                        let mut ch = Chunky(Vec::new());
                        match guarded(|| aisle::write(conf, &mut ch)) {
                            Ok(Ok(())) => {
                                if ch.0 != text.as_bytes() {
                                    viol.push("roundtrip_short_writes");
                                }
                            }
                            _ => viol.push("write"),
                        }
                    }
                    _ => {
                        w = "-".into();
                        r = "-".into();
                        viol.push("write");
                    }
                }
                // lookup
                match guarded(|| {
                    let info = conf.ingredients_info();
                    let mut ents: Vec<(String, String, String)> = info
                        .iter()
                        .map(|(k, v)| (k.to_string(), v.category.to_string(), v.common_name.to_string()))
                        .collect();
                    ents.sort();
                    ents
                }) {
                    Err(_) => {
                        l = "panic".into();
                        viol.push("lookup");
                    }
                    Ok(ents) => {
                        // independent expectation: every name maps to its category and first name of its line
                        let mut ok = true;
                        let mut count = 0usize;
                        for c in &conf.categories {
                            for i in &c.ingredients {
                                for n in &i.names {
                                    count += 1;
                                    ok &= ents.iter().any(|(k, cat, common)| {
                                        k == n && cat == c.name && common == i.names[0]
                                    });
                                }
                            }
                        }
                        ok &= count == ents.len() || !nodup;
                        if !ok {
                            viol.push("lookup");
                        }
                        // "writing a parsed configuration and parsing it again yields an equal configuration":
                        // equal by the type's own `==`, also once a lookup has been made on it (the derived
                        // equality used to compare the capacity hint that ingredients_info updates)
                        if !w.is_empty() && w != "-" {
                            let text = vh::unhex(&w);
                            if let Ok(Ok(c2)) = guarded(|| aisle::parse(&text)) {
                                if c2.categories == conf.categories && c2 != *conf {
                                    viol.push("roundtrip_eq_after_lookup");
                                }
                            }
                        }
                        l = if ents.is_empty() {
                            "-".into()
                        } else {
                            ents.iter()
                                .map(|(k, c, m)| format!("{}={}/{}", hex(k), hex(c), hex(m)))
                                .collect::<Vec<_>>()
                                .join(",")
                        };
                    }
                }
            }
        }
        let v = if viol.is_empty() {
            "-".to_string()
        } else {
            viol.join(",")
        };
        format!("P {} ; W {} ; R {} ; L {} ; V {}", p, w, r, l, v)
    });
}
