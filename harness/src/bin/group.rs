//! L-group: `GroupedQuantity::{add,merge,fit,iter}`, `GroupedValue`, `group_ingredients`,
//! `group_cookware`, `IngredientList::{add_recipe,iter,categorize}` on the live bundled converter.
//!
//! Cases (first field = kind), same token grammar as runner/group_main.ml:
//!   T                          -> `T <key hex>,<unit id>,<pq 0-4>,<ratio m^e>,<difference m^e> ...`
//!   A <op>..   E | M | F | Q<qty>   -> `A <gq>`          (stack machine over GroupedQuantity)
//!   V <op>..   E | M | Q<val>       -> `V <vals>`        (stack machine over GroupedValue)
//!   R <scale> <aisle hex> <recipe hex>..  scale = d | <factor m^e>
//!        -> `R ok ; D <dump> ; G .. ; W .. ; L .. ; C ..`  |  `R invalid`  |  `R panic`
//! qty = <val>@<unit hex|->,  val = n:<num> | r:<num>:<num> | t:<hex>,  num = m^e (m * 2^e)
//! gq  = k0|k1|k2|k3|k4&<unknown, sorted by key>&<other>&<no_unit>
//! A panic anywhere is reported as `<kind> panic`.  The property monitor is in checks/c10.py
//! (it works on these lines with exact rationals).
use cooklang::aisle;
use cooklang::convert::{Converter, PhysicalQuantity};
use cooklang::ingredient_list::IngredientList;
use cooklang::model::IngredientReferenceTarget;
use cooklang::quantity::{GroupedQuantity, GroupedValue, Number, Quantity, ScaledQuantity, Value};
use cooklang::{CooklangParser, Extensions, Modifiers, ScaledRecipe};
use std::sync::Arc;
use vh::*;

fn num(v: f64) -> String {
    f64_exact(v).replace(' ', "^")
}

fn parse_num(s: &str) -> f64 {
    let (m, e) = s.split_once('^').expect("number m^e");
    let m: f64 = m.parse::<i128>().expect("mantissa") as f64; // |m| < 2^53 by construction: exact
    let e: i32 = e.parse().expect("exponent");
    m * 2f64.powi(e)
}

fn parse_val(s: &str) -> Value {
    let p: Vec<&str> = s.split(':').collect();
    match p[0] {
        "n" => Value::Number(Number::Regular(parse_num(p[1]))),
        "r" => Value::Range {
            start: Number::Regular(parse_num(p[1])),
            end: Number::Regular(parse_num(p[2])),
        },
        "t" => Value::Text(unhex(p[1])),
        _ => panic!("bad value token"),
    }
}

fn parse_qty(s: &str) -> ScaledQuantity {
    let (v, u) = s.split_once('@').expect("qty");
    Quantity::new(parse_val(v), if u == "-" { None } else { Some(unhex(u)) })
}

fn tok_val(v: &Value) -> String {
    match v {
        Value::Number(n) => format!("n:{}", num(n.value())),
        Value::Range { start, end } => format!("r:{}:{}", num(start.value()), num(end.value())),
        Value::Text(t) => format!("t:{}", hex(t)),
    }
}

fn tok_qty(q: &ScaledQuantity) -> String {
    format!(
        "{}@{}",
        tok_val(q.value()),
        match q.unit() {
            Some(u) => hex(u),
            None => "-".into(),
        }
    )
}

fn list_or_dash(v: Vec<String>, sep: &str) -> String {
    if v.is_empty() {
        "-".into()
    } else {
        v.join(sep)
    }
}

const PQ_NAMES: [&str; 5] = ["volume", "mass", "length", "temperature", "time"];

/// Bucket structure through Serialize (which slots are filled), values through iter().
fn tok_gq(g: &GroupedQuantity) -> String {
    let j = serde_json::to_value(g).expect("serialize GroupedQuantity");
    let known = &j["known"];
    let n_unknown = j["unknown"].as_object().map(|m| m.len()).unwrap_or(0);
    let n_other = j["other"].as_array().map(|a| a.len()).unwrap_or(0);
    let has_no_unit = !j["no_unit"].is_null();
    let mut it = g.iter();
    let mut k = Vec::new();
    for name in PQ_NAMES {
        if known[name].is_null() {
            k.push("-".to_string());
        } else {
            k.push(tok_qty(it.next().expect("known slot")));
        }
    }
    let mut u: Vec<(String, String)> = Vec::new();
    for _ in 0..n_unknown {
        let q = it.next().expect("unknown entry");
        u.push((q.unit().map(hex).unwrap_or_default(), tok_qty(q)));
    }
    u.sort();
    let mut o = Vec::new();
    for _ in 0..n_other {
        o.push(tok_qty(it.next().expect("other entry")));
    }
    let n = if has_no_unit {
        tok_qty(it.next().expect("no_unit"))
    } else {
        "-".to_string()
    };
    assert!(it.next().is_none(), "iter longer than the serialized structure");
    format!(
        "{}&{}&{}&{}",
        k.join("|"),
        list_or_dash(u.into_iter().map(|x| x.1).collect(), ","),
        list_or_dash(o, ","),
        n
    )
}

fn pq_index(p: PhysicalQuantity) -> usize {
    match p {
        PhysicalQuantity::Volume => 0,
        PhysicalQuantity::Mass => 1,
        PhysicalQuantity::Length => 2,
        PhysicalQuantity::Temperature => 3,
        PhysicalQuantity::Time => 4,
    }
}

fn table(conv: &Converter) -> String {
    let units: Vec<&cooklang::convert::Unit> = conv.all_units().collect();
    let mut out = vec!["T".to_string()];
    for u in &units {
        for key in u.names.iter().chain(&u.symbols).chain(&u.aliases) {
            let Some(found) = conv.find_unit(key) else { continue };
            let id = units
                .iter()
                .position(|x| std::ptr::eq(*x as *const _, Arc::as_ptr(&found)))
                .expect("unit in all_units");
            out.push(format!(
                "{},{},{},{},{}",
                hex(key),
                id,
                pq_index(found.physical_quantity),
                num(found.ratio),
                num(found.difference)
            ));
        }
    }
    out.join(" ")
}

fn run_a(ops: &[&str], conv: &Converter) -> String {
    let mut st: Vec<GroupedQuantity> = Vec::new();
    for op in ops {
        match op.as_bytes()[0] {
            b'E' => st.push(GroupedQuantity::empty()),
            b'M' => {
                let b = st.pop().unwrap();
                st.last_mut().unwrap().merge(&b, conv);
            }
            b'F' => {
                let _ = st.last_mut().unwrap().fit(conv);
            }
            b'Q' => st.last_mut().unwrap().add(&parse_qty(&op[1..]), conv),
            _ => panic!("bad op"),
        }
    }
    format!("A {}", tok_gq(st.last().unwrap()))
}

fn run_v(ops: &[&str]) -> String {
    let mut st: Vec<GroupedValue> = Vec::new();
    for op in ops {
        match op.as_bytes()[0] {
            b'E' => st.push(GroupedValue::empty()),
            b'M' => {
                let b = st.pop().unwrap();
                st.last_mut().unwrap().merge(&b);
            }
            b'Q' => st.last_mut().unwrap().add(&parse_val(&op[1..])),
            _ => panic!("bad op"),
        }
    }
    format!(
        "V {}",
        list_or_dash(st.last().unwrap().iter().map(tok_val).collect(), ",")
    )
}

fn opt_hex(s: Option<&str>) -> String {
    s.map(hex).unwrap_or_else(|| "-".into())
}

fn dump_recipe(r: &ScaledRecipe) -> String {
    let ings: Vec<String> = r
        .ingredients
        .iter()
        .map(|i| {
            let m = i.modifiers();
            let stem = std::path::Path::new(&i.name).file_stem().and_then(|s| s.to_str());
            let rel = if i.relation.is_definition() {
                let mut s = "d".to_string();
                for x in i.relation.referenced_from() {
                    s.push_str(&format!(".{}", x));
                }
                s
            } else {
                let (idx, t) = i.relation.references_to().expect("reference");
                format!(
                    "r{}{}",
                    idx,
                    if t == IngredientReferenceTarget::Ingredient { "i" } else { "s" }
                )
            };
            format!(
                "{},{},{},{}{}{},{},{}",
                hex(&i.name),
                opt_hex(i.alias.as_deref()),
                opt_hex(stem),
                m.contains(Modifiers::HIDDEN) as u8,
                m.contains(Modifiers::REF) as u8,
                m.contains(Modifiers::RECIPE) as u8,
                rel,
                i.quantity.as_ref().map(tok_qty).unwrap_or_else(|| "-".into())
            )
        })
        .collect();
    let cws: Vec<String> = r
        .cookware
        .iter()
        .map(|c| {
            let rel = if c.relation.is_definition() {
                let mut s = "d".to_string();
                for x in c.relation.referenced_from() {
                    s.push_str(&format!(".{}", x));
                }
                s
            } else {
                format!("r{}i", c.relation.references_to().expect("reference"))
            };
            format!(
                "{},{}",
                rel,
                c.quantity.as_ref().map(tok_val).unwrap_or_else(|| "-".into())
            )
        })
        .collect();
    format!("{}~{}", list_or_dash(ings, "+"), list_or_dash(cws, "+"))
}

fn tok_ilist<'a>(it: impl Iterator<Item = (&'a String, &'a GroupedQuantity)>) -> String {
    list_or_dash(
        it.map(|(n, g)| format!("{}={}", hex(n), tok_gq(g))).collect(),
        "+",
    )
}

fn run_r(f: &[&str], parser: &CooklangParser) -> String {
    let conv = parser.converter();
    let aisle_text = unhex(f[1]);
    let mut recipes: Vec<ScaledRecipe> = Vec::new();
    for h in &f[2..] {
        let src = unhex(h);
        let Some(r) = parser.parse(&src).into_output() else {
            return "R invalid".into();
        };
        recipes.push(if f[0] == "d" {
            r.default_scale()
        } else {
            r.scale(parse_num(f[0]), conv)
        });
    }
    let d: Vec<String> = recipes.iter().map(dump_recipe).collect();
    let g: Vec<String> = recipes
        .iter()
        .map(|r| {
            list_or_dash(
                r.group_ingredients(conv)
                    .iter()
                    .map(|e| format!("{}={}", e.index, tok_gq(&e.quantity)))
                    .collect(),
                "+",
            )
        })
        .collect();
    let w: Vec<String> = recipes
        .iter()
        .map(|r| {
            list_or_dash(
                r.group_cookware()
                    .iter()
                    .map(|e| {
                        format!(
                            "{}={}",
                            e.index,
                            list_or_dash(e.amount.iter().map(tok_val).collect(), ",")
                        )
                    })
                    .collect(),
                "+",
            )
        })
        .collect();
    let mut list = IngredientList::new();
    for r in &recipes {
        list.add_recipe(r, conv);
    }
    let l = tok_ilist(list.iter());
    let c = match aisle::parse(&aisle_text) {
        Ok(conf) => {
            let cat = list.categorize(&conf);
            list_or_dash(
                cat.iter()
                    .map(|(name, il)| format!("{}>{}", hex(name), tok_ilist(il.iter())))
                    .collect(),
                "!",
            )
        }
        Err(_) => "noconf".into(),
    };
    format!(
        "R ok ; D {} ; G {} ; W {} ; L {} ; C {}",
        d.join("!"),
        g.join("!"),
        w.join("!"),
        l,
        c
    )
}

fn main() {
    let parser = CooklangParser::new(Extensions::all(), Converter::bundled());
    drive(|f| {
        let kind = f[0].to_string();
        let r = guarded(|| match f[0] {
            "T" => table(parser.converter()),
            "A" => run_a(&f[1..], parser.converter()),
            "V" => run_v(&f[1..]),
            "R" => run_r(&f[1..], &parser),
            _ => panic!("bad case kind"),
        });
        match r {
            Ok(s) => s,
            Err(m) => format!("{} panic {}", kind, hex(&m)),
        }
    });
}
