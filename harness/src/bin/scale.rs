//! L-scale: `ScalableRecipe::{scale, scale_to_servings, default_scale}` and `scaled_data`
//! observed on recipes parsed by the implementation (bundled converter).
//!
//! Case lines:
//!   U <i>                              unit number i of Converter::bundled().all_units() (as conv.rs `D`)
//!   P <ops> <ext: a|n> <mut> <hex source>
//!     ops  comma separated: f<m:e> scale by the factor m*2^e | s<n> scale_to_servings(n) | d default_scale
//!     mut  -            the recipe as parsed
//!          L            every value (ingredient, cookware, timer; text too) made Linear  (not a parsed recipe)
//!          X            Linear and Fixed exchanged everywhere                           (not a parsed recipe)
//!          S<n,n,..>    set_servings([..]) after parsing (S alone: the empty list)
//! Output of P: `<scalable dump> ;; <metadata servings> ;; <result of op 1> ;; <result of op 2> ...`
//!   or `invalid` / `panic`.
//!
//! Dump grammar (tokens separated by one blank; <hex> = x + hex of UTF-8):
//!   scalable  R <servings> <frame> I<n> {<frame> <squantity>} C<n> {<frame> <svalue>} T<n> {<name> <squantity>} Q<n> {<value> <unit>}
//!   scaled    D <data> <frame> I<n> {<frame> <quantity>} C<n> {<frame> <value|->} T<n> {<name> <quantity>} Q<n> {<value> <unit>}
//!   servings  - | s<n,n,..>          data  default | scaled <num> o<letters> o<letters> o<letters>  (S F N E)
//!   squantity - | L <value> <unit> | F <value> <unit>        svalue  - | L <value> | F <value>
//!   quantity  - | <value> <unit>     value  n <number> | r <number> <number> | t <hex>
//!   number    R(<m:e>) | F(<whole>,<num>,<den>,<m:e>)        unit / name  - | <hex>
//!   frame     hex of the serde_json image of the component without its quantity
//!             (recipe frame: metadata and sections)
//! A non-finite factor (servings base 0) gives the result `nonfinite` (outside the property).
use cooklang::convert::{Converter, PhysicalQuantity, System};
use cooklang::quantity::{Number, Quantity, ScalableValue, Value};
use cooklang::scale::{ScaleOutcome, Scaled};
use cooklang::{CooklangParser, Extensions, ScalableRecipe, ScaledRecipe};
use vh::*;

fn num_tok(v: f64) -> String {
    f64_exact(v).replace(' ', ":")
}

fn parse_num(t: &str) -> f64 {
    let (m, e) = t.split_once(':').expect("number token m:e");
    let m: i64 = m.parse().expect("mantissa");
    let e: i32 = e.parse().expect("exponent");
    (m as f64) * 2f64.powi(e)
}

fn num_dump(n: &Number) -> String {
    match n {
        Number::Regular(v) => format!("R({})", num_tok(*v)),
        Number::Fraction { whole, num, den, err } => {
            format!("F({},{},{},{})", whole, num, den, num_tok(*err))
        }
    }
}

fn value_dump(v: &Value) -> String {
    match v {
        Value::Number(n) => format!("n {}", num_dump(n)),
        Value::Range { start, end } => format!("r {} {}", num_dump(start), num_dump(end)),
        Value::Text(t) => format!("t {}", hex(t)),
    }
}

fn opt_hex(s: Option<&str>) -> String {
    match s {
        Some(u) => hex(u),
        None => "-".to_string(),
    }
}

fn svalue_dump(v: &ScalableValue) -> String {
    match v {
        ScalableValue::Linear(x) => format!("L {}", value_dump(x)),
        ScalableValue::Fixed(x) => format!("F {}", value_dump(x)),
    }
}

fn squantity_dump(q: &Option<Quantity<ScalableValue>>) -> String {
    match q {
        None => "-".to_string(),
        Some(q) => format!("{} {}", svalue_dump(q.value()), opt_hex(q.unit())),
    }
}

fn quantity_dump(q: &Option<Quantity<Value>>) -> String {
    match q {
        None => "-".to_string(),
        Some(q) => format!("{} {}", value_dump(q.value()), opt_hex(q.unit())),
    }
}

/// serde_json image without the quantity, as a hex token
fn frame<T: serde::Serialize>(x: &T) -> String {
    let mut v = serde_json::to_value(x).expect("serializable");
    if let Some(o) = v.as_object_mut() {
        o.remove("quantity");
    }
    hex(&v.to_string())
}

fn recipe_frame(metadata: &cooklang::metadata::Metadata, sections: &[cooklang::Section]) -> String {
    let v = serde_json::json!({ "metadata": metadata, "sections": sections });
    hex(&v.to_string())
}

fn servings_dump(s: Option<&[u32]>) -> String {
    match s {
        None => "-".to_string(),
        Some(l) => format!("s{}", l.iter().map(|n| n.to_string()).collect::<Vec<_>>().join(",")),
    }
}

fn scalable_dump(r: &ScalableRecipe) -> String {
    let mut o: Vec<String> = vec![
        "R".into(),
        servings_dump(r.servings()),
        recipe_frame(&r.metadata, &r.sections),
    ];
    o.push(format!("I{}", r.ingredients.len()));
    for i in &r.ingredients {
        o.push(frame(i));
        o.push(squantity_dump(&i.quantity));
    }
    o.push(format!("C{}", r.cookware.len()));
    for c in &r.cookware {
        o.push(frame(c));
        o.push(match &c.quantity {
            None => "-".to_string(),
            Some(v) => svalue_dump(v),
        });
    }
    o.push(format!("T{}", r.timers.len()));
    for t in &r.timers {
        o.push(opt_hex(t.name.as_deref()));
        o.push(squantity_dump(&t.quantity));
    }
    o.push(format!("Q{}", r.inline_quantities.len()));
    for q in &r.inline_quantities {
        o.push(format!("{} {}", value_dump(q.value()), opt_hex(q.unit())));
    }
    o.join(" ")
}

fn outcomes(l: &[ScaleOutcome]) -> String {
    let mut s = String::from("o");
    for x in l {
        s.push(match x {
            ScaleOutcome::Scaled => 'S',
            ScaleOutcome::Fixed => 'F',
            ScaleOutcome::NoQuantity => 'N',
            ScaleOutcome::Error(_) => 'E',
        });
    }
    s
}

fn scaled_dump(r: &ScaledRecipe) -> String {
    let data = match r.scaled() {
        Scaled::DefaultScaling => {
            // the three views of the data field must agree
            assert!(r.is_default_scaled() && r.scaled_data().is_none());
            "default".to_string()
        }
        Scaled::Scaled(d) => {
            assert!(!r.is_default_scaled() && r.scaled_data().is_some());
            if !d.target.factor().is_finite() {
                return "nonfinite".to_string();
            }
            format!(
                "scaled {} {} {} {}",
                num_tok(d.target.factor()),
                outcomes(&d.ingredients),
                outcomes(&d.cookware),
                outcomes(&d.timers)
            )
        }
    };
    let mut o: Vec<String> = vec!["D".into(), data, recipe_frame(&r.metadata, &r.sections)];
    o.push(format!("I{}", r.ingredients.len()));
    for i in &r.ingredients {
        o.push(frame(i));
        o.push(quantity_dump(&i.quantity));
    }
    o.push(format!("C{}", r.cookware.len()));
    for c in &r.cookware {
        o.push(frame(c));
        o.push(match &c.quantity {
            None => "-".to_string(),
            Some(v) => value_dump(v),
        });
    }
    o.push(format!("T{}", r.timers.len()));
    for t in &r.timers {
        o.push(opt_hex(t.name.as_deref()));
        o.push(quantity_dump(&t.quantity));
    }
    o.push(format!("Q{}", r.inline_quantities.len()));
    for q in &r.inline_quantities {
        o.push(format!("{} {}", value_dump(q.value()), opt_hex(q.unit())));
    }
    o.join(" ")
}

fn relabel(v: ScalableValue, mode: &str) -> ScalableValue {
    match (mode, v) {
        ("L", ScalableValue::Fixed(x)) | ("L", ScalableValue::Linear(x)) => ScalableValue::Linear(x),
        ("X", ScalableValue::Fixed(x)) => ScalableValue::Linear(x),
        ("X", ScalableValue::Linear(x)) => ScalableValue::Fixed(x),
        (_, v) => v,
    }
}

fn mutate(r: &mut ScalableRecipe, m: &str) {
    if m == "-" {
        return;
    }
    if let Some(list) = m.strip_prefix('S') {
        let v: Vec<u32> = if list.is_empty() {
            vec![]
        } else {
            list.split(',').map(|x| x.parse().expect("serving")).collect()
        };
        r.set_servings(v);
        return;
    }
    for i in r.ingredients.iter_mut() {
        if let Some(q) = i.quantity.take() {
            let unit = q.unit().map(|s| s.to_string());
            i.quantity = Some(Quantity::new(relabel(q.value().clone(), m), unit));
        }
    }
    for c in r.cookware.iter_mut() {
        if let Some(v) = c.quantity.take() {
            c.quantity = Some(relabel(v, m));
        }
    }
    for t in r.timers.iter_mut() {
        if let Some(q) = t.quantity.take() {
            let unit = q.unit().map(|s| s.to_string());
            t.quantity = Some(Quantity::new(relabel(q.value().clone(), m), unit));
        }
    }
}

fn pq_name(p: PhysicalQuantity) -> &'static str {
    match p {
        PhysicalQuantity::Volume => "volume",
        PhysicalQuantity::Mass => "mass",
        PhysicalQuantity::Length => "length",
        PhysicalQuantity::Temperature => "temperature",
        PhysicalQuantity::Time => "time",
    }
}

fn sys_name(s: Option<System>) -> &'static str {
    match s {
        Some(System::Metric) => "metric",
        Some(System::Imperial) => "imperial",
        None => "none",
    }
}

fn strs(v: &[std::sync::Arc<str>]) -> String {
    v.iter().map(|s| hex(s)).collect::<Vec<_>>().join(",")
}

fn main() {
    let c = Converter::bundled();
    let p_all = CooklangParser::new(Extensions::all(), c.clone());
    let p_none = CooklangParser::new(Extensions::empty(), c.clone());
    drive(|f| {
        let r = guarded(|| match f[0] {
            "U" => {
                let i: usize = f[1].parse().unwrap();
                match c.all_units().nth(i) {
                    None => "none".to_string(),
                    Some(u) => format!(
                        "unit {} {} {} {} N{} S{} A{}",
                        pq_name(u.physical_quantity),
                        sys_name(u.system),
                        num_tok(u.ratio),
                        num_tok(u.difference),
                        strs(&u.names),
                        strs(&u.symbols),
                        strs(&u.aliases)
                    ),
                }
            }
            "P" => {
                let parser = if f[2] == "a" { &p_all } else { &p_none };
                let src = unhex(f[4]);
                // Servings is not Clone: every operation gets a freshly parsed (and mutated) recipe
                let make = || -> Option<ScalableRecipe> {
                    let parsed = parser.parse(&src);
                    if !parsed.is_valid() {
                        return None;
                    }
                    let (mut recipe, _) = parsed.into_result().expect("valid recipe");
                    mutate(&mut recipe, f[3]);
                    Some(recipe)
                };
                let recipe = match make() {
                    Some(r) => r,
                    None => return "invalid".to_string(),
                };
                let meta_servings = recipe.metadata.servings();
                let mut out = vec![scalable_dump(&recipe), servings_dump(meta_servings.as_deref())];
                for op in f[1].split(',') {
                    let rc = make().expect("deterministic parse");
                    assert!(scalable_dump(&rc) == out[0], "parse is not deterministic");
                    let res = if let Some(t) = op.strip_prefix('f') {
                        scaled_dump(&rc.scale(parse_num(t), &c))
                    } else if let Some(n) = op.strip_prefix('s') {
                        scaled_dump(&rc.scale_to_servings(n.parse().expect("servings"), &c))
                    } else if op == "d" {
                        scaled_dump(&rc.default_scale())
                    } else {
                        panic!("unknown op")
                    };
                    out.push(res);
                }
                out.join(" ;; ")
            }
            _ => panic!("unknown case kind"),
        });
        match r {
            Ok(s) => s,
            Err(_) => "panic".to_string(),
        }
    })
}
