//! L-lex + L-ev: token stream (hook), PullParser events, metadata-only events.
//! Case: `<hex input> <extension bits>`.
//! Output: `T <tokens|panic> ;; E <events|panic> ;; M <meta events|panic>`
use cooklang::parser::PullParser;
use cooklang::Extensions;
use vh::*;

fn main() {
    drive(|f| {
        let input = unhex(f[0]);
        let ext = Extensions::from_bits_truncate(f[1].parse::<u32>().unwrap());
        let toks = match guarded(|| cooklang::verif_hooks::tokens(&input)) {
            Ok(t) => {
                if t.is_empty() {
                    "-".to_string()
                } else {
                    t.iter()
                        .map(|(k, s, e)| format!("{}:{}-{}", k, s, e))
                        .collect::<Vec<_>>()
                        .join(",")
                }
            }
            Err(_) => "panic".into(),
        };
        let evs = match guarded(|| PullParser::new(&input, ext).collect::<Vec<_>>()) {
            Ok(v) => evcanon::events(&v),
            Err(_) => "panic".into(),
        };
        let mevs = match guarded(|| PullParser::new(&input, ext).into_meta_iter().collect::<Vec<_>>()) {
            Ok(v) => evcanon::events(&v),
            Err(_) => "panic".into(),
        };
        format!("T {} ;; E {} ;; M {}", toks, evs, mevs)
    });
}
