//! L-frac: `Number::new_approx`, `Number::try_approx`, `Number::value`, `Display for Number`,
//! `ScaledQuantity::try_fraction`, `ScaledQuantity::fit` (the part that reaches try_fraction).
//! Case line: `<f64 bits, 16 hex> <f32 accuracy bits, 8 hex> <max_den> <max_whole> [pert]`
//! (the optional 5th field is for the model side only).
//! Output: `R <panic|none|reg m e|frac w n d m e> ; D <hex|-> ; VAL <m e|-> ; V <violations|->`
//! Sequence line: `S <mode> <start> <acc bits> <max_den> <max_whole> [<acc bits> <max_den> <max_whole> ...]`:
//! successive approximations of the SAME number, one per parameter triple.
//!   mode n: `Number::try_approx`; q: `ScaledQuantity::try_fraction` of a quantity in a unit whose
//!   fractions configuration is the triple (units-file layer `fractions.all`, so it goes through
//!   `FractionsConfigHelper::define`); r: the same on a range; f: `ScaledQuantity::fit` of a quantity in a
//!   unit without system (fit_fraction hands over to try_fraction; when that declines the quantity is
//!   converted to another unit, which ends the sequence: amounts across units are C09's subject).
//!   start: `b<f64 bits>` = Regular, `F<whole>,<num>,<den>,<err bits>` = a stored fraction; `A&B` for r.
//! Output: `S <step> | <step> ... ; DEV <worst |value() - original| in ulps> ; V <violations|->` with
//!   step = `<1|0|P|X> <number>[ & <number>]`, number = `reg m e` | `frac w n d m e`
//!   (1/0 = the flag returned, P = panic, X = fit left the unit).
//! The monitor (V) is the statement of C12 evaluated on what the implementation returned; the
//! supported denominators are read from env C12_DENOMS, the bounds `define` clamps max_denominator to
//! from env C12_CLAMP_DEN (both regenerated from the source by the check).
use cooklang::convert::units_file::{Fractions, FractionsConfigHelper, FractionsConfigWrapper, UnitsFile};
use cooklang::convert::Converter;
use cooklang::quantity::{Number, Quantity, Value};
use std::collections::HashMap;
use vh::*;

fn ulp(v: f64) -> f64 {
    let a = v.abs();
    if !a.is_finite() {
        return f64::NAN;
    }
    f64::from_bits(a.to_bits() + 1) - a
}

/// Independent reader of the printed forms `w`, `n/d`, `w n/d` -> (w, n, d)
fn read_printed(s: &str) -> Option<(u128, u128, u128)> {
    let num = |t: &str| -> Option<u128> {
        if t.is_empty() || !t.bytes().all(|b| b.is_ascii_digit()) {
            None
        } else {
            t.parse::<u128>().ok()
        }
    };
    let frac = |t: &str| -> Option<(u128, u128)> {
        let (a, b) = t.split_once('/')?;
        Some((num(a)?, num(b)?))
    };
    if let Some((w, r)) = s.split_once(' ') {
        let (n, d) = frac(r)?;
        Some((num(w)?, n, d))
    } else if s.contains('/') {
        let (n, d) = frac(s)?;
        Some((0, n, d))
    } else {
        Some((num(s)?, 0, 1))
    }
}

/// The clauses of C12 about a number `x` returned for the input `v` with the limits (acc, md, mw):
/// exact value, error within the accuracy, shape, printed form.  Pushes the names of the violated
/// clauses; returns (printed form or Err, value()).
fn check_some(
    v: f64,
    acc: f32,
    md: u8,
    mw: u32,
    x: Number,
    denoms: &[u32],
    slack: f64,
    viol: &mut Vec<&'static str>,
) -> (Result<String, String>, f64) {
    let shown = guarded(|| format!("{}", x));
    // Number::value is part of the property ("whose exact value ..."): a panic in it
    // (debug overflow) is a violation with this input, not a harness failure
    let value = match guarded(|| x.value()) {
        Ok(v) => v,
        Err(_) => {
            viol.push("value_panics");
            f64::NAN
        }
    };
    // declines
    if !(v.is_finite() && v > 0.0) {
        viol.push("declines");
    } else {
        // exact: value (fraction plus recorded error) equals the input
        if !((value - v).abs() <= 4.0 * ulp(v)) {
            viol.push("exact");
        }
        let max_err = acc as f64 * v;
        match x {
            Number::Regular(n) => {
                if n.to_bits() != v.to_bits() {
                    viol.push("exact");
                }
                // plain numbers only for (near) integers within the limit
                if !(v.fract() < 1e-10 * slack && v.trunc() <= mw as f64) {
                    viol.push("shape");
                }
                match &shown {
                    Ok(s) => match s.parse::<f64>() {
                        Ok(p) if (p - v).abs() <= 0.00051 => {}
                        _ => viol.push("display"),
                    },
                    Err(_) => viol.push("display"),
                }
            }
            Number::Fraction {
                whole,
                num,
                den,
                err,
            } => {
                if !(err.abs() <= max_err * slack) {
                    viol.push("within");
                }
                if whole > mw {
                    viol.push("shape");
                }
                if num == 0 {
                    if whole == 0 || den == 0 {
                        viol.push("shape");
                    }
                } else if !(denoms.contains(&den) && den <= md as u32 && num < den) {
                    viol.push("shape");
                }
                let ok = match &shown {
                    Ok(s) => match read_printed(s) {
                        Some((w, n, d)) if d != 0 && den != 0 => {
                            // w + n/d == whole + num/den, exactly
                            let (dd, de) = (d, den as u128);
                            (w * dd + n) * de == (whole as u128 * de + num as u128) * dd
                        }
                        _ => false,
                    },
                    Err(_) => false,
                };
                if !ok {
                    viol.push("display");
                }
            }
        }
    }
    (shown, value)
}

fn num_tok(x: &Number) -> String {
    match *x {
        Number::Regular(n) => format!("reg {}", f64_exact(n)),
        Number::Fraction {
            whole,
            num,
            den,
            err,
        } => format!("frac {} {} {} {}", whole, num, den, f64_exact(err)),
    }
}

/// bitwise identity of two numbers (NaN-safe, unlike PartialEq for Number which compares value())
fn same_bits(a: &Number, b: &Number) -> bool {
    match (*a, *b) {
        (Number::Regular(x), Number::Regular(y)) => x.to_bits() == y.to_bits(),
        (
            Number::Fraction {
                whole: w1,
                num: n1,
                den: d1,
                err: e1,
            },
            Number::Fraction {
                whole: w2,
                num: n2,
                den: d2,
                err: e2,
            },
        ) => w1 == w2 && n1 == n2 && d1 == d2 && e1.to_bits() == e2.to_bits(),
        _ => false,
    }
}

/// Number::value; a panic in it (debug overflow) is a violation, not a harness failure
fn safe_value(n: &Number, viol: &mut Vec<&'static str>) -> f64 {
    let n = *n;
    match guarded(move || n.value()) {
        Ok(v) => v,
        Err(_) => {
            viol.push("value_panics");
            f64::NAN
        }
    }
}

fn parse_start(t: &str) -> Number {
    if let Some(h) = t.strip_prefix('b') {
        Number::Regular(f64::from_bits(u64::from_str_radix(h, 16).expect("start bits")))
    } else if let Some(r) = t.strip_prefix('F') {
        let p: Vec<&str> = r.split(',').collect();
        Number::Fraction {
            whole: p[0].parse().expect("whole"),
            num: p[1].parse().expect("num"),
            den: p[2].parse().expect("den"),
            err: f64::from_bits(u64::from_str_radix(p[3], 16).expect("err bits")),
        }
    } else {
        panic!("bad start token")
    }
}

const SEQ_UNIT: &str = "vu";

/// bundled units + a volume unit without system + `fractions.all` = the triple, enabled
fn converter(acc: f32, md: u8, mw: u32) -> Converter {
    let mut layer: UnitsFile = toml::from_str(
        r#"
[[quantity]]
quantity = "volume"
[quantity.units]
unspecified = [ { names = ["vunit"], symbols = ["vu"], ratio = 1 } ]
"#,
    )
    .expect("layer parses");
    layer.fractions = Some(Fractions {
        all: Some(FractionsConfigWrapper::Custom(FractionsConfigHelper {
            enabled: Some(true),
            accuracy: Some(acc),
            max_denominator: Some(md),
            max_whole: Some(mw),
        })),
        ..Default::default()
    });
    Converter::builder()
        .with_bundled_units()
        .expect("bundled units")
        .with_units_file(layer)
        .expect("layer accepted")
        .finish()
        .expect("converter")
}

fn seq_case(
    f: &[&str],
    denoms: &[u32],
    clamp_den: (u8, u8),
    slack: f64,
    cache: &mut HashMap<(u32, u8, u32), Converter>,
) -> String {
    let mode = f[1];
    let mut nums: Vec<Number> = f[2].split('&').map(parse_start).collect();
    assert!(nums.len() == if mode == "r" { 2 } else { 1 }, "start does not fit the mode");
    // the original exact values: what value() says before anything was approximated
    let mut viol: Vec<&'static str> = Vec::new();
    let v0: Vec<f64> = nums.iter().map(|n| safe_value(n, &mut viol)).collect();
    let mut steps: Vec<String> = Vec::new();
    let mut worst_dev = 0.0f64;
    for (i, p) in f[3..].chunks(3).enumerate() {
        let acc = f32::from_bits(u32::from_str_radix(p[0], 16).expect("acc bits"));
        let md: u8 = p[1].parse().expect("max_den");
        let mw: u32 = p[2].parse().expect("max_whole");
        // the limits the approximation is asked to respect: for a unit configuration those `define` leaves
        let (eacc, emd) = if mode == "n" {
            (acc, md)
        } else {
            (
                if acc < 0.0 {
                    0.0
                } else if acc > 1.0 {
                    1.0
                } else {
                    acc
                },
                md.max(clamp_den.0).min(clamp_den.1),
            )
        };
        let in_range = (0.0..=1.0).contains(&eacc) && emd <= 64;
        let prev = nums.clone();
        if mode != "n" && !cache.contains_key(&(acc.to_bits(), md, mw)) {
            match guarded(|| converter(acc, md, mw)) {
                Ok(c) => {
                    cache.insert((acc.to_bits(), md, mw), c);
                }
                Err(e) => panic!("cannot build the converter: {}", e),
            }
        }
        let conv = cache.get(&(acc.to_bits(), md, mw));
        // one call; Ok((numbers after, flag, still in the unit))
        let r = guarded(|| match mode {
            "n" => {
                let mut x = prev[0];
                let ok = x.try_approx(acc, md, mw);
                (vec![x], ok, true)
            }
            "q" | "r" | "f" => {
                let value = if mode == "r" {
                    Value::Range {
                        start: prev[0],
                        end: prev[1],
                    }
                } else {
                    Value::Number(prev[0])
                };
                let mut q = Quantity::new(value, Some(SEQ_UNIT.to_string()));
                let ok = if mode == "f" {
                    q.fit(conv.unwrap()).is_ok()
                } else {
                    q.try_fraction(conv.unwrap())
                };
                // fit: anything but "approximated in this unit" ends the sequence
                let here = q.unit() == Some(SEQ_UNIT) && (mode != "f" || ok);
                let after = match q.value() {
                    Value::Number(n) => vec![*n],
                    Value::Range { start, end } => vec![*start, *end],
                    Value::Text(_) => vec![],
                };
                (after, ok && here, here)
            }
            _ => panic!("bad mode"),
        });
        let (after, ok, here) = match r {
            Err(_) => {
                steps.push("P".into());
                if in_range {
                    viol.push("panic");
                }
                break;
            }
            Ok(t) => t,
        };
        if !here {
            // fit moved the quantity to another unit (nothing could be approximated in this one)
            steps.push("X".into());
            break;
        }
        if after.len() != prev.len() {
            viol.push("frame");
            steps.push("X".into());
            break;
        }
        nums = after;
        for k in 0..nums.len() {
            let input = safe_value(&prev[k], &mut viol);
            let changed = !same_bits(&nums[k], &prev[k]);
            // after EVERY call the exact value is the original one
            let value = safe_value(&nums[k], &mut viol);
            if v0[k].is_finite() {
                let dev = (value - v0[k]).abs() / ulp(v0[k]);
                if !(dev <= 4.0 * (i as f64 + 1.0)) {
                    viol.push("exact");
                }
                if dev.is_finite() && dev > worst_dev {
                    worst_dev = dev;
                }
            } else if !(value.to_bits() == v0[k].to_bits() || (value.is_nan() && v0[k].is_nan())) {
                viol.push("exact");
            }
            if changed && !ok {
                // `false` means declined: the number is left as it was
                viol.push("frame");
            }
            if changed || (ok && nums.len() == 1) {
                // this number is the answer to `input`: all clauses of a single approximation
                check_some(input, eacc, emd, mw, nums[k], denoms, slack, &mut viol);
            }
            if !ok
                && nums.len() == 1
                && in_range
                && input.is_finite()
                && input > 0.0
                && input.fract() == 0.0
                && input <= mw as f64
            {
                // integers within the limit come back as plain numbers
                viol.push("integers");
            }
        }
        if nums.len() == 2 && ok && same_bits(&nums[0], &prev[0]) && same_bits(&nums[1], &prev[1]) {
            // `true` from a range whose ends both stayed: one of them is claimed to be an answer
            let mut v1: Vec<&'static str> = Vec::new();
            let mut v2: Vec<&'static str> = Vec::new();
            let (i0, i1) = (safe_value(&prev[0], &mut viol), safe_value(&prev[1], &mut viol));
            check_some(i0, eacc, emd, mw, nums[0], denoms, slack, &mut v1);
            check_some(i1, eacc, emd, mw, nums[1], denoms, slack, &mut v2);
            if !v1.is_empty() && !v2.is_empty() {
                viol.extend(v1);
            }
        }
        steps.push(format!(
            "{} {}",
            if ok { 1 } else { 0 },
            nums.iter().map(num_tok).collect::<Vec<_>>().join(" & ")
        ));
    }
    viol.sort();
    viol.dedup();
    format!(
        "S {} ; DEV {} ; V {}",
        steps.join(" | "),
        worst_dev,
        if viol.is_empty() {
            "-".to_string()
        } else {
            viol.join(",")
        }
    )
}

fn main() {
    let denoms: Vec<u32> = std::env::var("C12_DENOMS")
        .unwrap_or_else(|_| "2,3,4,8,10,16".into())
        .split(',')
        .filter(|s| !s.is_empty())
        .map(|s| s.parse().expect("C12_DENOMS"))
        .collect();
    let clamp_den: Vec<u8> = std::env::var("C12_CLAMP_DEN")
        .unwrap_or_else(|_| "1,16".into())
        .split(',')
        .map(|s| s.parse().expect("C12_CLAMP_DEN"))
        .collect();
    let slack = 1.0 + 2f64.powi(-40);
    let mut cache: HashMap<(u32, u8, u32), Converter> = HashMap::new();
    drive(|f| {
        if f[0] == "S" {
            return seq_case(f, &denoms, (clamp_den[0], clamp_den[1]), slack, &mut cache);
        }
        let v = f64::from_bits(u64::from_str_radix(f[0], 16).expect("v bits"));
        let acc = f32::from_bits(u32::from_str_radix(f[1], 16).expect("acc bits"));
        let md: u8 = f[2].parse().expect("max_den");
        let mw: u32 = f[3].parse().expect("max_whole");
        let in_range = (0.0..=1.0).contains(&acc) && md <= 64;
        let mut viol: Vec<&'static str> = Vec::new();
        let r = guarded(|| Number::new_approx(v, acc, md, mw));
        let (res, disp, val): (String, String, String);
        match r {
            Err(_) => {
                res = "panic".into();
                disp = "-".into();
                val = "-".into();
                if in_range {
                    viol.push("panic");
                }
            }
            Ok(None) => {
                res = "none".into();
                disp = "-".into();
                val = "-".into();
                // integers within the limit come back as plain numbers
                if v.is_finite() && v > 0.0 && v.fract() == 0.0 && v <= mw as f64 {
                    if v == u32::MAX as f64 {
                        viol.push("integers_u32max");
                    } else {
                        viol.push("integers");
                    }
                }
            }
            Ok(Some(x)) => {
                let (shown, value) = check_some(v, acc, md, mw, x, &denoms, slack, &mut viol);
                val = f64_exact(value);
                res = num_tok(&x);
                disp = match shown {
                    Ok(s) => hex(&s),
                    Err(_) => "panic".into(),
                };
            }
        }
        viol.dedup();
        format!(
            "R {} ; D {} ; VAL {} ; V {}",
            res,
            disp,
            val,
            if viol.is_empty() {
                "-".to_string()
            } else {
                viol.join(",")
            }
        )
    });
}
