//! L-frac: `Number::new_approx`, `Number::value`, `Display for Number`.
//! Case line: `<f64 bits, 16 hex> <f32 accuracy bits, 8 hex> <max_den> <max_whole> [pert]`
//! (the optional 5th field is for the model side only).
//! Output: `R <panic|none|reg m e|frac w n d m e> ; D <hex|-> ; VAL <m e|-> ; V <violations|->`
//! The monitor (V) is the statement of C12 evaluated on what the implementation returned; the
//! supported denominators are read from env C12_DENOMS (regenerated from the source by the check).
use cooklang::quantity::Number;
use vh::*;

fn ulp(v: f64) -> f64 {
    let a = v.abs();
    if !a.is_finite() {
        return f64::NAN;
    }
    f64::from_bits(a.to_bits() + 1) - a
}

/// Independent reader of the printed forms `w`, `n/d`, `w n/d` -> (w, n, d)
fn read_printed(s: &str) -> Option<(u128, u128, u128)> {
    let num = |t: &str| -> Option<u128> {
        if t.is_empty() || !t.bytes().all(|b| b.is_ascii_digit()) {
            None
        } else {
            t.parse::<u128>().ok()
        }
    };
    let frac = |t: &str| -> Option<(u128, u128)> {
        let (a, b) = t.split_once('/')?;
        Some((num(a)?, num(b)?))
    };
    if let Some((w, r)) = s.split_once(' ') {
        let (n, d) = frac(r)?;
        Some((num(w)?, n, d))
    } else if s.contains('/') {
        let (n, d) = frac(s)?;
        Some((0, n, d))
    } else {
        Some((num(s)?, 0, 1))
    }
}

fn main() {
    let denoms: Vec<u32> = std::env::var("C12_DENOMS")
        .unwrap_or_else(|_| "2,3,4,8,10,16".into())
        .split(',')
        .filter(|s| !s.is_empty())
        .map(|s| s.parse().expect("C12_DENOMS"))
        .collect();
    let slack = 1.0 + 2f64.powi(-40);
    drive(|f| {
        let v = f64::from_bits(u64::from_str_radix(f[0], 16).expect("v bits"));
        let acc = f32::from_bits(u32::from_str_radix(f[1], 16).expect("acc bits"));
        let md: u8 = f[2].parse().expect("max_den");
        let mw: u32 = f[3].parse().expect("max_whole");
        let in_range = (0.0..=1.0).contains(&acc) && md <= 64;
        let mut viol: Vec<&str> = Vec::new();
        let r = guarded(|| Number::new_approx(v, acc, md, mw));
        let (res, disp, val): (String, String, String);
        match r {
            Err(_) => {
                res = "panic".into();
                disp = "-".into();
                val = "-".into();
                if in_range {
                    viol.push("panic");
                }
            }
            Ok(None) => {
                res = "none".into();
                disp = "-".into();
                val = "-".into();
                // integers within the limit come back as plain numbers
                if v.is_finite() && v > 0.0 && v.fract() == 0.0 && v <= mw as f64 {
                    if v == u32::MAX as f64 {
                        viol.push("integers_u32max");
                    } else {
                        viol.push("integers");
                    }
                }
            }
            Ok(Some(x)) => {
                let shown = guarded(|| format!("{}", x));
                // Number::value is part of the property ("whose exact value ..."): a panic in it
                // (debug overflow) is a violation with this input, not a harness failure
                let value = match guarded(|| x.value()) {
                    Ok(v) => v,
                    Err(_) => {
                        viol.push("value_panics");
                        f64::NAN
                    }
                };
                val = f64_exact(value);
                // declines
                if !(v.is_finite() && v > 0.0) {
                    viol.push("declines");
                } else {
                    // exact: value (fraction plus recorded error) equals the input
                    if !((value - v).abs() <= 4.0 * ulp(v)) {
                        viol.push("exact");
                    }
                    let max_err = acc as f64 * v;
                    match x {
                        Number::Regular(n) => {
                            if n.to_bits() != v.to_bits() {
                                viol.push("exact");
                            }
                            // plain numbers only for (near) integers within the limit
                            if !(v.fract() < 1e-10 * slack && v.trunc() <= mw as f64) {
                                viol.push("shape");
                            }
                            match &shown {
                                Ok(s) => match s.parse::<f64>() {
                                    Ok(p) if (p - v).abs() <= 0.00051 => {}
                                    _ => viol.push("display"),
                                },
                                Err(_) => viol.push("display"),
                            }
                        }
                        Number::Fraction {
                            whole,
                            num,
                            den,
                            err,
                        } => {
                            if !(err.abs() <= max_err * slack) {
                                viol.push("within");
                            }
                            if whole > mw {
                                viol.push("shape");
                            }
                            if num == 0 {
                                if whole == 0 || den == 0 {
                                    viol.push("shape");
                                }
                            } else if !(denoms.contains(&den) && den <= md as u32 && num < den) {
                                viol.push("shape");
                            }
                            let ok = match &shown {
                                Ok(s) => match read_printed(s) {
                                    Some((w, n, d)) if d != 0 && den != 0 => {
                                        // w + n/d == whole + num/den, exactly
                                        let (dd, de) = (d, den as u128);
                                        (w * dd + n) * de == (whole as u128 * de + num as u128) * dd
                                    }
                                    _ => false,
                                },
                                Err(_) => false,
                            };
                            if !ok {
                                viol.push("display");
                            }
                        }
                    }
                }
                res = match x {
                    Number::Regular(n) => format!("reg {}", f64_exact(n)),
                    Number::Fraction {
                        whole,
                        num,
                        den,
                        err,
                    } => format!("frac {} {} {} {}", whole, num, den, f64_exact(err)),
                };
                disp = match shown {
                    Ok(s) => hex(&s),
                    Err(_) => "panic".into(),
                };
            }
        }
        viol.dedup();
        format!(
            "R {} ; D {} ; VAL {} ; V {}",
            res,
            disp,
            val,
            if viol.is_empty() {
                "-".to_string()
            } else {
                viol.join(",")
            }
        )
    });
}
