//! C04, analysis-stage labels that are computed by arithmetic on the front matter text.
//!
//! Case: `<hex input>` (a document, normally with a YAML front matter).
//! Output: `Y <yaml_off> <hex yaml text>` (or `Y -` without front matter) ` ;; D <n>` followed, for
//! each analysis-stage diagnostic of `CooklangParser::parse` (all extensions, bundled converter)
//! whose labels come from `yaml_find_key_position` or from serde_yaml's error location, by
//!   `U <hex key> <k> <start>*k`   "Unsupported value for key: '<key>'" (event_consumer.rs 285-292)
//!   `T <k> <start>*k`             "Time overriden" (315-334): labels of prep time, cook time, time
//!   `E <k> <start>*k`             any other analysis diagnostic all of whose labels are positions: a front
//!                                 matter that serde_yaml rejected, labelled with the error location (241-250)
//!   `F <idx|-> <k> (<start> <end>)*k`  the diagnostic whose message is the Display of the error serde_yaml
//!                                 itself gives on the front matter text (the harness calls it the way
//!                                 process_frontmatter does, 238): the index of the error's location (`-`: the error
//!                                 has none) and ALL labels of the diagnostic with both ends (244-248)
//! A label that is not a position (start != end) is printed as `!`.  `P` = the parse panicked.
//! The message text is used only to tell which of the three diagnostics it is and, for U, to
//! recover the key the position was looked up for.
use cooklang::error::Stage;
use cooklang::parser::{Event, PullParser};
use cooklang::{Converter, CooklangParser, Extensions};
use vh::*;

fn main() {
    let conv = Converter::bundled();
    drive(|f| {
        let input = unhex(f[0]);
        let ext = Extensions::all();
        let y0 = match guarded(|| {
            PullParser::new(&input, ext).find_map(|e| match e {
                Event::YAMLFrontMatter(t) => Some((t.span().start(), t.text().into_owned())),
                _ => None,
            })
        }) {
            Ok(v) => v,
            Err(_) => return "P".to_string(),
        };
        let y = match &y0 {
            Some((off, text)) => format!("Y {} {}", off, hex(text)),
            None => "Y -".to_string(),
        };
        let has_fm = y != "Y -";
        // the oracle of Model/AnalysisLabels.v [FYamlErr]: serde_yaml's own verdict on the text
        let yaml_err: Option<(String, Option<usize>)> = match &y0 {
            Some((_, text)) => serde_yaml::from_str::<serde_yaml::Mapping>(text)
                .err()
                .map(|e| (e.to_string(), e.location().map(|l| l.index()))),
            None => None,
        };
        let parser = CooklangParser::new(ext, conv.clone());
        let res = match guarded(|| parser.parse(&input)) {
            Ok(r) => r,
            Err(_) => return "P".to_string(),
        };
        let mut out: Vec<String> = vec![];
        for d in res.report().iter() {
            if d.stage != Stage::Analysis {
                continue;
            }
            let labels: Vec<String> = d
                .labels
                .iter()
                .map(|(s, _)| if s.start() == s.end() { s.start().to_string() } else { "!".to_string() })
                .collect();
            let msg: &str = &d.message;
            if let Some((emsg, idx)) = &yaml_err {
                if msg == emsg {
                    let all: Vec<String> = d.labels.iter().map(|(s, _)| format!("{} {}", s.start(), s.end())).collect();
                    let idx = idx.map(|i| i.to_string()).unwrap_or_else(|| "-".to_string());
                    out.push(format!("F {} {} {}", idx, all.len(), all.join(" ")).trim_end().to_string());
                }
            }
            if let Some(rest) = msg.strip_prefix("Unsupported value for key: '") {
                // the front matter variant has no "this value" label text; the `>>` variant labels spans
                if has_fm && d.labels.iter().all(|(s, _)| s.start() == s.end()) {
                    let key = rest.strip_suffix('\'').unwrap_or(rest);
                    out.push(format!("U {} {} {}", hex(key), labels.len(), labels.join(" ")).trim_end().to_string());
                }
            } else if msg == "Time overriden" {
                out.push(format!("T {} {}", labels.len(), labels.join(" ")).trim_end().to_string());
            } else if has_fm && !labels.is_empty() && d.labels.iter().all(|(s, _)| s.start() == s.end()) {
                // no other analysis diagnostic has position labels only: a front matter that
                // serde_yaml rejected, labelled with the error's location
                out.push(format!("E {} {}", labels.len(), labels.join(" ")));
            }
        }
        format!("{} ;; D {}{}{}", y, out.len(), if out.is_empty() { "" } else { " " }, out.join(" "))
    });
}
