//! L-serde: serde_json round trip of ScalableRecipe / ScaledRecipe, observed next to a
//! serde-independent dump of the same recipe (public fields and getters; `{:?}` for the one field
//! without a getter).
//!
//! Cases
//!   R <hex recipe text> <ext bits> <variant>
//!        variant = u (as parsed) | d (default_scale) | s<factor> (scale) | t<n> (scale_to_servings),
//!        d/s/t optionally followed by +m or +i (convert to metric / imperial afterwards)
//!     -> `T <S|C> ;; J <hex json|-> ;; D <dump> ;; M <monitor> ;; K <class> ;; E <n convert errors> ;; M2 <monitor>`
//!        or `noparse`; M2 = the monitor on the same recipe with its metadata removed (only computed for
//!        the classes nsk / tag, else `-`)
//!        monitor: ok | ser_err | de_err | neq_dump (the structural dumps differ) | neq_float (they differ
//!        only in f64 values, each changed exactly as serde_json's print + parse changes that number) |
//!        neq_partialeq | reser_diff | panic
//!        class: `-` or a subset of nsk (a YAML mapping key that is not a string), tag (a tagged YAML
//!        value), nf (a non-finite number somewhere), fp (a finite f64 that serde_json does not parse
//!        back from its own text)
//!   M <S|C> <hex json>     from_str as ScalableRecipe / ScaledRecipe
//!     -> `acc <hex re-serialisation>` | `rej`
//!
//! Dump (prefix notation, blank separated):
//!   U | O<k> | B0 | B1 | N<number text> | S<hex> | n | s <v> | L<k> <v>* | R<k> (<field> <v>)* |
//!   V<variant> <payload> | F<k> <flag>* | Y <yaml>
//!   yaml: yn | yb0 | yb1 | yN<text> | yS<hex> | yL<k> <y>* | yM<k> (<y> <y>)* | yT<hex> <y>
//! Numbers are opaque atoms: the text serde_json prints for that number alone (the monitor uses a
//! second dump with the f64 bit patterns instead).
use cooklang::convert::System;
use cooklang::metadata::Metadata;
use cooklang::model::{
    ComponentRelation, Content, Cookware, Ingredient, IngredientReferenceTarget, IngredientRelation, Item,
    RecipeReference, Section, Step, Timer,
};
use cooklang::quantity::{Number, Quantity, ScalableValue, Value};
use cooklang::scale::{ScaleOutcome, Scaled, ScaledData};
use cooklang::{Converter, CooklangParser, Extensions, Modifiers, ScalableRecipe, ScaledRecipe};
use vh::*;

/// the oracle hypothesis of the model on one number: printing then parsing gives the same f64
fn reparses(v: f64) -> bool {
    serde_json::to_string(&v)
        .ok()
        .and_then(|t| serde_json::from_str::<f64>(&t).ok())
        .map(|w| w.to_bits() == v.to_bits())
        .unwrap_or(false)
}

/// do two bit-pattern dumps differ only in f64 tokens, each difference being exactly what
/// serde_json's own print + parse does to that number?
fn differs_only_by_reparse(a: &str, b: &str) -> bool {
    let (x, y): (Vec<&str>, Vec<&str>) = (a.split(' ').collect(), b.split(' ').collect());
    if x.len() != y.len() {
        return false;
    }
    let bits = |t: &str| -> Option<u64> {
        let h = t.strip_prefix("N#").or_else(|| t.strip_prefix("yN#"))?;
        u64::from_str_radix(h, 16).ok()
    };
    x.iter().zip(y.iter()).all(|(p, q)| {
        p == q
            || match (bits(p), bits(q)) {
                (Some(u), Some(w)) => {
                    let v = f64::from_bits(u);
                    serde_json::to_string(&v).ok().and_then(|t| serde_json::from_str::<f64>(&t).ok()).map(|r| r.to_bits())
                        == Some(w)
                }
                _ => false,
            }
    })
}

#[derive(Clone, Copy, PartialEq)]
enum Mode {
    Text,
    Bits,
}

struct D {
    o: String,
    mode: Mode,
    nonfinite: bool,
    nsk: bool,
    tag: bool,
    /// some finite f64 x with serde_json::from_str(&serde_json::to_string(&x)) != x
    inexact: bool,
}

impl D {
    fn new(mode: Mode) -> Self {
        D { o: String::new(), mode, nonfinite: false, nsk: false, tag: false, inexact: false }
    }
    fn tok(&mut self, t: &str) {
        if !self.o.is_empty() {
            self.o.push(' ');
        }
        self.o.push_str(t);
    }
    fn f64(&mut self, v: f64) {
        if !v.is_finite() {
            self.nonfinite = true;
        } else if !reparses(v) {
            self.inexact = true;
        }
        let t = match self.mode {
            Mode::Text => format!("N{}", serde_json::to_string(&v).unwrap()),
            Mode::Bits => format!("N#{:016x}", v.to_bits()),
        };
        self.tok(&t);
    }
    fn uint(&mut self, v: u64) {
        self.tok(&format!("N{}", v));
    }
    fn str(&mut self, s: &str) {
        self.tok(&format!("S{}", hex(s)));
    }
    fn opt<T>(&mut self, v: &Option<T>, mut f: impl FnMut(&mut D, &T)) {
        match v {
            None => self.tok("n"),
            Some(x) => {
                self.tok("s");
                f(self, x)
            }
        }
    }
    fn seq<T>(&mut self, v: &[T], mut f: impl FnMut(&mut D, &T)) {
        self.tok(&format!("L{}", v.len()));
        for x in v {
            f(self, x);
        }
    }
    fn rec(&mut self, n: usize) {
        self.tok(&format!("R{}", n));
    }
    fn field(&mut self, name: &str) {
        self.tok(name);
    }
    fn var(&mut self, name: &str) {
        self.tok(&format!("V{}", name));
    }
    fn unit(&mut self) {
        self.tok("U");
    }
    fn ostr(&mut self, v: &Option<String>) {
        self.opt(v, |d, s| d.str(s));
    }

    // ---- YAML
    fn yaml(&mut self, v: &serde_yaml::Value) {
        use serde_yaml::Value as Y;
        match v {
            Y::Null => self.tok("yn"),
            Y::Bool(b) => self.tok(if *b { "yb1" } else { "yb0" }),
            Y::Number(n) => {
                let t = if let Some(u) = n.as_u64() {
                    u.to_string()
                } else if let Some(i) = n.as_i64() {
                    i.to_string()
                } else {
                    let f = n.as_f64().unwrap();
                    if !f.is_finite() {
                        self.nonfinite = true;
                    } else if !reparses(f) {
                        self.inexact = true;
                    }
                    match self.mode {
                        Mode::Text => serde_json::to_string(&f).unwrap(),
                        Mode::Bits => format!("#{:016x}", f.to_bits()),
                    }
                };
                self.tok(&format!("yN{}", t));
            }
            Y::String(s) => self.tok(&format!("yS{}", hex(s))),
            Y::Sequence(l) => {
                self.tok(&format!("yL{}", l.len()));
                for x in l {
                    self.yaml(x);
                }
            }
            Y::Mapping(m) => self.ymap(m),
            Y::Tagged(t) => {
                self.tag = true;
                let name = t.tag.to_string();
                self.tok(&format!("yT{}", hex(name.strip_prefix('!').unwrap_or(&name))));
                self.yaml(&t.value);
            }
        }
    }
    fn ymap(&mut self, m: &serde_yaml::Mapping) {
        self.tok(&format!("yM{}", m.len()));
        for (k, v) in m {
            if !k.is_string() {
                self.nsk = true;
            }
            self.yaml(k);
            self.yaml(v);
        }
    }

    // ---- recipe types, fields in any order (the runner resolves them by name)
    fn metadata(&mut self, m: &Metadata) {
        self.rec(1);
        self.field("map");
        self.tok("Y");
        self.ymap(&m.map);
    }
    fn section(&mut self, s: &Section) {
        self.rec(2);
        self.field("name");
        self.ostr(&s.name);
        self.field("content");
        self.seq(&s.content, |d, c| d.content(c));
    }
    fn content(&mut self, c: &Content) {
        match c {
            Content::Step(s) => {
                self.var("Step");
                self.step(s)
            }
            Content::Text(t) => {
                self.var("Text");
                self.str(t)
            }
        }
    }
    fn step(&mut self, s: &Step) {
        self.rec(2);
        self.field("items");
        self.seq(&s.items, |d, i| d.item(i));
        self.field("number");
        self.uint(s.number as u64);
    }
    fn item(&mut self, i: &Item) {
        let (n, idx) = match i {
            Item::Text { value } => {
                self.var("Text");
                self.rec(1);
                self.field("value");
                self.str(value);
                return;
            }
            Item::Ingredient { index } => ("Ingredient", *index),
            Item::Cookware { index } => ("Cookware", *index),
            Item::Timer { index } => ("Timer", *index),
            Item::InlineQuantity { index } => ("InlineQuantity", *index),
        };
        self.var(n);
        self.rec(1);
        self.field("index");
        self.uint(idx as u64);
    }
    fn number(&mut self, n: &Number) {
        match n {
            Number::Regular(v) => {
                self.var("Regular");
                self.f64(*v)
            }
            Number::Fraction { whole, num, den, err } => {
                self.var("Fraction");
                self.rec(4);
                self.field("whole");
                self.uint(*whole as u64);
                self.field("num");
                self.uint(*num as u64);
                self.field("den");
                self.uint(*den as u64);
                self.field("err");
                self.f64(*err);
            }
        }
    }
    fn value(&mut self, v: &Value) {
        match v {
            Value::Number(n) => {
                self.var("Number");
                self.number(n)
            }
            Value::Range { start, end } => {
                self.var("Range");
                self.rec(2);
                self.field("start");
                self.number(start);
                self.field("end");
                self.number(end);
            }
            Value::Text(t) => {
                self.var("Text");
                self.str(t)
            }
        }
    }
    fn svalue(&mut self, v: &ScalableValue) {
        match v {
            ScalableValue::Fixed(x) => {
                self.var("Fixed");
                self.value(x)
            }
            ScalableValue::Linear(x) => {
                self.var("Linear");
                self.value(x)
            }
        }
    }
    fn modifiers(&mut self, m: Modifiers) {
        let all = [
            ("RECIPE", Modifiers::RECIPE),
            ("REF", Modifiers::REF),
            ("HIDDEN", Modifiers::HIDDEN),
            ("OPT", Modifiers::OPT),
            ("NEW", Modifiers::NEW),
        ];
        let set: Vec<&str> = all.iter().filter(|(_, f)| m.contains(*f)).map(|(n, _)| *n).collect();
        let known = all.iter().fold(Modifiers::empty(), |a, (_, f)| a | *f);
        let mut t = format!("F{}", set.len());
        for n in set {
            t.push(' ');
            t.push_str(n);
        }
        if !(m - known).is_empty() {
            t.push_str(" ?unknown_bits");
        }
        self.tok(&t);
    }
    fn crel(&mut self, r: &ComponentRelation) {
        match r {
            ComponentRelation::Definition { referenced_from, defined_in_step } => {
                self.var("Definition");
                self.rec(2);
                self.field("referenced_from");
                self.seq(referenced_from, |d, i| d.uint(*i as u64));
                self.field("defined_in_step");
                self.tok(if *defined_in_step { "B1" } else { "B0" });
            }
            ComponentRelation::Reference { references_to } => {
                self.var("Reference");
                self.rec(1);
                self.field("references_to");
                self.uint(*references_to as u64);
            }
        }
    }
    fn irel(&mut self, r: &IngredientRelation) {
        // the two fields are private: getters for the relation, `{:?}` for reference_target
        let dbg = format!("{:?}", r);
        let tgt = dbg.rsplit("reference_target: ").next().unwrap_or("");
        let target: Option<&str> = if tgt.starts_with("None") {
            None
        } else if tgt.starts_with("Some(Ingredient)") {
            Some("Ingredient")
        } else if tgt.starts_with("Some(Step)") {
            Some("Step")
        } else if tgt.starts_with("Some(Section)") {
            Some("Section")
        } else {
            Some("?")
        };
        self.rec(2);
        self.field("relation");
        if r.is_definition() {
            self.var("Definition");
            self.rec(2);
            self.field("referenced_from");
            self.seq(r.referenced_from(), |d, i| d.uint(*i as u64));
            self.field("defined_in_step");
            self.tok(if r.is_defined_in_step().unwrap_or(false) { "B1" } else { "B0" });
        } else {
            // references_to() unwraps the target: read the index from the Debug text when it is absent
            let idx = if target.is_some() {
                r.references_to().map(|(i, t)| {
                    let tn = match t {
                        IngredientReferenceTarget::Ingredient => "Ingredient",
                        IngredientReferenceTarget::Step => "Step",
                        IngredientReferenceTarget::Section => "Section",
                    };
                    assert_eq!(Some(tn), target, "getter and Debug disagree");
                    i as u64
                })
            } else {
                dbg.split("references_to: ").nth(1).and_then(|s| s.split(|c: char| !c.is_ascii_digit()).next()?.parse().ok())
            };
            self.var("Reference");
            self.rec(1);
            self.field("references_to");
            self.uint(idx.unwrap_or(u64::MAX));
        }
        self.field("reference_target");
        match target {
            None => self.tok("n"),
            Some(t) => {
                self.tok("s");
                self.var(t);
                self.unit();
            }
        }
    }
    fn reference(&mut self, r: &RecipeReference) {
        self.rec(2);
        self.field("name");
        self.str(&r.name);
        self.field("components");
        self.seq(&r.components, |d, s| d.str(s));
    }
    fn outcome(&mut self, o: &ScaleOutcome) {
        match o {
            ScaleOutcome::Scaled => {
                self.var("Scaled");
                self.unit()
            }
            ScaleOutcome::Fixed => {
                self.var("Fixed");
                self.unit()
            }
            ScaleOutcome::NoQuantity => {
                self.var("NoQuantity");
                self.unit()
            }
            ScaleOutcome::Error(e) => {
                self.var("Error");
                use cooklang::scale::ScaleError as E;
                let k = match e {
                    E::UndefinedError => 0,
                    E::TextValueError(_) => 1,
                    E::NotScalable { .. } => 2,
                    E::NotDefined { .. } => 3,
                };
                self.tok(&format!("O{}", k));
            }
        }
    }
    fn scaled_data(&mut self, s: &ScaledData) {
        self.rec(4);
        self.field("target");
        self.rec(1);
        self.field("factor");
        self.f64(s.target.factor());
        self.field("ingredients");
        self.seq(&s.ingredients, |d, o| d.outcome(o));
        self.field("cookware");
        self.seq(&s.cookware, |d, o| d.outcome(o));
        self.field("timers");
        self.seq(&s.timers, |d, o| d.outcome(o));
    }
}

trait DumpV: cooklang::quantity::QuantityValue {
    fn dump(&self, d: &mut D);
}
impl DumpV for Value {
    fn dump(&self, d: &mut D) {
        d.value(self)
    }
}
impl DumpV for ScalableValue {
    fn dump(&self, d: &mut D) {
        d.svalue(self)
    }
}

fn quantity<V: DumpV>(d: &mut D, q: &Quantity<V>) {
    d.rec(2);
    d.field("value");
    q.value().dump(d);
    d.field("unit");
    match q.unit() {
        None => d.tok("n"),
        Some(u) => {
            d.tok("s");
            d.str(u)
        }
    }
}

fn ingredient<V: DumpV>(d: &mut D, i: &Ingredient<V>) {
    d.rec(7);
    d.field("name");
    d.str(&i.name);
    d.field("alias");
    d.ostr(&i.alias);
    d.field("quantity");
    d.opt(&i.quantity, |d, q| quantity(d, q));
    d.field("note");
    d.ostr(&i.note);
    d.field("reference");
    d.opt(&i.reference, |d, r| d.reference(r));
    d.field("relation");
    d.irel(&i.relation);
    d.field("modifiers");
    d.modifiers(i.modifiers());
}

fn cookware<V: DumpV>(d: &mut D, c: &Cookware<V>) {
    d.rec(6);
    d.field("name");
    d.str(&c.name);
    d.field("alias");
    d.ostr(&c.alias);
    d.field("quantity");
    d.opt(&c.quantity, |d, q| q.dump(d));
    d.field("note");
    d.ostr(&c.note);
    d.field("relation");
    d.crel(&c.relation);
    d.field("modifiers");
    d.modifiers(c.modifiers());
}

fn timer<V: DumpV>(d: &mut D, t: &Timer<V>) {
    d.rec(2);
    d.field("name");
    d.ostr(&t.name);
    d.field("quantity");
    d.opt(&t.quantity, |d, q| quantity(d, q));
}

fn common<Dt, V: DumpV>(d: &mut D, r: &cooklang::model::Recipe<Dt, V>) {
    d.rec(7);
    d.field("metadata");
    d.metadata(&r.metadata);
    d.field("sections");
    d.seq(&r.sections, |d, s| d.section(s));
    d.field("ingredients");
    d.seq(&r.ingredients, |d, i| ingredient(d, i));
    d.field("cookware");
    d.seq(&r.cookware, |d, c| cookware(d, c));
    d.field("timers");
    d.seq(&r.timers, |d, t| timer(d, t));
    d.field("inline_quantities");
    d.seq(&r.inline_quantities, |d, q| quantity(d, q));
    d.field("data");
}

fn dump_scalable(r: &ScalableRecipe, mode: Mode) -> D {
    let mut d = D::new(mode);
    common(&mut d, r);
    match r.servings() {
        None => d.tok("n"),
        Some(s) => {
            d.tok("s");
            d.seq(s, |d, x| d.uint(*x as u64));
        }
    }
    d
}

fn dump_scaled(r: &ScaledRecipe, mode: Mode) -> D {
    let mut d = D::new(mode);
    common(&mut d, r);
    match r.scaled() {
        Scaled::DefaultScaling => {
            d.var("DefaultScaling");
            d.unit()
        }
        Scaled::Scaled(s) => {
            d.var("Scaled");
            d.scaled_data(s)
        }
    }
    d
}

/// the dump with every skipped payload reset to its Default (ScaleOutcome::Error(_) -> UndefinedError)
fn reset_skipped(dump: &str) -> String {
    dump.split(' ').map(|t| if t.starts_with('O') && t[1..].chars().all(|c| c.is_ascii_digit()) { "O0" } else { t })
        .collect::<Vec<_>>().join(" ")
}

fn class(d: &D) -> String {
    let mut k = Vec::new();
    if d.nsk {
        k.push("nsk");
    }
    if d.tag {
        k.push("tag");
    }
    if d.nonfinite {
        k.push("nf");
    }
    if d.inexact {
        k.push("fp");
    }
    if k.is_empty() { "-".into() } else { k.join(",") }
}

fn report(kind: &str, json: Option<&str>, d: &D, monitor: &str, nerr: usize) -> (String, String, String) {
    (
        format!("T {} ;; J {} ;; D {} ;; M {}", kind, json.map(hex).unwrap_or("-".into()), d.o, monitor),
        class(d),
        format!("E {}", nerr),
    )
}

/// parse, (optionally drop the metadata), scale / convert as asked, serialise, deserialise, compare
fn run_variant(
    parser: &CooklangParser,
    conv: &Converter,
    input: &str,
    scale: &str,
    system: Option<System>,
    strip_meta: bool,
) -> Option<(String, String, String)> {
    let mut rec = parser.parse(input).into_output()?;
    if strip_meta {
        rec.metadata.map = Default::default();
    }
    if scale == "u" {
        let d = dump_scalable(&rec, Mode::Text);
        let json = match serde_json::to_string(&rec) {
            Ok(j) => j,
            Err(_) => return Some(report("S", None, &d, "ser_err", 0)),
        };
        let back: ScalableRecipe = match serde_json::from_str(&json) {
            Ok(b) => b,
            Err(_) => return Some(report("S", Some(&json), &d, "de_err", 0)),
        };
        let (a, b) = (reset_skipped(&dump_scalable(&rec, Mode::Bits).o), dump_scalable(&back, Mode::Bits).o);
        let m = if a != b {
            if differs_only_by_reparse(&a, &b) { "neq_float" } else { "neq_dump" }
        } else if back != rec {
            "neq_partialeq"
        } else if serde_json::to_string(&back).ok().as_deref() != Some(&json) {
            "reser_diff"
        } else {
            "ok"
        };
        return Some(report("S", Some(&json), &d, m, 0));
    }
    let mut sc: ScaledRecipe = if scale == "d" {
        rec.default_scale()
    } else if let Some(x) = scale.strip_prefix('s') {
        rec.scale(x.parse::<f64>().unwrap(), conv)
    } else {
        rec.scale_to_servings(scale[1..].parse::<u32>().unwrap(), conv)
    };
    let mut nerr = 0;
    if let Some(sys) = system {
        nerr = sc.convert(sys, conv).len();
    }
    let d = dump_scaled(&sc, Mode::Text);
    let json = match serde_json::to_string(&sc) {
        Ok(j) => j,
        Err(_) => return Some(report("C", None, &d, "ser_err", nerr)),
    };
    let back: ScaledRecipe = match serde_json::from_str(&json) {
        Ok(b) => b,
        Err(_) => return Some(report("C", Some(&json), &d, "de_err", nerr)),
    };
    // ScaledRecipe has no PartialEq: the public fields have
    let peq = back.metadata == sc.metadata
        && back.sections == sc.sections
        && back.ingredients == sc.ingredients
        && back.cookware == sc.cookware
        && back.timers == sc.timers
        && back.inline_quantities == sc.inline_quantities;
    let (a, b) = (reset_skipped(&dump_scaled(&sc, Mode::Bits).o), dump_scaled(&back, Mode::Bits).o);
    let m = if a != b {
        if differs_only_by_reparse(&a, &b) { "neq_float" } else { "neq_dump" }
    } else if !peq {
        "neq_partialeq"
    } else if serde_json::to_string(&back).ok().as_deref() != Some(&json) {
        "reser_diff"
    } else {
        "ok"
    };
    Some(report("C", Some(&json), &d, m, nerr))
}

fn main() {
    let conv = Converter::bundled();
    let mut cache: Option<(u32, CooklangParser)> = None;
    drive(|f| {
        if f[0] == "M" {
            let js = unhex(f[2]);
            let res = guarded(|| {
                if f[1] == "S" {
                    serde_json::from_str::<ScalableRecipe>(&js).ok().map(|r| serde_json::to_string(&r).unwrap_or_default())
                } else {
                    serde_json::from_str::<ScaledRecipe>(&js).ok().map(|r| serde_json::to_string(&r).unwrap_or_default())
                }
            });
            return match res {
                Ok(Some(s)) => format!("acc {}", hex(&s)),
                Ok(None) => "rej".into(),
                Err(_) => "panic".into(),
            };
        }
        let input = unhex(f[1]);
        let bits = f[2].parse::<u32>().unwrap();
        if cache.as_ref().map(|c| c.0 != bits).unwrap_or(true) {
            cache = Some((bits, CooklangParser::new(Extensions::from_bits_truncate(bits), conv.clone())));
        }
        let parser = &cache.as_ref().unwrap().1;
        let variant = f[3];
        let (scale, system) = match variant.split_once('+') {
            Some((a, b)) => (a, Some(if b == "i" { System::Imperial } else { System::Metric })),
            None => (variant, None),
        };
        let res = guarded(|| {
            let (main, k, e) = match run_variant(parser, &conv, &input, scale, system, false) {
                Some(x) => x,
                None => return "noparse".to_string(),
            };
            // a recipe of the metadata class: the same recipe without its metadata must round-trip
            let m2 = if k.contains("nsk") || k.contains("tag") {
                match run_variant(parser, &conv, &input, scale, system, true) {
                    Some((line, _, _)) => line.rsplit(" ;; M ").next().unwrap_or("?").to_string(),
                    None => "?".into(),
                }
            } else {
                "-".into()
            };
            format!("{} ;; K {} ;; {} ;; M2 {}", main, k, e, m2)
        });
        match res {
            Ok(s) => s,
            Err(_) => "T ? ;; J - ;; D - ;; M panic ;; K - ;; E 0 ;; M2 -".into(),
        }
    });
}
