//! L-rec for C06: the analysis pass (src/analysis/event_consumer.rs) seen through its public API.
//!
//! Case: `<hex input> <extension bits> <converter 0=empty|1=bundled> <mutation>`
//!   mutation `-`  : the recipe comes from the real `CooklangParser::parse`
//!   mutation `d<k>`/`u<k>`/`s<k>`: the PullParser events with event k dropped / duplicated /
//!   swapped with its successor (k modulo the number of events) are fed to the public
//!   `analysis::parse_events` (a malformed stream; a panic of the collector is an outcome).
//!   mutation `j<k>`: self-test of the monitor.  The recipe of the real parse is damaged after the fact
//!   (tamper k modulo NTAMPER, see `tamper`) and then dumped and monitored; `R` starts with
//!   `tampered=<name>` (or `tampered=none` when that damage does not apply to this recipe).  The check
//!   compares the monitor's verdict with the proved decision procedure of the Coq statement on the
//!   same damaged recipe; such a recipe is never a finding about /repo.
//! Output: `EV <events> ;; OR <oracles> ;; R <recipe dump> ;; V <monitor>`
//!   EV: the events that were analysed, in the token encoding read by runner/analysis_main.ml
//!       (`panic` when the parser itself panicked - nothing to analyse)
//!   OR: answers of the external code the model treats as oracles (unicase classes of the
//!       component names, serde_yaml acceptance of the front matter, inline-quantity splits,
//!       converter unit classes)
//!   R : `valid=<0|1> <structure>` | `none` (no output) | `panic`; a quantity of an ingredient, a cookware
//!       item or a timer is one token `<t|n><f|l><unit hex or ->:<value>` (text/number, Fixed/Linear, unit,
//!       the Value inside the ScalableValue: see `value_tok`); inline quantities are counted (`iq <n>`)
//!   V : `-` or the comma separated names of the conjuncts of C06 that fail on this recipe.
use cooklang::analysis::parse_events;
use cooklang::model::{Content, IngredientReferenceTarget, Item};
use cooklang::parser::{
    BlockKind, Event, IntermediateRefMode, IntermediateTargetKind, PullParser, Quantity as PQuantity,
    QuantityValue as PQuantityValue,
};
use cooklang::quantity::{Quantity, ScalableValue, Value};
use cooklang::{Converter, CooklangParser, Extensions, Modifiers, ParseOptions, ScalableRecipe, Text};
use std::collections::BTreeMap;
use vh::*;

// ---------------------------------------------------------------- event encoding

fn is_soft(f: &cooklang::text::TextFragment) -> bool {
    format!("{:?}", f).starts_with("SoftBreak(")
}

fn text(t: &Text, o: &mut Vec<String>) {
    o.push(t.span().start().to_string());
    o.push(t.fragments().len().to_string());
    for f in t.fragments() {
        o.push(if is_soft(f) { "1".into() } else { "0".into() });
        o.push(hex(f.text()));
        o.push(f.start().to_string());
    }
}

fn opt_text(t: &Option<Text>, o: &mut Vec<String>) {
    match t {
        None => o.push("0".into()),
        Some(t) => {
            o.push("1".into());
            text(t, o)
        }
    }
}

fn num(v: f64, o: &mut Vec<String>) {
    let s = f64_exact(v);
    if s.contains(' ') {
        for p in s.split(' ') {
            o.push(p.to_string());
        }
    } else {
        o.push(s); // nan / inf / -inf
        o.push("0".into());
    }
}

fn qvalue(q: &PQuantityValue, o: &mut Vec<String>) {
    match q.value.value() {
        Value::Number(n) => {
            o.push("n".into());
            num(n.value(), o)
        }
        Value::Range { start, end } => {
            o.push("r".into());
            num(start.value(), o);
            num(end.value(), o)
        }
        Value::Text(t) => {
            o.push("t".into());
            o.push(hex(t))
        }
    }
    o.push(if q.scaling_lock.is_some() { "1".into() } else { "0".into() });
}

fn quantity(q: &Option<cooklang::Located<PQuantity>>, o: &mut Vec<String>) {
    match q {
        None => o.push("0".into()),
        Some(q) => {
            o.push("1".into());
            qvalue(&q.value().value, o);
            opt_text(&q.value().unit, o);
        }
    }
}

fn event(ev: &Event, o: &mut Vec<String>) {
    match ev {
        Event::YAMLFrontMatter(t) => {
            o.push("Y".into());
            text(t, o)
        }
        Event::Metadata { key, value } => {
            o.push("M".into());
            text(key, o);
            text(value, o)
        }
        Event::Section { name } => {
            o.push("S".into());
            opt_text(name, o)
        }
        Event::Start(k) => {
            o.push("B".into());
            o.push(if *k == BlockKind::Step { "1".into() } else { "0".into() })
        }
        Event::End(k) => {
            o.push("E".into());
            o.push(if *k == BlockKind::Step { "1".into() } else { "0".into() })
        }
        Event::Text(t) => {
            o.push("X".into());
            text(t, o)
        }
        Event::Ingredient(i) => {
            o.push("I".into());
            o.push(i.span().start().to_string());
            o.push(i.span().end().to_string());
            o.push(i.modifiers.value().bits().to_string());
            match &i.intermediate_data {
                None => o.push("0".into()),
                Some(d) => {
                    o.push("1".into());
                    o.push(if d.ref_mode == IntermediateRefMode::Relative { "1".into() } else { "0".into() });
                    o.push(if d.target_kind == IntermediateTargetKind::Section { "1".into() } else { "0".into() });
                    o.push(d.val.to_string());
                }
            }
            text(&i.name, o);
            opt_text(&i.alias, o);
            quantity(&i.quantity, o);
            opt_text(&i.note, o);
        }
        Event::Cookware(c) => {
            o.push("C".into());
            o.push(c.span().start().to_string());
            o.push(c.span().end().to_string());
            o.push(c.modifiers.value().bits().to_string());
            text(&c.name, o);
            opt_text(&c.alias, o);
            match &c.quantity {
                None => o.push("0".into()),
                Some(q) => {
                    o.push("1".into());
                    qvalue(q.value(), o)
                }
            }
            opt_text(&c.note, o);
        }
        Event::Timer(t) => {
            o.push("R".into());
            o.push(t.span().start().to_string());
            o.push(t.span().end().to_string());
            opt_text(&t.name, o);
            quantity(&t.quantity, o);
        }
        Event::Error(_) => {
            o.push("D".into());
            o.push("e".into())
        }
        Event::Warning(_) => {
            o.push("D".into());
            o.push("w".into())
        }
    }
}

// ---------------------------------------------------------------- oracles

/// The scan of `find_inline_quantity` (event_consumer.rs 1330-1413) restated over the public
/// `Converter::find_unit`: only where it splits matters.  Returns (before, after).
fn find_inline_quantity<'a>(text: &'a str, converter: &Converter) -> Option<(&'a str, &'a str)> {
    fn eat_word<'a>(text: &'a str, i: &mut usize) -> Option<&'a str> {
        let s = &text[*i..];
        let offset = s
            .find(|c: char| c.is_whitespace())
            .or(if !s.is_empty() { Some(s.len()) } else { None })?;
        let word = &s[..offset];
        *i += offset;
        Some(word)
    }
    fn eat_whitespace(text: &str, i: &mut usize) -> Option<()> {
        let offset = text[*i..].find(|c: char| !c.is_whitespace())?;
        *i += offset;
        Some(())
    }
    let mut i = 0;
    while let Some(offset) = text[i..].find(|c: char| c.is_ascii_digit()) {
        i += offset;
        let before = if i > 0 && text.as_bytes()[i - 1] == b'-' { &text[..i - 1] } else { &text[..i] };
        let w1 = eat_word(text, &mut i)?;
        let first_non_digit = w1.find(|c: char| !c.is_ascii_digit() && c != '.' && !c.is_whitespace());
        let (number, unit) = if let Some(mid) = first_non_digit {
            w1.split_at(mid)
        } else {
            let _ = eat_whitespace(text, &mut i);
            let w2 = eat_word(text, &mut i)?;
            (w1, w2)
        };
        let number = number.trim();
        let unit = unit.trim();
        let after = &text[i..];
        if number.parse::<f64>().is_err() {
            continue;
        }
        if converter.find_unit(unit).is_none() {
            continue;
        }
        return Some((before, after));
    }
    None
}

fn last_segment(s: &str) -> &str {
    match s.rfind(|c| c == '/' || c == '\\') {
        Some(p) => &s[p + 1..],
        None => s,
    }
}

struct Oracles {
    names: Vec<String>,
    yaml: BTreeMap<String, bool>,
    iq: BTreeMap<String, Option<(String, String)>>,
    units: BTreeMap<String, u8>,
}

fn collect_oracles(evs: &[Event], ext: Extensions, conv: &Converter) -> Oracles {
    let mut or = Oracles { names: vec![], yaml: BTreeMap::new(), iq: BTreeMap::new(), units: BTreeMap::new() };
    let mut add_name = |or: &mut Oracles, t: &Text| {
        let n = t.text_trimmed().into_owned();
        let l = last_segment(&n).to_string();
        for c in [n, l] {
            if !or.names.contains(&c) {
                or.names.push(c);
            }
        }
    };
    for ev in evs {
        match ev {
            Event::YAMLFrontMatter(t) => {
                let s = t.text().into_owned();
                let ok = guarded(|| serde_yaml::from_str::<serde_yaml::Mapping>(&s).is_ok()).unwrap_or(false);
                or.yaml.insert(s, ok);
            }
            Event::Text(t) if ext.contains(Extensions::INLINE_QUANTITIES) => {
                let mut hay = t.text().into_owned();
                loop {
                    if or.iq.contains_key(&hay) {
                        break;
                    }
                    match guarded(|| find_inline_quantity(&hay, conv).map(|(b, a)| (b.to_string(), a.to_string())))
                        .unwrap_or(None)
                    {
                        Some((b, a)) => {
                            or.iq.insert(hay.clone(), Some((b, a.clone())));
                            hay = a;
                        }
                        None => {
                            or.iq.insert(hay.clone(), None);
                            break;
                        }
                    }
                }
            }
            Event::Ingredient(i) => add_name(&mut or, &i.name),
            Event::Cookware(c) => add_name(&mut or, &c.name),
            Event::Timer(t) => {
                if let Some(q) = &t.quantity {
                    if let Some(u) = &q.value().unit {
                        let u = u.text_trimmed().into_owned();
                        let cls = match conv.find_unit(&u) {
                            None => 0,
                            Some(unit) => {
                                if unit.physical_quantity == cooklang::convert::PhysicalQuantity::Time {
                                    1
                                } else {
                                    2
                                }
                            }
                        };
                        or.units.insert(u, cls);
                    }
                }
            }
            _ => {}
        }
    }
    or
}

fn ci_eq(a: &str, b: &str) -> bool {
    unicase::UniCase::new(a) == unicase::UniCase::new(b)
}

/// `K n (name class)* Y n (text ok)* Q n (hay 0 | hay 1 before after)* U n (unit class)* H <0|1>`
/// H = 1 when unicase equality failed to be an equivalence on the names of this case.
fn render_oracles(or: &Oracles) -> String {
    let mut o: Vec<String> = vec![];
    // classes: id of the first earlier name that compares equal
    let mut reps: Vec<usize> = vec![];
    let mut cls: Vec<usize> = vec![];
    let mut sane = true;
    for (i, n) in or.names.iter().enumerate() {
        let hits: Vec<usize> = reps.iter().copied().filter(|r| ci_eq(&or.names[*r], n)).collect();
        if hits.len() > 1 || !ci_eq(n, n) {
            sane = false;
        }
        match hits.first() {
            Some(r) => {
                if !ci_eq(n, &or.names[*r]) {
                    sane = false;
                }
                cls.push(*r)
            }
            None => {
                reps.push(i);
                cls.push(i)
            }
        }
    }
    o.push("K".into());
    o.push(or.names.len().to_string());
    for (n, c) in or.names.iter().zip(cls.iter()) {
        o.push(hex(n));
        o.push(c.to_string());
    }
    o.push("Y".into());
    o.push(or.yaml.len().to_string());
    for (k, v) in &or.yaml {
        o.push(hex(k));
        o.push(if *v { "1".into() } else { "0".into() });
    }
    o.push("Q".into());
    o.push(or.iq.len().to_string());
    for (k, v) in &or.iq {
        o.push(hex(k));
        match v {
            None => o.push("0".into()),
            Some((b, a)) => {
                o.push("1".into());
                o.push(hex(b));
                o.push(hex(a));
            }
        }
    }
    o.push("U".into());
    o.push(or.units.len().to_string());
    for (k, v) in &or.units {
        o.push(hex(k));
        o.push(v.to_string());
    }
    o.push("H".into());
    o.push(if sane { "0".into() } else { "1".into() });
    o.join(" ")
}

// ---------------------------------------------------------------- recipe dump

fn opt_hex(s: Option<&str>) -> String {
    s.map(hex).unwrap_or_else(|| "-".into())
}

fn value_kind(v: &ScalableValue) -> (bool, bool) {
    // (is_text, fixed)
    match v {
        ScalableValue::Fixed(v) => (matches!(v, Value::Text(_)), true),
        ScalableValue::Linear(v) => (matches!(v, Value::Text(_)), false),
    }
}

/// the value the recipe holds, one token: `n:<m>:<e>` (a number, exactly m * 2^e as `vh::f64_exact`
/// prints it; `nan:0` / `inf:0` / `-inf:0` for a non-finite one), `r:<m>:<e>:<m>:<e>` (a range: start,
/// end), `t:<hex>` (a text).  A number is `Number::value()`, as in the event encoding above.
fn value_tok(v: &Value) -> String {
    fn n(v: f64) -> String {
        let mut o = vec![];
        num(v, &mut o);
        o.join(":")
    }
    match v {
        Value::Number(x) => format!("n:{}", n(x.value())),
        Value::Range { start, end } => format!("r:{}:{}", n(start.value()), n(end.value())),
        Value::Text(t) => format!("t:{}", hex(t)),
    }
}

fn qinfo(v: &ScalableValue, unit: Option<&str>) -> String {
    let (t, f) = value_kind(v);
    let inner = match v {
        ScalableValue::Fixed(x) | ScalableValue::Linear(x) => x,
    };
    format!("{}{}{}:{}", if t { "t" } else { "n" }, if f { "f" } else { "l" }, opt_hex(unit), value_tok(inner))
}

fn quantity_info(q: &Option<Quantity<ScalableValue>>) -> String {
    match q {
        None => "-".into(),
        Some(q) => qinfo(q.value(), q.unit()),
    }
}

fn rel(referenced_from: &[usize], dis: Option<bool>, to: Option<(usize, char)>) -> String {
    match to {
        Some((j, t)) => format!("r{}:{}", t, j),
        None => format!(
            "d{}:{}",
            if dis.unwrap_or(false) { 1 } else { 0 },
            if referenced_from.is_empty() {
                "-".to_string()
            } else {
                referenced_from.iter().map(|k| k.to_string()).collect::<Vec<_>>().join(",")
            }
        ),
    }
}

fn dump(r: &ScalableRecipe) -> String {
    let mut o: Vec<String> = vec![];
    o.push(format!("secs {}", r.sections.len()));
    for s in &r.sections {
        o.push(format!("sec {} {}", opt_hex(s.name.as_deref()), s.content.len()));
        for c in &s.content {
            match c {
                Content::Text(t) => o.push(format!("tx {}", hex(t))),
                Content::Step(st) => {
                    o.push(format!("st {} {}", st.number, st.items.len()));
                    for it in &st.items {
                        o.push(match it {
                            Item::Text { value } => format!("T {}", hex(value)),
                            Item::Ingredient { index } => format!("I {}", index),
                            Item::Cookware { index } => format!("C {}", index),
                            Item::Timer { index } => format!("M {}", index),
                            Item::InlineQuantity { index } => format!("Q {}", index),
                        });
                    }
                }
            }
        }
    }
    o.push(format!("ing {}", r.ingredients.len()));
    for i in &r.ingredients {
        let to = i.relation.references_to().map(|(j, t)| {
            (
                j,
                match t {
                    IngredientReferenceTarget::Ingredient => 'c',
                    IngredientReferenceTarget::Step => 's',
                    IngredientReferenceTarget::Section => 'e',
                },
            )
        });
        o.push(format!(
            "c {} {} {} {} {} {} {}",
            hex(&i.name),
            opt_hex(i.alias.as_deref()),
            quantity_info(&i.quantity),
            opt_hex(i.note.as_deref()),
            if i.reference.is_some() { 1 } else { 0 },
            i.modifiers().bits(),
            rel(i.relation.referenced_from(), i.relation.is_defined_in_step(), to)
        ));
    }
    o.push(format!("cw {}", r.cookware.len()));
    for c in &r.cookware {
        let to = c.relation.references_to().map(|j| (j, 'c'));
        o.push(format!(
            "c {} {} {} {} 0 {} {}",
            hex(&c.name),
            opt_hex(c.alias.as_deref()),
            c.quantity.as_ref().map(|v| qinfo(v, None)).unwrap_or_else(|| "-".into()),
            opt_hex(c.note.as_deref()),
            c.modifiers().bits(),
            rel(c.relation.referenced_from(), c.relation.is_defined_in_step(), to)
        ));
    }
    o.push(format!("tm {}", r.timers.len()));
    for t in &r.timers {
        o.push(format!("{} {}", opt_hex(t.name.as_deref()), quantity_info(&t.quantity)));
    }
    o.push(format!("iq {}", r.inline_quantities.len()));
    o.join(" ")
}

// ---------------------------------------------------------------- monitor: the statement of C06

/// generic view of the two tables with relations
struct Comp<'a> {
    name: &'a str,
    is_ref_mod: bool,
    referenced_from: &'a [usize],
    to: Option<(usize, IngredientReferenceTarget)>,
}

fn check_table(tbl: &[Comp], valid: bool, bad: &mut Vec<&'static str>, tag_rel: &'static str, tag_valid: &'static str) {
    for (i, c) in tbl.iter().enumerate() {
        if let Some((j, IngredientReferenceTarget::Ingredient)) = c.to {
            // points to an earlier definition of its kind that lists it back exactly once
            let ok = j < i
                && tbl[j].to.is_none()
                && tbl[j].referenced_from.iter().filter(|k| **k == i).count() == 1;
            if !ok {
                bad.push(tag_rel);
            }
            if valid && j < tbl.len() && !ci_eq(c.name, tbl[j].name) {
                bad.push(tag_valid);
            }
        }
        // the inverse: whoever is listed is a later reference to this one, listed once
        for (p, k) in c.referenced_from.iter().enumerate() {
            let ok = *k < tbl.len()
                && *k > i
                && tbl[*k].to == Some((i, IngredientReferenceTarget::Ingredient))
                && !c.referenced_from[..p].contains(k);
            if !ok {
                bad.push(tag_rel);
            }
        }
        if valid && c.is_ref_mod != c.to.is_some() {
            bad.push(tag_valid);
        }
    }
}

fn monitor(r: &ScalableRecipe, valid: bool) -> String {
    let mut bad: Vec<&'static str> = vec![];
    // indices address existing components; per kind they increase in document order
    let mut last: [Option<usize>; 4] = [None; 4];
    let mut located: Vec<Option<(usize, usize)>> = vec![None; r.ingredients.len()];
    for (si, s) in r.sections.iter().enumerate() {
        if s.is_empty() {
            bad.push("empty_section");
        }
        let mut expect = 1u32;
        for (ci, c) in s.content.iter().enumerate() {
            match c {
                Content::Text(t) => {
                    if t.is_empty() {
                        bad.push("empty_text");
                    }
                }
                Content::Step(st) => {
                    if st.number != expect {
                        bad.push("step_numbers");
                    }
                    expect += 1;
                    if st.items.is_empty() {
                        bad.push("empty_step");
                    }
                    for it in &st.items {
                        let (kind, index, len) = match it {
                            Item::Text { value } => {
                                if value.is_empty() {
                                    bad.push("empty_text_item");
                                }
                                continue;
                            }
                            Item::Ingredient { index } => (0, *index, r.ingredients.len()),
                            Item::Cookware { index } => (1, *index, r.cookware.len()),
                            Item::Timer { index } => (2, *index, r.timers.len()),
                            Item::InlineQuantity { index } => (3, *index, r.inline_quantities.len()),
                        };
                        if index >= len {
                            bad.push("index_range");
                            continue;
                        }
                        if let Some(l) = last[kind] {
                            if index <= l {
                                bad.push("document_order");
                            }
                        }
                        last[kind] = Some(index);
                        if kind == 0 {
                            located[index] = Some((si, ci));
                        }
                    }
                }
            }
        }
    }
    // relations
    let ing: Vec<Comp> = r
        .ingredients
        .iter()
        .map(|i| Comp {
            name: &i.name,
            is_ref_mod: i.modifiers().contains(Modifiers::REF),
            referenced_from: i.relation.referenced_from(),
            to: i.relation.references_to(),
        })
        .collect();
    check_table(&ing, valid, &mut bad, "ingredient_relation", "valid_reference");
    let cw: Vec<Comp> = r
        .cookware
        .iter()
        .map(|c| Comp {
            name: &c.name,
            is_ref_mod: c.modifiers().contains(Modifiers::REF),
            referenced_from: c.relation.referenced_from(),
            to: c.relation.references_to().map(|j| (j, IngredientReferenceTarget::Ingredient)),
        })
        .collect();
    check_table(&cw, valid, &mut bad, "cookware_relation", "valid_reference");
    // step and section references
    for (i, c) in ing.iter().enumerate() {
        match (c.to, located[i]) {
            (Some((j, IngredientReferenceTarget::Step)), Some((si, ci))) => {
                let ok = j < ci && r.sections[si].content.get(j).map(|c| c.is_step()).unwrap_or(false);
                if !ok {
                    bad.push("step_reference");
                }
            }
            (Some((j, IngredientReferenceTarget::Step)), None) => {
                // not shown in any step (components mode), so "the same section" is not defined: some
                // section has a step there (stricter than Model/AnalysisSpec.v, which is silent here)
                if !r.sections.iter().any(|s| s.content.get(j).map(|c| c.is_step()).unwrap_or(false)) {
                    bad.push("unlisted_step_reference");
                }
            }
            (Some((j, IngredientReferenceTarget::Section)), Some((si, _))) => {
                if j >= si {
                    bad.push("section_reference");
                }
            }
            (Some((j, IngredientReferenceTarget::Section)), None) => {
                if j >= r.sections.len() {
                    bad.push("unlisted_section_reference");
                }
            }
            _ => {}
        }
    }
    for t in &r.timers {
        if t.name.is_none() && t.quantity.is_none() {
            bad.push("timer");
        }
    }
    bad.sort();
    bad.dedup();
    if bad.is_empty() {
        "-".into()
    } else {
        bad.join(",")
    }
}

// ---------------------------------------------------------------- damaged recipes (monitor self-test)

const NTAMPER: usize = 16;

fn ing_rel(kind: &str, j: usize) -> cooklang::model::IngredientRelation {
    serde_json::from_value(serde_json::json!({"type": "reference", "references_to": j, "reference_target": kind}))
        .expect("IngredientRelation from JSON")
}

fn ing_def(rf: Vec<usize>, dis: bool) -> cooklang::model::IngredientRelation {
    serde_json::from_value(serde_json::json!({"type": "definition", "referenced_from": rf, "defined_in_step": dis}))
        .expect("IngredientRelation from JSON")
}

/// position (section, content index, item index) of the first step item satisfying `p`
fn find_item(r: &ScalableRecipe, p: impl Fn(&Item) -> bool) -> Option<(usize, usize, usize)> {
    for (si, s) in r.sections.iter().enumerate() {
        for (ci, c) in s.content.iter().enumerate() {
            if let Content::Step(st) = c {
                for (ii, it) in st.items.iter().enumerate() {
                    if p(it) {
                        return Some((si, ci, ii));
                    }
                }
            }
        }
    }
    None
}

fn step_mut(r: &mut ScalableRecipe, si: usize, ci: usize) -> &mut cooklang::model::Step {
    match &mut r.sections[si].content[ci] {
        Content::Step(st) => st,
        _ => unreachable!(),
    }
}

/// Damages `r` so that one conjunct of C06 fails; returns the name of the damage or None.
fn tamper(r: &mut ScalableRecipe, k: usize) -> Option<&'static str> {
    use cooklang::model::ComponentRelation as CR;
    let any_step = find_item(r, |_| true).map(|(si, ci, _)| (si, ci));
    let ing_item = find_item(r, |it| matches!(it, Item::Ingredient { .. }));
    match k % NTAMPER {
        0 => {
            let (si, ci) = any_step?;
            let n = r.ingredients.len();
            step_mut(r, si, ci).items.push(Item::Ingredient { index: n });
            Some("index_out_of_range")
        }
        1 => {
            let (si, ci, ii) = ing_item?;
            let it = step_mut(r, si, ci).items[ii].clone();
            step_mut(r, si, ci).items.push(it);
            Some("item_repeated")
        }
        2 => {
            let i = r.ingredients.iter().position(|g| !g.relation.referenced_from().is_empty())?;
            let mut rf = r.ingredients[i].relation.referenced_from().to_vec();
            rf.pop();
            let dis = r.ingredients[i].relation.is_defined_in_step().unwrap_or(false);
            r.ingredients[i].relation = ing_def(rf, dis);
            Some("back_link_removed")
        }
        3 => {
            let i = r.ingredients.iter().position(|g| !g.relation.referenced_from().is_empty())?;
            let mut rf = r.ingredients[i].relation.referenced_from().to_vec();
            rf.push(rf[0]);
            let dis = r.ingredients[i].relation.is_defined_in_step().unwrap_or(false);
            r.ingredients[i].relation = ing_def(rf, dis);
            Some("back_link_twice")
        }
        4 => {
            let i = r.ingredients.iter().position(|g| {
                matches!(g.relation.references_to(), Some((_, IngredientReferenceTarget::Ingredient)))
            })?;
            r.ingredients[i].relation = ing_rel("ingredient", i);
            Some("reference_to_itself")
        }
        5 => {
            let (si, ci, ii) = ing_item?;
            let _ = si;
            let idx = match step_mut(r, si, ci).items[ii] {
                Item::Ingredient { index } => index,
                _ => unreachable!(),
            };
            if idx >= r.ingredients.len() || r.ingredients[idx].relation.references_to().is_some()
                || !r.ingredients[idx].relation.referenced_from().is_empty() {
                return None;
            }
            r.ingredients[idx].relation = ing_rel("step", ci);
            Some("step_reference_to_own_step")
        }
        6 => {
            let (si, ci, ii) = ing_item?;
            let idx = match step_mut(r, si, ci).items[ii] {
                Item::Ingredient { index } => index,
                _ => unreachable!(),
            };
            if idx >= r.ingredients.len() || r.ingredients[idx].relation.references_to().is_some()
                || !r.ingredients[idx].relation.referenced_from().is_empty() {
                return None;
            }
            r.ingredients[idx].relation = ing_rel("section", si);
            Some("section_reference_to_own_section")
        }
        7 => {
            let (si, ci) = any_step?;
            step_mut(r, si, ci).number += 1;
            Some("step_number_off")
        }
        8 => {
            let (si, ci) = any_step?;
            step_mut(r, si, ci).items.clear();
            Some("step_emptied")
        }
        9 => {
            let s = r.sections.last_mut()?;
            s.content.push(Content::Text(String::new()));
            Some("empty_text_block")
        }
        10 => {
            let (si, ci) = any_step?;
            step_mut(r, si, ci).items.push(Item::Text { value: String::new() });
            Some("empty_text_item")
        }
        11 => {
            r.sections.push(cooklang::model::Section { name: None, content: vec![] });
            Some("empty_section")
        }
        12 => {
            let (si, ci) = any_step?;
            let n = r.timers.len();
            r.timers.push(cooklang::model::Timer { name: None, quantity: None });
            step_mut(r, si, ci).items.push(Item::Timer { index: n });
            Some("timer_without_name_and_quantity")
        }
        13 => {
            // a reference (REF modifier) turned into a definition, its back link removed: the relations
            // stay consistent, only "reference <-> REF modifier" of a valid result fails
            let i = r.ingredients.iter().position(|g| {
                matches!(g.relation.references_to(), Some((_, IngredientReferenceTarget::Ingredient)))
            })?;
            let (j, _) = r.ingredients[i].relation.references_to().unwrap();
            let rf: Vec<usize> = r.ingredients[j].relation.referenced_from().iter().copied().filter(|x| *x != i).collect();
            let dis = r.ingredients[j].relation.is_defined_in_step().unwrap_or(false);
            r.ingredients[j].relation = ing_def(rf, dis);
            r.ingredients[i].relation = ing_def(vec![], true);
            Some("ref_modifier_on_definition")
        }
        14 => {
            let i = r.ingredients.iter().position(|g| {
                matches!(g.relation.references_to(), Some((_, IngredientReferenceTarget::Ingredient)))
            })?;
            r.ingredients[i].name = "zz\u{1}zz".to_string();
            Some("reference_renamed")
        }
        _ => {
            let i = r.cookware.iter().position(|c| c.relation.references_to().is_some())?;
            r.cookware[i].relation = CR::Reference { references_to: i };
            Some("cookware_reference_to_itself")
        }
    }
}

// ---------------------------------------------------------------- driver

fn mutate<'a>(evs: &[Event<'a>], m: &str) -> Vec<Event<'a>> {
    let mut v: Vec<Event<'a>> = evs.to_vec();
    if v.is_empty() {
        return v;
    }
    let k = m[1..].parse::<usize>().unwrap_or(0) % v.len();
    match &m[..1] {
        "d" => {
            v.remove(k);
        }
        "u" => {
            let e = v[k].clone();
            v.insert(k, e);
        }
        "s" => {
            if k + 1 < v.len() {
                v.swap(k, k + 1);
            }
        }
        _ => {}
    }
    v
}

fn main() {
    let bundled = Converter::bundled();
    let empty = Converter::empty();
    drive(|f| {
        let input = unhex(f[0]);
        let ext = Extensions::from_bits_truncate(f[1].parse::<u32>().unwrap());
        let conv = if f[2] == "1" { &bundled } else { &empty };
        let mutation = f[3];
        let evs = match guarded(|| PullParser::new(&input, ext).collect::<Vec<_>>()) {
            Ok(v) => v,
            Err(_) => {
                // the parser panicked (C03's business); see what the full pipeline does
                let parser = CooklangParser::new(ext, conv.clone());
                let r = match guarded(|| {
                    let res = parser.parse(&input);
                    res.output().map(|r| (dump(r), monitor(r, res.is_valid()), res.is_valid()))
                }) {
                    Ok(Some((d, m, v))) => format!("R valid={} {} ;; V {}", if v { 1 } else { 0 }, d, m),
                    Ok(None) => "R none ;; V -".to_string(),
                    Err(_) => "R panic ;; V -".to_string(),
                };
                return format!("EV panic ;; OR - ;; {}", r);
            }
        };
        if let Some(k) = mutation.strip_prefix('j') {
            let k = k.parse::<usize>().unwrap_or(0);
            let or = collect_oracles(&evs, ext, conv);
            let parser = CooklangParser::new(ext, conv.clone());
            let r = match guarded(|| {
                let res = parser.parse(&input);
                let v = res.is_valid();
                res.into_output().map(|mut r| {
                    let name = tamper(&mut r, k).unwrap_or("none");
                    (name, dump(&r), monitor(&r, v), v)
                })
            }) {
                Ok(Some((n, d, m, v))) => format!("R tampered={} valid={} {} ;; V {}", n, if v { 1 } else { 0 }, d, m),
                Ok(None) => "R none ;; V -".to_string(),
                Err(_) => "R panic ;; V -".to_string(),
            };
            return format!("EV - ;; OR {} ;; {}", render_oracles(&or), r);
        }
        let evs = if mutation == "-" { evs } else { mutate(&evs, mutation) };
        let mut toks: Vec<String> = vec![evs.len().to_string()];
        for e in &evs {
            event(e, &mut toks);
        }
        let or = collect_oracles(&evs, ext, conv);
        let res = if mutation == "-" {
            let parser = CooklangParser::new(ext, conv.clone());
            guarded(|| {
                let res = parser.parse(&input);
                let v = res.is_valid();
                res.output().map(|r| (dump(r), monitor(r, v), v))
            })
        } else {
            let evs2 = evs.clone();
            guarded(|| {
                let res = parse_events(evs2.into_iter(), &input, ext, conv, ParseOptions::default());
                let v = res.is_valid();
                res.output().map(|r| (dump(r), monitor(r, v), v))
            })
        };
        let r = match res {
            Ok(Some((d, m, v))) => format!("R valid={} {} ;; V {}", if v { 1 } else { 0 }, d, m),
            Ok(None) => "R none ;; V -".to_string(),
            Err(_) => "R panic ;; V -".to_string(),
        };
        format!("EV {} ;; OR {} ;; {}", toks.join(" "), render_oracles(&or), r)
    });
}
