//! L-rec: full parse and metadata-only parse, rendered as one JSON object per case.
//! Case: `<hex input> <ext bits> <conv: e|b>`.
//! {"panic":null|"stage", "valid":b, "out":b, "recipe":<serde_json of ScalableRecipe>|null,
//!  "diags":[[sev,stage,[[s,e]..]]..], "meta":{"out":b,"valid":b,"map":<json>|null,"diags":[..]},
//!  "render":"ok"|"panic"}
use cooklang::{Converter, CooklangParser, Extensions};
use serde_json::{json, Value};
use vh::*;

fn diags(rep: &cooklang::error::SourceReport) -> Value {
    Value::Array(
        rep.iter()
            .map(|d| {
                json!([
                    if d.is_error() { "e" } else { "w" },
                    format!("{:?}", d.stage),
                    d.labels.iter().map(|(s, _)| json!([s.start(), s.end()])).collect::<Vec<_>>(),
                    d.message.to_string()
                ])
            })
            .collect(),
    )
}

fn main() {
    let bundled = Converter::bundled();
    let empty = Converter::empty();
    let mut cache: Option<(u32, bool, CooklangParser)> = None;
    drive(|f| {
        let input = unhex(f[0]);
        let bits = f[1].parse::<u32>().unwrap();
        let b = f[2] == "b";
        let fresh = match &cache {
            Some((cb, cv, _)) => *cb != bits || *cv != b,
            None => true,
        };
        if fresh {
            let conv = if b { bundled.clone() } else { empty.clone() };
            cache = Some((bits, b, CooklangParser::new(Extensions::from_bits_truncate(bits), conv)));
        }
        let parser = &cache.as_ref().unwrap().2;
        let mut o = json!({"panic": null});
        match guarded(|| parser.parse(&input)) {
            Err(_) => {
                o["panic"] = json!("parse");
            }
            Ok(r) => {
                o["valid"] = json!(r.is_valid());
                o["out"] = json!(r.has_output());
                o["diags"] = diags(r.report());
                o["recipe"] = match r.output() {
                    Some(rec) => serde_json::to_value(rec).unwrap_or(json!("unserializable")),
                    None => Value::Null,
                };
                let rendered = guarded(|| {
                    let mut buf = Vec::new();
                    r.report().write("f", &input, false, &mut buf).map(|_| buf.len())
                });
                o["render"] = json!(if matches!(rendered, Ok(Ok(_))) { "ok" } else { "panic" });
            }
        }
        match guarded(|| parser.parse_metadata(&input)) {
            Err(_) => {
                o["panic"] = json!("parse_metadata");
            }
            Ok(m) => {
                o["meta"] = json!({
                    "out": m.has_output(), "valid": m.is_valid(), "diags": diags(m.report()),
                    "map": match m.output() { Some(md) => serde_json::to_value(&md.map).unwrap_or(json!("unserializable")), None => Value::Null },
                });
            }
        }
        o.to_string()
    });
}
