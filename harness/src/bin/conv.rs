//! L-conv: `Converter::bundled()` observed through the public API:
//! `all_units`, `best_units`, `find_unit`, `Converter::convert`, `ScaledQuantity::{convert,fit}`.
//! Numbers are single tokens `m:e` (= m * 2^e, exact).  Case lines:
//!   D <i>                             unit number i of all_units()
//!   B <pq> <metric|imperial>          best list
//!   C <v> <from> <to>                 convert a number, key to key (+ conversion back)
//!   R <s> <e> <from> <to>             convert a range
//!   T <v> <a> <b> <c>                 a->b->c and a->c
//!   S <v> <from> <sys>                convert to the best unit of a system
//!   SR <s> <e> <from> <sys>
//!   QC <kind> <a> <b> <unit|-> <target>   ScaledQuantity::convert; target = u<hex> | smetric | simperial
//!   QF <kind> <a> <b> <unit|->            ScaledQuantity::fit
//!     kind n: a = number; r: a, b numbers; t: a = hex text; f: a = w,n,d,err (fraction)
//!   RC <hex recipe text> <metric|imperial> [f<factor>]
//!        ScaledRecipe::convert of the parsed recipe (default-scaled, or scaled by the factor) vs converting
//!        every quantity on its own; prints `rc <visited> <converted> <errors> | <dump before> | <dump after> |
//!        E <error kinds>` (see recipe_dump); the model (Model/RecipeConvert.v) converts the dump before
//! Output: `<result> ; V <violated predicates|->` where the V field is the C09 monitor evaluated
//! on what the implementation returned.
use cooklang::convert::{
    ConvertError, ConvertTo, ConvertUnit, ConvertValue, Converter, PhysicalQuantity, System, Unit,
};
use cooklang::quantity::{Number, Quantity, ScaledQuantity, Value};
use vh::*;

fn num_tok(v: f64) -> String {
    f64_exact(v).replace(' ', ":")
}

fn parse_num(t: &str) -> f64 {
    let (m, e) = t.split_once(':').expect("number token m:e");
    let m: i64 = m.parse().expect("mantissa");
    let e: i32 = e.parse().expect("exponent");
    (m as f64) * 2f64.powi(e)
}

fn pq_name(p: PhysicalQuantity) -> &'static str {
    match p {
        PhysicalQuantity::Volume => "volume",
        PhysicalQuantity::Mass => "mass",
        PhysicalQuantity::Length => "length",
        PhysicalQuantity::Temperature => "temperature",
        PhysicalQuantity::Time => "time",
    }
}

fn parse_pq(s: &str) -> PhysicalQuantity {
    match s {
        "volume" => PhysicalQuantity::Volume,
        "mass" => PhysicalQuantity::Mass,
        "length" => PhysicalQuantity::Length,
        "temperature" => PhysicalQuantity::Temperature,
        "time" => PhysicalQuantity::Time,
        _ => panic!("bad pq"),
    }
}

fn sys_name(s: Option<System>) -> &'static str {
    match s {
        Some(System::Metric) => "metric",
        Some(System::Imperial) => "imperial",
        None => "none",
    }
}

fn parse_sys(s: &str) -> System {
    match s {
        "metric" => System::Metric,
        "imperial" => System::Imperial,
        _ => panic!("bad system"),
    }
}

fn err_name(e: &ConvertError) -> &'static str {
    match e {
        ConvertError::NoUnit(_) => "nounit",
        ConvertError::TextValue(_) => "text",
        ConvertError::MixedQuantities { .. } => "mixed",
        ConvertError::BestUnitNotFound { .. } => "nobest",
        ConvertError::UnknownUnit(_) => "unknown",
    }
}

fn strs(v: &[std::sync::Arc<str>]) -> String {
    v.iter().map(|s| hex(s)).collect::<Vec<_>>().join(",")
}

/// |x - y| <= 2^-40 * max(|x|,|y|) + abs
fn close(x: f64, y: f64, abs: f64) -> bool {
    if !x.is_finite() || !y.is_finite() {
        return false;
    }
    (x - y).abs() <= 2f64.powi(-40) * x.abs().max(y.abs()) + abs
}

fn abs_tol(u: &Unit) -> f64 {
    if u.physical_quantity == PhysicalQuantity::Temperature {
        1e-9
    } else {
        0.0
    }
}

/// amount in the base unit of the physical quantity, from the public unit data
fn to_base(u: &Unit, v: f64) -> f64 {
    (v + u.difference) * u.ratio
}

fn num_dump(n: &Number) -> String {
    match n {
        Number::Regular(v) => format!("R({})", num_tok(*v)),
        Number::Fraction { whole, num, den, err } => {
            format!("F({},{},{},{})", whole, num, den, num_tok(*err))
        }
    }
}

fn q_dump(q: &ScaledQuantity) -> String {
    let v = match q.value() {
        Value::Number(n) => format!("n {}", num_dump(n)),
        Value::Range { start, end } => format!("r {} {}", num_dump(start), num_dump(end)),
        Value::Text(t) => format!("t {}", hex(t)),
    };
    let u = match q.unit() {
        Some(u) => hex(u),
        None => "-".to_string(),
    };
    format!("{} {}", v, u)
}

fn parse_quantity(kind: &str, a: &str, b: &str, unit: &str) -> ScaledQuantity {
    let value = match kind {
        "n" => Value::Number(Number::Regular(parse_num(a))),
        "r" => Value::Range {
            start: Number::Regular(parse_num(a)),
            end: Number::Regular(parse_num(b)),
        },
        "t" => Value::Text(unhex(a)),
        "f" => {
            let p: Vec<&str> = a.split(',').collect();
            Value::Number(Number::Fraction {
                whole: p[0].parse().unwrap(),
                num: p[1].parse().unwrap(),
                den: p[2].parse().unwrap(),
                err: parse_num(p[3]),
            })
        }
        _ => panic!("bad value kind"),
    };
    let unit = if unit == "-" { None } else { Some(unhex(unit)) };
    Quantity::new(value, unit)
}

/// both ends of a numeric value in the base unit
fn q_amount(q: &ScaledQuantity, c: &Converter) -> Option<(f64, f64, f64)> {
    let u = q.unit_info(c)?;
    match q.value() {
        Value::Number(n) => {
            let a = to_base(&u, n.value());
            Some((a, a, abs_tol(&u)))
        }
        Value::Range { start, end } => Some((
            to_base(&u, start.value()),
            to_base(&u, end.value()),
            abs_tol(&u),
        )),
        Value::Text(_) => None,
    }
}

fn in_best(c: &Converter, u: &Unit, sys: System) -> bool {
    c.best_units(u.physical_quantity, Some(sys))
        .iter()
        .any(|b| b.as_ref() == u)
}

fn h64(s: &str) -> String {
    use std::hash::{Hash, Hasher};
    let mut h = std::collections::hash_map::DefaultHasher::new();
    s.hash(&mut h);
    format!("h{:016x}", h.finish())
}

/// One slot per item, joined by " / ": `M <frame>`, `I <frame> <quantity|->`, `C <frame>`,
/// `T <name|-> <quantity|->`, `Q <quantity>`.  Frames are hashes of the Debug text of everything that
/// is not a visited quantity (metadata, sections and scaling data; an ingredient without its quantity;
/// a whole cookware item).  With `quantities == false` a present quantity is printed as `+`.
fn recipe_dump(r: &cooklang::ScaledRecipe, quantities: bool) -> String {
    let oq = |q: Option<&ScaledQuantity>| match q {
        None => "-".to_string(),
        Some(q) => {
            if quantities {
                q_dump(q)
            } else {
                "+".to_string()
            }
        }
    };
    let mut out = vec![format!(
        "M {}",
        h64(&format!("{:?}\u{1}{:?}\u{1}{:?}", r.metadata, r.sections, r.scaled()))
    )];
    for i in &r.ingredients {
        let mut fr = i.clone();
        fr.quantity = None;
        out.push(format!("I {} {}", h64(&format!("{:?}", fr)), oq(i.quantity.as_ref())));
    }
    for k in &r.cookware {
        out.push(format!("C {}", h64(&format!("{:?}", k))));
    }
    for t in &r.timers {
        let name = t.name.as_ref().map(|n| hex(n)).unwrap_or_else(|| "-".to_string());
        out.push(format!("T {} {}", name, oq(t.quantity.as_ref())));
    }
    for q in &r.inline_quantities {
        out.push(format!("Q {}", oq(Some(q))));
    }
    out.join(" / ")
}

fn finish(res: String, viol: Vec<&str>) -> String {
    let v = if viol.is_empty() { "-".to_string() } else { viol.join(",") };
    format!("{} ; V {}", res, v)
}

fn main() {
    let c = Converter::bundled();
    drive(|f| {
        let mut viol: Vec<&str> = Vec::new();
        let r = guarded(|| match f[0] {
            "D" => {
                let i: usize = f[1].parse().unwrap();
                match c.all_units().nth(i) {
                    None => "none".to_string(),
                    Some(u) => format!(
                        "unit {} {} {} {} N{} S{} A{}",
                        pq_name(u.physical_quantity),
                        sys_name(u.system),
                        num_tok(u.ratio),
                        num_tok(u.difference),
                        strs(&u.names),
                        strs(&u.symbols),
                        strs(&u.aliases)
                    ),
                }
            }
            "B" => {
                let l = c.best_units(parse_pq(f[1]), Some(parse_sys(f[2])));
                format!(
                    "best {}",
                    l.iter().map(|u| hex(u.symbol())).collect::<Vec<_>>().join(",")
                )
            }
            "C" => {
                let v = parse_num(f[1]);
                let (from, to) = (unhex(f[2]), unhex(f[3]));
                let expect_fail = match (c.find_unit(&from), c.find_unit(&to)) {
                    (Some(a), Some(b)) => a.physical_quantity != b.physical_quantity,
                    _ => true,
                };
                match c.convert(
                    ConvertValue::Number(v),
                    ConvertUnit::Key(&from),
                    ConvertTo::Unit(ConvertUnit::Key(&to)),
                ) {
                    Err(e) => {
                        if !expect_fail {
                            viol.push("unexpected_failure");
                        }
                        format!("err {}", err_name(&e))
                    }
                    Ok((ConvertValue::Number(w), u)) => {
                        if expect_fail {
                            viol.push("failure_expected");
                        } else {
                            let fu = c.find_unit(&from).unwrap();
                            if Some(&u) != c.find_unit(&to).as_ref() {
                                viol.push("target_unit");
                            }
                            if !close(to_base(&fu, v), to_base(&u, w), abs_tol(&u)) {
                                viol.push("amount");
                            }
                            match c.convert(
                                ConvertValue::Number(w),
                                ConvertUnit::Key(&to),
                                ConvertTo::Unit(ConvertUnit::Key(&from)),
                            ) {
                                Ok((ConvertValue::Number(back), _)) => {
                                    if !close(back, v, abs_tol(&u)) {
                                        viol.push("there_and_back");
                                    }
                                }
                                _ => viol.push("there_and_back"),
                            }
                        }
                        format!("ok {} {}", num_tok(w), hex(u.symbol()))
                    }
                    Ok(_) => {
                        viol.push("shape");
                        "shape".to_string()
                    }
                }
            }
            "R" => {
                let (s, e) = (parse_num(f[1]), parse_num(f[2]));
                let (from, to) = (unhex(f[3]), unhex(f[4]));
                let expect_fail = match (c.find_unit(&from), c.find_unit(&to)) {
                    (Some(a), Some(b)) => a.physical_quantity != b.physical_quantity,
                    _ => true,
                };
                match c.convert(
                    ConvertValue::Range(s..=e),
                    ConvertUnit::Key(&from),
                    ConvertTo::Unit(ConvertUnit::Key(&to)),
                ) {
                    Err(e) => {
                        if !expect_fail {
                            viol.push("unexpected_failure");
                        }
                        format!("err {}", err_name(&e))
                    }
                    Ok((ConvertValue::Range(r), u)) => {
                        if expect_fail {
                            viol.push("failure_expected");
                        } else {
                            let fu = c.find_unit(&from).unwrap();
                            if !close(to_base(&fu, s), to_base(&u, *r.start()), abs_tol(&u))
                                || !close(to_base(&fu, e), to_base(&u, *r.end()), abs_tol(&u))
                            {
                                viol.push("amount");
                            }
                        }
                        format!("ok {} {} {}", num_tok(*r.start()), num_tok(*r.end()), hex(u.symbol()))
                    }
                    Ok(_) => {
                        viol.push("shape");
                        "shape".to_string()
                    }
                }
            }
            "T" => {
                let v = parse_num(f[1]);
                let (a, b, d) = (unhex(f[2]), unhex(f[3]), unhex(f[4]));
                let one = |v: f64, x: &str, y: &str| -> Option<f64> {
                    match c.convert(
                        ConvertValue::Number(v),
                        ConvertUnit::Key(x),
                        ConvertTo::Unit(ConvertUnit::Key(y)),
                    ) {
                        Ok((ConvertValue::Number(w), _)) => Some(w),
                        _ => None,
                    }
                };
                let via = one(v, &a, &b).and_then(|w| one(w, &b, &d));
                let direct = one(v, &a, &d);
                match (via, direct) {
                    (Some(x), Some(y)) => {
                        let tol = abs_tol(&c.find_unit(&d).unwrap());
                        if !close(x, y, tol) {
                            viol.push("via_third");
                        }
                        format!("ok {} {}", num_tok(x), num_tok(y))
                    }
                    (None, None) => "err".to_string(),
                    _ => {
                        viol.push("via_third");
                        "err".to_string()
                    }
                }
            }
            "S" | "SR" => {
                let range = f[0] == "SR";
                let (val, from, sys) = if range {
                    (
                        ConvertValue::Range(parse_num(f[1])..=parse_num(f[2])),
                        unhex(f[3]),
                        parse_sys(f[4]),
                    )
                } else {
                    (ConvertValue::Number(parse_num(f[1])), unhex(f[2]), parse_sys(f[3]))
                };
                let fu = c.find_unit(&from);
                match c.convert(val.clone(), ConvertUnit::Key(&from), ConvertTo::Best(sys)) {
                    Err(e) => {
                        if fu.is_some() {
                            viol.push("unexpected_failure");
                        }
                        format!("err {}", err_name(&e))
                    }
                    Ok((w, u)) => {
                        match &fu {
                            None => viol.push("failure_expected"),
                            Some(fu) => {
                                if !in_best(&c, &u, sys) || u.physical_quantity != fu.physical_quantity {
                                    viol.push("best_member");
                                }
                                let ok = match (&val, &w) {
                                    (ConvertValue::Number(a), ConvertValue::Number(b)) => {
                                        close(to_base(fu, *a), to_base(&u, *b), abs_tol(&u))
                                    }
                                    (ConvertValue::Range(a), ConvertValue::Range(b)) => {
                                        close(to_base(fu, *a.start()), to_base(&u, *b.start()), abs_tol(&u))
                                            && close(to_base(fu, *a.end()), to_base(&u, *b.end()), abs_tol(&u))
                                    }
                                    _ => false,
                                };
                                if !ok {
                                    viol.push("amount");
                                }
                            }
                        }
                        match w {
                            ConvertValue::Number(b) => format!("ok {} {}", num_tok(b), hex(u.symbol())),
                            ConvertValue::Range(b) => format!(
                                "ok {} {} {}",
                                num_tok(*b.start()),
                                num_tok(*b.end()),
                                hex(u.symbol())
                            ),
                        }
                    }
                }
            }
            "RC" => {
                // ScaledRecipe::convert: monitored against converting each quantity on its own, and dumped
                // (before and after) for the comparison with Model/RecipeConvert.v
                let text = unhex(f[1]);
                let sys = parse_sys(f[2]);
                let parser = cooklang::CooklangParser::new(cooklang::Extensions::all(), c.clone());
                let Some(rec) = parser.parse(&text).into_output() else {
                    return "rc invalid".to_string();
                };
                let mut scaled = match f.get(3) {
                    Some(fac) => rec.scale(parse_num(fac.strip_prefix('f').expect("factor f<m:e>")), &c),
                    None => rec.default_scale(),
                };
                let visited = |r: &cooklang::ScaledRecipe| -> Vec<ScaledQuantity> {
                    r.ingredients.iter().filter_map(|i| i.quantity.clone())
                        .chain(r.timers.iter().filter_map(|t| t.quantity.clone()))
                        .chain(r.inline_quantities.iter().cloned())
                        .collect()
                };
                let originals = visited(&scaled);
                // (result of converting alone, failed)
                let expect: Vec<(ScaledQuantity, bool)> = originals
                    .iter()
                    .map(|q| {
                        let mut x = q.clone();
                        let failed = x.convert(sys, &c).is_err();
                        (x, failed)
                    })
                    .collect();
                let dump_in = recipe_dump(&scaled, true);
                let frame_before = recipe_dump(&scaled, false);
                let errors = scaled.convert(sys, &c);
                let dump_out = recipe_dump(&scaled, true);
                let got = visited(&scaled);
                if frame_before != recipe_dump(&scaled, false) || got.len() != expect.len() {
                    viol.push("recipe_frame");
                }
                let nfail = expect.iter().filter(|e| e.1).count();
                if errors.len() != nfail {
                    viol.push("recipe_errors");
                }
                for ((g, (e, failed)), o) in got.iter().zip(expect.iter()).zip(originals.iter()) {
                    if format!("{:?}", g) != format!("{:?}", e) {
                        viol.push("recipe_vs_quantity");
                    }
                    let is_text = matches!(o.value(), Value::Text(_));
                    let known = o.unit_info(&c);
                    // exactly the text / unit-less / unknown-unit quantities fail (every physical quantity of the
                    // bundled table has designated units in both systems)
                    if *failed != (is_text || known.is_none()) {
                        viol.push(if *failed { "unexpected_failure" } else { "failure_expected" });
                    }
                    if *failed {
                        if format!("{:?}", g) != format!("{:?}", o) {
                            viol.push("failure_frame");
                        }
                        continue;
                    }
                    // a converted quantity sits in a designated unit of the target system, of the same physical
                    // quantity, and keeps its amount (both ends)
                    match (g.unit_info(&c), known) {
                        (Some(gu), Some(ou)) => {
                            if !in_best(&c, &gu, sys) || gu.physical_quantity != ou.physical_quantity {
                                viol.push("best_member");
                            }
                            match (q_amount(o, &c), q_amount(g, &c)) {
                                (Some((a0, a1, _)), Some((b0, b1, tol))) => {
                                    if !close(a0, b0, tol) || !close(a1, b1, tol) {
                                        viol.push("amount");
                                    }
                                }
                                _ => viol.push("amount"),
                            }
                        }
                        _ => viol.push("best_member"),
                    }
                }
                viol.sort();
                viol.dedup();
                let enames: Vec<&str> = errors.iter().map(err_name).collect();
                format!(
                    "rc {} {} {} | {} | {} | E {}",
                    got.len(),
                    got.len() - nfail,
                    errors.len(),
                    dump_in,
                    dump_out,
                    if enames.is_empty() { "-".to_string() } else { enames.join(",") }
                )
            }
            "QC" | "QF" => {
                let before = parse_quantity(f[1], f[2], f[3], f[4]);
                let mut q = before.clone();
                let is_text = matches!(before.value(), Value::Text(_));
                let known = before.unit_info(&c);
                let (res, expect_fail, target_sys, target_unit): (
                    Result<(), ConvertError>,
                    bool,
                    Option<System>,
                    Option<std::sync::Arc<Unit>>,
                );
                if f[0] == "QF" {
                    res = q.fit(&c);
                    // fit leaves unknown / missing units alone; text with a known unit is an error
                    expect_fail = known.is_some() && is_text;
                    target_sys = known.as_ref().map(|u| u.system.unwrap_or(c.default_system()));
                    target_unit = None;
                } else {
                    let t = f[5];
                    if let Some(key) = t.strip_prefix('u') {
                        let key = unhex(&format!("x{}", key));
                        res = q.convert(key.as_str(), &c);
                        let tu = c.find_unit(&key);
                        expect_fail = is_text
                            || known.is_none()
                            || match (&known, &tu) {
                                (Some(a), Some(b)) => a.physical_quantity != b.physical_quantity,
                                _ => true,
                            };
                        target_sys = None;
                        target_unit = tu;
                    } else {
                        let sys = parse_sys(&t[1..]);
                        res = q.convert(sys, &c);
                        expect_fail = is_text || known.is_none();
                        target_sys = Some(sys);
                        target_unit = None;
                    }
                }
                let head = match &res {
                    Ok(()) => "ok".to_string(),
                    Err(e) => format!("err {}", err_name(e)),
                };
                match &res {
                    Err(_) => {
                        if !expect_fail {
                            viol.push("unexpected_failure");
                        }
                        // frame: the quantity is exactly what it was
                        if q_dump(&q) != q_dump(&before) {
                            viol.push("failure_frame");
                        }
                    }
                    Ok(()) => {
                        if expect_fail {
                            viol.push("failure_expected");
                        }
                        if known.is_none() {
                            if q_dump(&q) != q_dump(&before) {
                                viol.push("failure_frame");
                            }
                        } else if !is_text {
                            match (q_amount(&before, &c), q_amount(&q, &c)) {
                                (Some((a0, a1, _)), Some((b0, b1, tol))) => {
                                    if !close(a0, b0, tol) || !close(a1, b1, tol) {
                                        viol.push("amount");
                                    }
                                }
                                _ => viol.push("amount"),
                            }
                            let nu = q.unit_info(&c);
                            if let (Some(nu), Some(k)) = (&nu, &known) {
                                if nu.physical_quantity != k.physical_quantity {
                                    viol.push("best_member");
                                }
                                if let Some(sys) = target_sys {
                                    if !in_best(&c, nu, sys) {
                                        viol.push("best_member");
                                    }
                                }
                                if let Some(tu) = &target_unit {
                                    if tu != nu {
                                        viol.push("target_unit");
                                    }
                                }
                            } else {
                                viol.push("best_member");
                            }
                        }
                    }
                }
                format!("{} ; {}", head, q_dump(&q))
            }
            _ => panic!("unknown case kind"),
        });
        match r {
            Ok(s) => finish(s, viol),
            Err(_) => finish("panic".to_string(), vec!["panic"]),
        }
    })
}
