//! L-cls: character classes of the implementation. Case: `<code point>`.
//! Output: `alpha zs punct ws alnum numeric` as 0/1.
use vh::*;
fn main() {
    drive(|f| {
        let cp: u32 = f[0].parse().unwrap();
        match char::from_u32(cp) {
            None => "0 0 0 0 0 0".into(),
            Some(c) => {
                let (a, z, p, w, n, d) = cooklang::verif_hooks::char_class(c);
                format!("{} {} {} {} {} {}", a as u8, z as u8, p as u8, w as u8, n as u8, d as u8)
            }
        }
    });
}
