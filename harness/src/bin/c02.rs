//! C02 monitor: one input parsed under a whole group of extension sets, results compared.
//!
//! Groups come from the environment: `C02_GROUPS="name=1,2,3;other=0,8"` (decimal `Extensions` bits).
//! Case: `<hex input> <conv: e|b> <group name | explicit comma list of sets> <f|s>`
//!   f = always print the canonical result of the first set; s = only when the group disagrees.
//! Case `U <conv>`: prints the JSON list of every key (name, symbol, alias) the converter knows,
//!   each with 1 when the unit measures time (used by the generator's `core` predicate).
//!
//! The canonical result of one parse is the JSON text of
//!   {"valid":b,"out":b,"diags":[[sev,stage,[[start,end]..]]..],"recipe":<serde_json of the recipe>|null}
//! (serde_json::Value keeps object keys sorted; message wording is not part of it).
//! Output, one JSON object per case:
//!   {"n":sets,"k":distinct results,"panic":[sets that panicked],"err":b (some set: error diag or !valid),
//!    "warn":b,"classes":[[representative set, how many sets]..],"first":[set,canon]|null,"other":[set,canon]|null}
use cooklang::{Converter, CooklangParser, Extensions};
use serde_json::{json, Value};
use std::collections::HashMap;
use vh::*;

fn canon(parser: &CooklangParser, input: &str) -> Result<(String, bool, bool), String> {
    guarded(|| {
        let r = parser.parse(input);
        let mut err = !r.is_valid();
        let mut warn = false;
        let diags: Vec<Value> = r
            .report()
            .iter()
            .map(|d| {
                if d.is_error() {
                    err = true;
                } else {
                    warn = true;
                }
                json!([
                    if d.is_error() { "e" } else { "w" },
                    format!("{:?}", d.stage),
                    d.labels.iter().map(|(s, _)| json!([s.start(), s.end()])).collect::<Vec<_>>()
                ])
            })
            .collect();
        let recipe = match r.output() {
            Some(rec) => serde_json::to_value(rec).unwrap_or(json!("unserializable")),
            None => Value::Null,
        };
        let o = json!({"valid": r.is_valid(), "out": r.has_output(), "diags": diags, "recipe": recipe});
        (o.to_string(), err, warn)
    })
}

fn parse_sets(s: &str) -> Vec<u32> {
    s.split(',').filter(|x| !x.is_empty()).map(|x| x.parse::<u32>().unwrap()).collect()
}

fn main() {
    let bundled = Converter::bundled();
    let empty = Converter::empty();
    let mut groups: HashMap<String, Vec<u32>> = HashMap::new();
    if let Ok(g) = std::env::var("C02_GROUPS") {
        for part in g.split(';') {
            if let Some((name, sets)) = part.split_once('=') {
                groups.insert(name.to_string(), parse_sets(sets));
            }
        }
    }
    // one parser per (set, converter), built on first use
    let mut parsers: HashMap<(u32, bool), CooklangParser> = HashMap::new();
    drive(|f| {
        if f[0] == "U" {
            let c = if f[1] == "b" { &bundled } else { &empty };
            let mut keys: Vec<(String, u8)> = Vec::new();
            for u in c.all_units() {
                let t = (u.physical_quantity == cooklang::convert::PhysicalQuantity::Time) as u8;
                for k in u.names.iter().chain(&u.symbols).chain(&u.aliases) {
                    keys.push((k.to_string(), t));
                }
            }
            keys.sort();
            return json!(keys).to_string();
        }
        let input = unhex(f[0]);
        let b = f[1] == "b";
        let sets: Vec<u32> = match groups.get(f[2]) {
            Some(v) => v.clone(),
            None => parse_sets(f[2]),
        };
        let full = f.len() > 3 && f[3] == "f";
        let mut classes: Vec<(u32, usize, String)> = Vec::new();
        let mut panics: Vec<u32> = Vec::new();
        let mut err = false;
        let mut warn = false;
        for &e in &sets {
            let parser = parsers.entry((e, b)).or_insert_with(|| {
                let conv = if b { bundled.clone() } else { empty.clone() };
                CooklangParser::new(Extensions::from_bits_truncate(e), conv)
            });
            let c = match canon(parser, &input) {
                Ok((c, e1, w1)) => {
                    err |= e1;
                    warn |= w1;
                    c
                }
                Err(_) => {
                    panics.push(e);
                    err = true;
                    "panic".to_string()
                }
            };
            match classes.iter_mut().find(|(_, _, s)| *s == c) {
                Some(cl) => cl.1 += 1,
                None => classes.push((e, 1, c)),
            }
        }
        let k = classes.len();
        let first = if !classes.is_empty() && (full || k > 1) {
            json!([classes[0].0, classes[0].2])
        } else {
            Value::Null
        };
        let other = if k > 1 { json!([classes[1].0, classes[1].2]) } else { Value::Null };
        json!({
            "n": sets.len(), "k": k, "panic": panics, "err": err, "warn": warn,
            "classes": classes.iter().map(|(e, n, _)| json!([e, n])).collect::<Vec<_>>(),
            "first": first, "other": other
        })
        .to_string()
    });
}
