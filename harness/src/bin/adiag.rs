//! L-diag for C07: the Analysis-stage diagnostics of `CooklangParser::parse` (severity and label
//! spans, in order) and the answers of the external code that Model/AnalysisDiag.v treats as oracles.
//!
//! Case: `<hex input> <extension bits> <converter e|b>`
//! Output: `D <diags> ;; P <0|1> ;; OR <oracles>`  |  `panic`
//!   D : `-` or `|`-separated `<e|w>:<s>-<e>,<s>-<e>..` (a diagnostic without label: `<e|w>:`), the
//!       diagnostics of stage Analysis in report order
//!   P : 1 when the report holds a Parse-stage error (then the analysis diagnostics were discarded)
//!   OR: `K n (name class)*`  unicase classes of the component names (trimmed name and its last path
//!                            segment): the index of the first name that compares equal
//!       `U n (unit class pq)*` converter.find_unit of every unit text: class 0 unknown / 1 time / 2 other,
//!                            pq = discriminant of its physical quantity + 1 (0 = unknown)
//!       `Y n (text ok idx nbad key* t p c)*` per front matter text: serde_yaml accepts it as a mapping; the
//!                            byte index of the error location (`-`: none); the string keys, in order,
//!                            that are standard keys with a rejected value; contains_key of
//!                            "time" / "prep time" / "cook time"
//!       `M n (key value ok)*`  per `>>` entry whose trimmed key is a standard key: its value is accepted
//!       `A n cp*`              the alphanumeric code points among the characters of the Text events
//!   The acceptance of a standard value is `check_std_entry` (metadata.rs:550-590, pub(crate)) restated
//!   through the public accessors of `CooklangValueExt` it is made of.
use cooklang::convert::PhysicalQuantity;
use cooklang::metadata::{CooklangValueExt, StdKey};
use cooklang::parser::{Event, PullParser};
use cooklang::{Converter, CooklangParser, Extensions, Text};
use std::collections::{BTreeMap, BTreeSet};
use std::str::FromStr;
use vh::*;

fn last_segment(s: &str) -> &str {
    match s.rfind(|c| c == '/' || c == '\\') {
        Some(p) => &s[p + 1..],
        None => s,
    }
}

fn ci_eq(a: &str, b: &str) -> bool {
    unicase::UniCase::new(a) == unicase::UniCase::new(b)
}

fn pq_id(p: PhysicalQuantity) -> u8 {
    match p {
        PhysicalQuantity::Volume => 1,
        PhysicalQuantity::Mass => 2,
        PhysicalQuantity::Length => 3,
        PhysicalQuantity::Temperature => 4,
        PhysicalQuantity::Time => 5,
    }
}

/// check_std_entry(key, value, converter).is_ok()
fn std_ok(key: StdKey, value: &serde_yaml::Value, conv: &Converter) -> bool {
    match key {
        StdKey::Servings => value.as_servings().is_some(),
        StdKey::Tags => value.as_tags().is_some(),
        StdKey::Time => value.as_time(conv).is_some(),
        StdKey::PrepTime | StdKey::CookTime => value.as_minutes(conv).is_some(),
        StdKey::Title | StdKey::Description => value.as_str().is_some(),
        StdKey::Locale => value.as_locale().is_some(),
        StdKey::Author | StdKey::Source => value.as_name_and_url().is_some(),
        _ => true,
    }
}

fn main() {
    let bundled = Converter::bundled();
    let empty = Converter::empty();
    let mut cache: Option<(u32, bool, CooklangParser)> = None;
    drive(|f| {
        let input = unhex(f[0]);
        let bits = f[1].parse::<u32>().unwrap();
        let ext = Extensions::from_bits_truncate(bits);
        let b = f[2] == "b";
        let conv = if b { &bundled } else { &empty };
        let fresh = match &cache {
            Some((cb, cv, _)) => *cb != bits || *cv != b,
            None => true,
        };
        if fresh {
            cache = Some((bits, b, CooklangParser::new(ext, conv.clone())));
        }
        let parser = &cache.as_ref().unwrap().2;
        let res = match guarded(|| parser.parse(&input)) {
            Ok(r) => r,
            Err(_) => return "panic".to_string(),
        };
        let mut ds: Vec<String> = vec![];
        let mut perr = false;
        for d in res.report().iter() {
            let stage = format!("{:?}", d.stage);
            if stage == "Parse" {
                if d.is_error() {
                    perr = true;
                }
                continue;
            }
            let labels: Vec<String> = d.labels.iter().map(|(s, _)| format!("{}-{}", s.start(), s.end())).collect();
            ds.push(format!("{}:{}", if d.is_error() { "e" } else { "w" }, labels.join(",")));
        }
        let evs = match guarded(|| PullParser::new(&input, ext).collect::<Vec<_>>()) {
            Ok(v) => v,
            Err(_) => return "panic".to_string(),
        };
        // ---- oracles
        let mut names: Vec<String> = vec![];
        let mut units: BTreeMap<String, (u8, u8)> = BTreeMap::new();
        let mut yamls: Vec<String> = vec![];
        let mut metas: Vec<String> = vec![];
        let mut alnum: BTreeSet<u32> = BTreeSet::new();
        let mut add_name = |names: &mut Vec<String>, t: &Text| {
            let n = t.text_trimmed().into_owned();
            let l = last_segment(&n).to_string();
            for c in [n, l] {
                if !names.contains(&c) {
                    names.push(c);
                }
            }
        };
        let mut add_unit = |units: &mut BTreeMap<String, (u8, u8)>, u: &Text| {
            let u = u.text_trimmed().into_owned();
            let v = match conv.find_unit(&u) {
                None => (0, 0),
                Some(unit) => (if unit.physical_quantity == PhysicalQuantity::Time { 1 } else { 2 }, pq_id(unit.physical_quantity)),
            };
            units.insert(u, v);
        };
        for ev in &evs {
            match ev {
                Event::YAMLFrontMatter(t) => {
                    let s = t.text().into_owned();
                    let mut o = vec![hex(&s)];
                    match guarded(|| serde_yaml::from_str::<serde_yaml::Mapping>(&s)) {
                        Ok(Ok(map)) => {
                            o.push("1".into());
                            o.push("-".into());
                            let mut bad: Vec<String> = vec![];
                            for (k, v) in map.iter() {
                                if let Some(sk) = k.as_str().and_then(|s| StdKey::from_str(s).ok()) {
                                    if !std_ok(sk, v, conv) {
                                        bad.push(hex(k.as_str().unwrap()));
                                    }
                                }
                            }
                            o.push(bad.len().to_string());
                            o.extend(bad);
                            for k in ["time", "prep time", "cook time"] {
                                o.push(if map.contains_key(k) { "1".into() } else { "0".into() });
                            }
                        }
                        Ok(Err(e)) => {
                            o.push("0".into());
                            o.push(match e.location() {
                                Some(l) => l.index().to_string(),
                                None => "-".into(),
                            });
                            o.extend(["0".to_string(), "0".into(), "0".into(), "0".into()]);
                        }
                        Err(_) => return "panic".to_string(),
                    }
                    yamls.push(o.join(" "));
                }
                Event::Metadata { key, value } => {
                    let k = key.text_trimmed().into_owned();
                    let v = value.text_outer_trimmed().into_owned();
                    if let Ok(sk) = StdKey::from_str(&k) {
                        let ok = std_ok(sk, &serde_yaml::Value::String(v.clone()), conv);
                        metas.push(format!("{} {} {}", hex(&k), hex(&v), if ok { 1 } else { 0 }));
                    }
                }
                Event::Text(t) => {
                    for c in t.text().chars() {
                        if c.is_alphanumeric() {
                            alnum.insert(c as u32);
                        }
                    }
                }
                Event::Ingredient(i) => {
                    add_name(&mut names, &i.name);
                    if let Some(q) = &i.quantity {
                        if let Some(u) = &q.unit {
                            add_unit(&mut units, u);
                        }
                    }
                }
                Event::Cookware(c) => add_name(&mut names, &c.name),
                Event::Timer(t) => {
                    if let Some(q) = &t.quantity {
                        if let Some(u) = &q.unit {
                            add_unit(&mut units, u);
                        }
                    }
                }
                _ => {}
            }
        }
        let mut o: Vec<String> = vec!["K".into(), names.len().to_string()];
        let mut reps: Vec<usize> = vec![];
        for (i, n) in names.iter().enumerate() {
            let c = match reps.iter().copied().find(|r| ci_eq(&names[*r], n)) {
                Some(r) => r,
                None => {
                    reps.push(i);
                    i
                }
            };
            o.push(hex(n));
            o.push(c.to_string());
        }
        o.push("U".into());
        o.push(units.len().to_string());
        for (u, (c, p)) in &units {
            o.push(hex(u));
            o.push(c.to_string());
            o.push(p.to_string());
        }
        o.push("Y".into());
        o.push(yamls.len().to_string());
        o.extend(yamls);
        o.push("M".into());
        o.push(metas.len().to_string());
        o.extend(metas);
        o.push("A".into());
        o.push(alnum.len().to_string());
        o.extend(alnum.iter().map(|c| c.to_string()));
        format!(
            "D {} ;; P {} ;; OR {}",
            if ds.is_empty() { "-".to_string() } else { ds.join("|") },
            if perr { 1 } else { 0 },
            o.join(" ")
        )
    });
}
