//! Shared helpers of the verification harness binaries.
//!
//! Line protocol (shared with the OCaml runner): a case file has one case per
//! line, fields separated by single blanks; strings are `x` followed by the
//! lowercase hex of their UTF-8 bytes (so the empty string is `x`), integers
//! are decimal.  Output: one line per case, same conventions.

use std::io::{BufRead, Write};
use std::panic::{catch_unwind, AssertUnwindSafe};

pub fn hex(s: &str) -> String {
    hexb(s.as_bytes())
}

pub fn hexb(b: &[u8]) -> String {
    let mut o = String::with_capacity(1 + 2 * b.len());
    o.push('x');
    for c in b {
        o.push_str(&format!("{:02x}", c));
    }
    o
}

pub fn unhex_bytes(s: &str) -> Vec<u8> {
    let s = s.strip_prefix('x').expect("hex field must start with x");
    let b = s.as_bytes();
    assert!(b.len() % 2 == 0, "odd hex length");
    let v = |c: u8| -> u8 {
        match c {
            b'0'..=b'9' => c - b'0',
            b'a'..=b'f' => c - b'a' + 10,
            _ => panic!("bad hex digit"),
        }
    };
    (0..b.len() / 2).map(|i| v(b[2 * i]) * 16 + v(b[2 * i + 1])).collect()
}

pub fn unhex(s: &str) -> String {
    String::from_utf8(unhex_bytes(s)).expect("case strings must be UTF-8")
}

/// Silence the default panic hook (we report panics as values).
pub fn quiet_panics() {
    std::panic::set_hook(Box::new(|_| {}));
}

/// Run `f`, mapping a panic to `Err(message)`.
pub fn guarded<T>(f: impl FnOnce() -> T) -> Result<T, String> {
    match catch_unwind(AssertUnwindSafe(f)) {
        Ok(v) => Ok(v),
        Err(e) => {
            let msg = if let Some(s) = e.downcast_ref::<&str>() {
                s.to_string()
            } else if let Some(s) = e.downcast_ref::<String>() {
                s.clone()
            } else {
                "panic".to_string()
            };
            Err(msg)
        }
    }
}

/// Drive a binary: read the case file given as argv[1] (or stdin), call `f`
/// on each non-empty line, print what it returns.
pub fn drive(mut f: impl FnMut(&[&str]) -> String) {
    quiet_panics();
    let args: Vec<String> = std::env::args().collect();
    let reader: Box<dyn BufRead> = if args.len() > 1 && args[1] != "-" {
        Box::new(std::io::BufReader::new(
            std::fs::File::open(&args[1]).expect("cannot open case file"),
        ))
    } else {
        Box::new(std::io::BufReader::new(std::io::stdin()))
    };
    // per-case watchdog: a case that runs longer than VH_CASE_TIMEOUT_MS (default 20 s) is a hang;
    // the process reports which line it was on stderr (`HANG line=<n>`, 0-based among non-empty
    // lines) and exits with status 3, so that the check can name the input
    use std::sync::atomic::{AtomicU64, Ordering};
    static CUR: AtomicU64 = AtomicU64::new(u64::MAX);
    static SINCE: AtomicU64 = AtomicU64::new(0);
    let limit: u64 = std::env::var("VH_CASE_TIMEOUT_MS").ok().and_then(|s| s.parse().ok()).unwrap_or(20000);
    let t0 = std::time::Instant::now();
    std::thread::spawn(move || loop {
        std::thread::sleep(std::time::Duration::from_millis(200));
        let cur = CUR.load(Ordering::SeqCst);
        if cur != u64::MAX {
            let now = t0.elapsed().as_millis() as u64;
            if now.saturating_sub(SINCE.load(Ordering::SeqCst)) > limit && CUR.load(Ordering::SeqCst) == cur {
                eprintln!("HANG line={}", cur);
                std::process::exit(3);
            }
        }
    });
    let stdout = std::io::stdout();
    let mut out = std::io::BufWriter::new(stdout.lock());
    let mut idx: u64 = 0;
    for line in reader.lines() {
        let line = line.expect("read");
        if line.is_empty() {
            continue;
        }
        let fields: Vec<&str> = line.split(' ').collect();
        SINCE.store(t0.elapsed().as_millis() as u64, Ordering::SeqCst);
        CUR.store(idx, Ordering::SeqCst);
        let r = f(&fields);
        CUR.store(u64::MAX, Ordering::SeqCst);
        idx += 1;
        writeln!(out, "{}", r).unwrap();
    }
    out.flush().unwrap();
}

/// f64 as an exact rational `m e` meaning m * 2^e (m, e decimal integers),
/// or `nan` / `inf` / `-inf`.
pub fn f64_exact(v: f64) -> String {
    if v.is_nan() {
        return "nan".into();
    }
    if v.is_infinite() {
        return if v > 0.0 { "inf".into() } else { "-inf".into() };
    }
    if v == 0.0 {
        return "0 0".into();
    }
    let bits = v.to_bits();
    let sign: i128 = if bits >> 63 == 1 { -1 } else { 1 };
    let exp = ((bits >> 52) & 0x7ff) as i64;
    let frac = bits & 0xfffffffffffff;
    let (mut m, mut e) = if exp == 0 {
        (frac as i128, -1074i64)
    } else {
        ((frac | (1u64 << 52)) as i128, exp - 1075)
    };
    while m % 2 == 0 {
        m /= 2;
        e += 1;
    }
    format!("{} {}", sign * m, e)
}
/// independent comment scanner: true for every byte inside a `-- ...` or `[- ... -]` comment,
/// honouring backslash escapes; starts at byte `from`.
pub fn comment_mask(input: &str, from: usize) -> Vec<bool> {
    let b = input.as_bytes();
    let mut m = vec![false; b.len()];
    let cs: Vec<(usize, char)> = input.char_indices().filter(|(i, _)| *i >= from).collect();
    let mut k = 0;
    while k < cs.len() {
        let (i, c) = cs[k];
        let next = cs.get(k + 1).map(|x| x.1);
        if c == '\\' {
            k += 2;
        } else if c == '-' && next == Some('-') {
            let mut j = k;
            while j < cs.len() && cs[j].1 != '\n' {
                j += 1;
            }
            let end = if j < cs.len() { cs[j].0 } else { b.len() };
            for x in i..end {
                m[x] = true;
            }
            k = j;
        } else if c == '[' && next == Some('-') {
            let mut j = k + 2;
            let mut end = b.len();
            let mut nk = cs.len();
            while j < cs.len() {
                if cs[j].1 == '-' && cs.get(j + 1).map(|x| x.1) == Some(']') {
                    end = cs[j + 1].0 + 1;
                    nk = j + 2;
                    break;
                }
                j += 1;
            }
            for x in i..end {
                m[x] = true;
            }
            k = nk;
        } else {
            k += 1;
        }
    }
    m
}

pub mod evcanon;
