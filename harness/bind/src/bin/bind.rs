fn main() {
    let r = cooklang_bindings::parse_recipe("a @b{1%g}".to_string(), 2.0);
    println!("{:?}", r);
}
