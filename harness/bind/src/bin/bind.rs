//! L-bind: the bindings (compiled as an rlib by ../bshim from /repo/bindings/src/lib.rs) next to the
//! core parser, on the same inputs.  Cases (first field = kind):
//!
//!   P <hex input> <factor m^e>
//!       core: CooklangParser::canonical().parse(input) -> scale(factor); bindings: parse_recipe(input, factor),
//!       then deref_component on every step item and deref_ingredient/cookware/timer on every entry of
//!       every section reference list.
//!       -> `P ok ; K <sections> ; KI <ingredients> ; KC <cookware> ; KT <timers> ; KM <metadata>
//!              ; B <sections> ; BI .. ; BC .. ; BT .. ; BM .. ; D <deref of items> ; R <deref of section lists>`
//!          `P invalid <ok|panic>`      the core parser rejects the input (what the bindings did with it)
//!          `P bpanic <hex message>`    the core parser accepts, parse_recipe panicked
//!   C <ingredients> <indices>
//!       ingredients `name|qty|note` joined by `,` (`-` = none), built as core ingredients and converted with
//!       the bindings' public `From<&cooklang::Ingredient>`; indices joined by `.` (`-` = none)
//!       -> `C <selected> ; <all> ; <sub> ; L <the list as the bindings hold it>`
//!          selected = combine_ingredients_selected(list, indices), all = combine_ingredients(list),
//!          sub = combine_ingredients(the sublist named by the indices) or `-` when an index is out of range;
//!          each is an ingredient list sorted by name, or `panic:<hex message>`
//!
//! Formats.  value: `n:<m^e>` | `r:<m^e>:<m^e>` | `t:<hex>` | `e`;  quantity/amount: `<value>@<unit hex|->` or `-`;
//! core ingredient `name|qty|note`, cookware `name|value`, timer `name|qty`; bindings ingredient
//! `name|amount|descriptor`, cookware `name|amount`, timer `name|amount`.  Items: `t<hex>` `i<n>` `c<n>` `m<n>`
//! `q<n>` joined by `+`.  Core section `title~content` with content `S<items>` / `T<hex>` joined by `,`;
//! bindings section `title~blocks~irefs~crefs~trefs` with blocks `S<items>/<irefs>/<crefs>/<trefs>` / `T<hex>`,
//! reference lists joined by `.`.  Sections joined by `!`.  Ingredient list: `name=<unit>/<kind>/<value>,..`
//! joined by `+`, names and keys sorted by their bytes.  Empty list = `-` (reference lists: empty).
//!
//! `Amount`'s fields are crate-private: they are read from the record's `Debug` rendering (parsed, with
//! Rust's string escapes undone); the value is cross-checked through the public `combine_ingredients` on a singleton
//! (`READERR` is printed if the two readings differ).
use cooklang::quantity::{Number, Quantity, Value as CValue};
use cooklang::{Content, CooklangParser, Item as CItem};
use cooklang_bindings::model::{
    Amount, Block, Component, Cookware, CooklangRecipe, Ingredient, IngredientList, Item, QuantityType, Timer,
    Value,
};
use cooklang_bindings::{
    combine_ingredients, combine_ingredients_selected, deref_component, deref_cookware, deref_ingredient,
    deref_timer, parse_recipe,
};
use vh::*;

fn ftok(v: f64) -> String {
    let s = f64_exact(v);
    if s.contains(' ') {
        s.replace(' ', "^")
    } else {
        s
    }
}

fn tok_f64(s: &str) -> f64 {
    // m^e, exactly representable by construction
    let (m, e) = s.split_once('^').expect("m^e");
    let m: f64 = m.parse::<i64>().expect("mantissa") as f64;
    let e: i32 = e.parse().expect("exponent");
    m * (2.0f64).powi(e)
}

fn opt_hex(s: &Option<String>) -> String {
    match s {
        Some(x) => hex(x),
        None => "-".into(),
    }
}

fn list_or_dash(v: Vec<String>, sep: &str) -> String {
    if v.is_empty() {
        "-".into()
    } else {
        v.join(sep)
    }
}

// ---------------------------------------------------------------- core side

fn cvalue(v: &CValue) -> String {
    match v {
        CValue::Number(n) => format!("n:{}", ftok(n.value())),
        CValue::Range { start, end } => format!("r:{}:{}", ftok(start.value()), ftok(end.value())),
        CValue::Text(t) => format!("t:{}", hex(t)),
    }
}

fn cqty(q: &Option<Quantity<CValue>>) -> String {
    match q {
        None => "-".into(),
        Some(q) => format!(
            "{}@{}",
            cvalue(q.value()),
            match q.unit() {
                Some(u) => hex(u),
                None => "-".into(),
            }
        ),
    }
}

fn citem(it: &CItem) -> String {
    match it {
        CItem::Text { value } => format!("t{}", hex(value)),
        CItem::Ingredient { index } => format!("i{}", index),
        CItem::Cookware { index } => format!("c{}", index),
        CItem::Timer { index } => format!("m{}", index),
        CItem::InlineQuantity { index } => format!("q{}", index),
    }
}

fn core_dump(r: &cooklang::ScaledRecipe) -> String {
    let secs: Vec<String> = r
        .sections
        .iter()
        .map(|s| {
            let content: Vec<String> = s
                .content
                .iter()
                .map(|c| match c {
                    Content::Step(st) => {
                        format!("S{}", st.items.iter().map(citem).collect::<Vec<_>>().join("+"))
                    }
                    Content::Text(t) => format!("T{}", hex(t)),
                })
                .collect();
            format!("{}~{}", opt_hex(&s.name), list_or_dash(content, ","))
        })
        .collect();
    let ings: Vec<String> = r
        .ingredients
        .iter()
        .map(|i| format!("{}|{}|{}", hex(&i.name), cqty(&i.quantity), opt_hex(&i.note)))
        .collect();
    let cws: Vec<String> = r
        .cookware
        .iter()
        .map(|c| {
            format!(
                "{}|{}",
                hex(&c.name),
                match &c.quantity {
                    Some(v) => cvalue(v),
                    None => "-".into(),
                }
            )
        })
        .collect();
    let tms: Vec<String> = r
        .timers
        .iter()
        .map(|t| format!("{}|{}", opt_hex(&t.name), cqty(&t.quantity)))
        .collect();
    let meta: Vec<String> = r
        .metadata
        .map
        .iter()
        .map(|(k, v)| {
            format!(
                "{}={}",
                k.as_str().map(hex).unwrap_or("-".into()),
                v.as_str().map(hex).unwrap_or("-".into())
            )
        })
        .collect();
    format!(
        "K {} ; KI {} ; KC {} ; KT {} ; KM {}",
        list_or_dash(secs, "!"),
        list_or_dash(ings, ","),
        list_or_dash(cws, ","),
        list_or_dash(tms, ","),
        list_or_dash(meta, ",")
    )
}

// ---------------------------------------------------------------- reading an Amount

struct Cur<'a> {
    s: &'a str,
}

impl<'a> Cur<'a> {
    fn eat(&mut self, p: &str) -> Result<(), String> {
        if let Some(r) = self.s.strip_prefix(p) {
            self.s = r;
            Ok(())
        } else {
            Err(format!("expected {:?} at {:?}", p, self.s))
        }
    }
    fn until(&mut self, p: &str) -> Result<&'a str, String> {
        match self.s.find(p) {
            Some(i) => {
                let (a, b) = self.s.split_at(i);
                self.s = &b[p.len()..];
                Ok(a)
            }
            None => Err(format!("no {:?} in {:?}", p, self.s)),
        }
    }
    /// a string literal as `<str as Debug>` writes it
    fn strlit(&mut self) -> Result<String, String> {
        self.eat("\"")?;
        let mut out = String::new();
        let mut it = self.s.char_indices();
        loop {
            let (i, c) = it.next().ok_or("unterminated string")?;
            match c {
                '"' => {
                    self.s = &self.s[i + 1..];
                    return Ok(out);
                }
                '\\' => {
                    let (_, e) = it.next().ok_or("dangling backslash")?;
                    match e {
                        'n' => out.push('\n'),
                        'r' => out.push('\r'),
                        't' => out.push('\t'),
                        '0' => out.push('\0'),
                        '\\' => out.push('\\'),
                        '"' => out.push('"'),
                        '\'' => out.push('\''),
                        'u' => {
                            let (_, b) = it.next().ok_or("bad \\u")?;
                            if b != '{' {
                                return Err("bad \\u".into());
                            }
                            let mut h = String::new();
                            loop {
                                let (_, d) = it.next().ok_or("bad \\u")?;
                                if d == '}' {
                                    break;
                                }
                                h.push(d);
                            }
                            let cp = u32::from_str_radix(&h, 16).map_err(|_| "bad \\u digits")?;
                            out.push(char::from_u32(cp).ok_or("bad scalar")?);
                        }
                        _ => return Err(format!("unknown escape \\{}", e)),
                    }
                }
                _ => out.push(c),
            }
        }
    }
}

fn parse_amount_debug(d: &str) -> Result<(Value, Option<String>), String> {
    let mut c = Cur { s: d };
    c.eat("Amount { quantity: ")?;
    let pf = |s: &str| s.parse::<f64>().map_err(|_| format!("bad float {:?}", s));
    let v = if c.eat("Number { value: ").is_ok() {
        Value::Number { value: pf(c.until(" }")?)? }
    } else if c.eat("Range { start: ").is_ok() {
        let a = pf(c.until(", end: ")?)?;
        let b = pf(c.until(" }")?)?;
        Value::Range { start: a, end: b }
    } else if c.eat("Text { value: ").is_ok() {
        let t = c.strlit()?;
        c.eat(" }")?;
        Value::Text { value: t }
    } else {
        c.eat("Empty")?;
        Value::Empty
    };
    c.eat(", units: ")?;
    let u = if c.eat("None").is_ok() {
        None
    } else {
        c.eat("Some(")?;
        let s = c.strlit()?;
        c.eat(")")?;
        Some(s)
    };
    c.eat(" }")?;
    if !c.s.is_empty() {
        return Err(format!("trailing {:?}", c.s));
    }
    Ok((v, u))
}

fn same_f(a: f64, b: f64) -> bool {
    a.to_bits() == b.to_bits() || (a.is_nan() && b.is_nan())
}

fn same_value(a: &Value, b: &Value) -> bool {
    match (a, b) {
        (Value::Number { value: x }, Value::Number { value: y }) => same_f(*x, *y),
        (Value::Range { start: a1, end: a2 }, Value::Range { start: b1, end: b2 }) => {
            same_f(*a1, *b1) && same_f(*a2, *b2)
        }
        (Value::Text { value: x }, Value::Text { value: y }) => x == y,
        (Value::Empty, Value::Empty) => true,
        _ => false,
    }
}

fn bvalue(v: &Value) -> String {
    match v {
        Value::Number { value } => format!("n:{}", ftok(*value)),
        Value::Range { start, end } => format!("r:{}:{}", ftok(*start), ftok(*end)),
        Value::Text { value } => format!("t:{}", hex(value)),
        Value::Empty => "e".into(),
    }
}

fn kind_char(k: &QuantityType) -> &'static str {
    match k {
        QuantityType::Number => "n",
        QuantityType::Range => "r",
        QuantityType::Text => "t",
        QuantityType::Empty => "e",
    }
}

fn amount(a: &Option<Amount>) -> String {
    let a = match a {
        None => return "-".into(),
        Some(a) => a,
    };
    let (v, u) = match parse_amount_debug(&format!("{:?}", a)) {
        Ok(x) => x,
        Err(e) => return format!("READERR:{}", hex(&e)),
    };
    // second reading through the public API: the only entry of the singleton list
    let single = vec![Ingredient { name: String::new(), amount: Some(a.clone()), descriptor: None }];
    let ok = match guarded(|| combine_ingredients(&single)) {
        Ok(l) => match l.get("") {
            Some(g) if g.len() == 1 && l.len() == 1 => {
                // only the value is cross-checked: the key's unit string is what the combine clause of the
                // property judges (checks/c19.py), it must not be pre-empted here as a reading error
                let (_, gv) = g.iter().next().unwrap();
                same_value(gv, &v)
            }
            _ => false,
        },
        Err(_) => false,
    };
    if !ok {
        return format!("READERR:{}", hex("Debug and combine_ingredients readings differ"));
    }
    format!("{}@{}", bvalue(&v), opt_hex(&u))
}

// ---------------------------------------------------------------- bindings side

fn bitem(it: &Item) -> String {
    match it {
        Item::Text { value } => format!("t{}", hex(value)),
        Item::IngredientRef { index } => format!("i{}", index),
        Item::CookwareRef { index } => format!("c{}", index),
        Item::TimerRef { index } => format!("m{}", index),
    }
}

fn refs(v: &[u32]) -> String {
    v.iter().map(|x| x.to_string()).collect::<Vec<_>>().join(".")
}

fn bing(i: &Ingredient) -> String {
    format!("{}|{}|{}", hex(&i.name), amount(&i.amount), opt_hex(&i.descriptor))
}
fn bcw(c: &Cookware) -> String {
    format!("{}|{}", hex(&c.name), amount(&c.amount))
}
fn btm(t: &Timer) -> String {
    format!("{}|{}", opt_hex(&t.name), amount(&t.amount))
}

fn bind_dump(r: &CooklangRecipe) -> String {
    let secs: Vec<String> = r
        .sections
        .iter()
        .map(|s| {
            let blocks: Vec<String> = s
                .blocks
                .iter()
                .map(|b| match b {
                    Block::StepBlock(st) => format!(
                        "S{}/{}/{}/{}",
                        st.items.iter().map(bitem).collect::<Vec<_>>().join("+"),
                        refs(&st.ingredient_refs),
                        refs(&st.cookware_refs),
                        refs(&st.timer_refs)
                    ),
                    Block::NoteBlock(n) => format!("T{}", hex(&n.text)),
                })
                .collect();
            format!(
                "{}~{}~{}~{}~{}",
                opt_hex(&s.title),
                list_or_dash(blocks, ","),
                refs(&s.ingredient_refs),
                refs(&s.cookware_refs),
                refs(&s.timer_refs)
            )
        })
        .collect();
    let mut meta: Vec<(String, String)> = r.metadata.iter().map(|(k, v)| (hex(k), hex(v))).collect();
    meta.sort();
    format!(
        "B {} ; BI {} ; BC {} ; BT {} ; BM {}",
        list_or_dash(secs, "!"),
        list_or_dash(r.ingredients.iter().map(bing).collect(), ","),
        list_or_dash(r.cookware.iter().map(bcw).collect(), ","),
        list_or_dash(r.timers.iter().map(btm).collect(), ","),
        list_or_dash(meta.into_iter().map(|(k, v)| format!("{}={}", k, v)).collect(), ",")
    )
}

fn component(c: &Component) -> String {
    match c {
        Component::IngredientComponent(i) => format!("I{}", bing(i)),
        Component::CookwareComponent(c) => format!("C{}", bcw(c)),
        Component::TimerComponent(t) => format!("M{}", btm(t)),
        Component::TextComponent(s) => format!("X{}", hex(s)),
    }
}

fn deref_dump(r: &CooklangRecipe) -> String {
    let mut d = Vec::new();
    let mut l = Vec::new();
    for s in &r.sections {
        for b in &s.blocks {
            if let Block::StepBlock(st) = b {
                for it in &st.items {
                    d.push(match guarded(|| deref_component(r, it.clone())) {
                        Ok(c) => component(&c),
                        Err(_) => "P".into(),
                    });
                }
            }
        }
        for i in &s.ingredient_refs {
            l.push(match guarded(|| deref_ingredient(r, *i)) {
                Ok(x) => format!("I{}", bing(&x)),
                Err(_) => "P".into(),
            });
        }
        for i in &s.cookware_refs {
            l.push(match guarded(|| deref_cookware(r, *i)) {
                Ok(x) => format!("C{}", bcw(&x)),
                Err(_) => "P".into(),
            });
        }
        for i in &s.timer_refs {
            l.push(match guarded(|| deref_timer(r, *i)) {
                Ok(x) => format!("M{}", btm(&x)),
                Err(_) => "P".into(),
            });
        }
    }
    format!("D {} ; R {}", list_or_dash(d, ","), list_or_dash(l, ","))
}

fn ilist_dump(l: &IngredientList) -> String {
    let mut names: Vec<&String> = l.keys().collect();
    names.sort_by(|a, b| a.as_bytes().cmp(b.as_bytes()));
    let ents: Vec<String> = names
        .into_iter()
        .map(|n| {
            let g = &l[n];
            let mut ks: Vec<(Vec<u8>, &'static str, String)> = g
                .iter()
                .map(|(k, v)| (k.name.as_bytes().to_vec(), kind_char(&k.unit_type), bvalue(v)))
                .collect();
            ks.sort();
            format!(
                "{}={}",
                hex(n),
                list_or_dash(
                    ks.into_iter()
                        .map(|(u, k, v)| format!("{}/{}/{}", hexb(&u), k, v))
                        .collect(),
                    ","
                )
            )
        })
        .collect();
    list_or_dash(ents, "+")
}

// ---------------------------------------------------------------- case input

fn parse_cvalue(t: &str) -> CValue {
    let p: Vec<&str> = t.split(':').collect();
    match p[0] {
        "n" => CValue::Number(Number::Regular(tok_f64(p[1]))),
        "r" => CValue::Range {
            start: Number::Regular(tok_f64(p[1])),
            end: Number::Regular(tok_f64(p[2])),
        },
        "t" => CValue::Text(unhex(p[1])),
        _ => panic!("bad value token"),
    }
}

fn main() {
    let parser = CooklangParser::canonical();
    // a core ingredient to clone: the fields the bindings read are public and overwritten per case
    let template: cooklang::Ingredient<CValue> = {
        let (rec, _) = parser.parse("@a").into_result().expect("template");
        rec.scale(1.0, parser.converter()).ingredients[0].clone()
    };
    drive(|f| match f[0] {
        "P" => {
            let input = unhex(f[1]);
            let factor = tok_f64(f[2]);
            let core = match guarded(|| parser.parse(&input).into_result()) {
                Ok(Ok((rec, _))) => rec,
                _ => {
                    let b = guarded(|| parse_recipe(input.clone(), factor));
                    return format!("P invalid {}", if b.is_ok() { "ok" } else { "panic" });
                }
            };
            let scaled = core.scale(factor, parser.converter());
            let b = match guarded(|| parse_recipe(input.clone(), factor)) {
                Ok(b) => b,
                Err(m) => return format!("P bpanic {}", hex(&m)),
            };
            format!("P ok ; {} ; {} ; {}", core_dump(&scaled), bind_dump(&b), deref_dump(&b))
        }
        "C" => {
            let ings: Vec<Ingredient> = if f[1] == "-" {
                vec![]
            } else {
                f[1].split(',')
                    .map(|t| {
                        let p: Vec<&str> = t.split('|').collect();
                        let mut c = template.clone();
                        c.name = unhex(p[0]);
                        c.quantity = if p[1] == "-" {
                            None
                        } else {
                            let (v, u) = p[1].rsplit_once('@').expect("qty");
                            Some(Quantity::new(parse_cvalue(v), if u == "-" { None } else { Some(unhex(u)) }))
                        };
                        c.note = if p[2] == "-" { None } else { Some(unhex(p[2])) };
                        Ingredient::from(&c)
                    })
                    .collect()
            };
            let idx: Vec<u32> = if f[2] == "-" {
                vec![]
            } else {
                f[2].split('.').map(|x| x.parse().expect("index")).collect()
            };
            let show = |r: Result<IngredientList, String>| match r {
                Ok(l) => ilist_dump(&l),
                Err(m) => format!("panic:{}", hex(&m)),
            };
            let sel = show(guarded(|| combine_ingredients_selected(&ings, &idx)));
            let all = show(guarded(|| combine_ingredients(&ings)));
            let sub = if idx.iter().all(|i| (*i as usize) < ings.len()) {
                let subl: Vec<Ingredient> = idx.iter().map(|i| ings[*i as usize].clone()).collect();
                show(guarded(|| combine_ingredients(&subl)))
            } else {
                "-".into()
            };
            format!(
                "C {} ; {} ; {} ; L {}",
                sel,
                all,
                sub,
                list_or_dash(ings.iter().map(bing).collect(), ",")
            )
        }
        _ => panic!("bad case kind"),
    })
}
