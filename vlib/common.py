"""Shared machinery of the checks: builds (harness, Coq, extracted runners),
sharded execution, Print Assumptions audit, evidence, known findings."""
import fcntl
import hashlib
import json
import os
import re
import shutil
import subprocess
import sys
import time
from concurrent.futures import ThreadPoolExecutor

VERIF = os.path.dirname(os.path.dirname(os.path.abspath(__file__)))
REPO = os.environ.get("VERIF_REPO", "/repo")
BUILD = os.path.join(VERIF, ".build")
COQ = os.path.join(VERIF, "coq")
RUNNER = os.path.join(VERIF, "runner")
HARNESS = os.path.join(VERIF, "harness")
REPLAYS = os.path.join(VERIF, "replays")
NCPU = min(16, os.cpu_count() or 4)
GUARD = "cooklang_verif"

ALLOWED_AXIOMS = set()  # no axiom is expected anywhere; see DESIGN.md section 3

FORBIDDEN = re.compile(
    r"\b(Admitted|admit|Axiom|Axioms|Parameter|Parameters|Conjecture|Conjectures|"
    r"Unset\s+Guard|bypass_check|type-in-type|impredicative-set|Admit\s+Obligations|give_up)\b"
)


class Broken(Exception):
    """Something that must be reported as `no-failing-input-found` unless a search finds an input."""


class Hang(Broken):
    """A harness binary did not finish one case within its watchdog limit: the case is the input."""

    def __init__(self, exe, case):
        Broken.__init__(self, "%s hangs (no answer within the per-case watchdog) on case: %s" % (os.path.basename(exe), case[:2000]))
        self.exe, self.case = exe, case


def log(*a):
    print(*a, file=sys.stderr, flush=True)


def ensure_dirs():
    for d in (BUILD, REPLAYS, os.path.join(VERIF, "evidence"), os.path.join(RUNNER, "gen")):
        os.makedirs(d, exist_ok=True)


class Lock:
    def __init__(self, name):
        ensure_dirs()
        self.path = os.path.join(BUILD, name + ".lock")

    def __enter__(self):
        self.f = open(self.path, "w")
        fcntl.flock(self.f, fcntl.LOCK_EX)
        return self

    def __exit__(self, *a):
        fcntl.flock(self.f, fcntl.LOCK_UN)
        self.f.close()


def _limits(mem_gb):
    import resource

    def f():
        os.setsid()
        if mem_gb:
            b = int(mem_gb * (1 << 30))
            resource.setrlimit(resource.RLIMIT_AS, (b, b))
    return f


def run(cmd, cwd=None, env=None, timeout=1800, check=True, capture=True, mem_gb=None):
    """Run a command in its own process group; on timeout the whole group is killed (a `make`
    that is stopped must not leave its coqc children running).  mem_gb: address-space limit of
    every process of the group (a diverging tactic must not eat the machine)."""
    import signal
    e = dict(os.environ)
    if env:
        e.update(env)
    p = subprocess.Popen(cmd, cwd=cwd, env=e, text=True, preexec_fn=_limits(mem_gb),
                         stdout=subprocess.PIPE if capture else None,
                         stderr=subprocess.STDOUT if capture else None)
    try:
        out, _ = p.communicate(timeout=timeout)
    except subprocess.TimeoutExpired:
        try:
            os.killpg(p.pid, signal.SIGKILL)
        except OSError:
            pass
        out, _ = p.communicate()
        out = (out or "") + "\n[timed out after %ss: %s]" % (timeout, " ".join(cmd))
        p.returncode = 124
    p.stdout = out
    if check and p.returncode != 0:
        raise Broken("command failed (%d): %s\n%s" % (p.returncode, " ".join(cmd), (p.stdout or "")[-4000:]))
    return p


# --------------------------------------------------------------------------
# Rust harness

def build_harness(bins, release=False):
    """Build the given harness binaries against /repo's current working tree. Returns bin dir."""
    ensure_dirs()
    if os.path.realpath(REPO) != "/repo":
        return _build_harness_alt(bins, release)
    with Lock("cargo"):
        lock_src = os.path.join(REPO, "Cargo.lock")
        lock_dst = os.path.join(HARNESS, "Cargo.lock")
        if not os.path.exists(lock_dst):
            shutil.copyfile(lock_src, lock_dst)
        cmd = ["cargo", "build", "--offline"]
        if release:
            cmd.append("--release")
        for b in bins:
            cmd += ["--bin", b]
        env = {"CARGO_NET_OFFLINE": "true", "RUSTFLAGS": "--cfg %s -Awarnings" % GUARD,
               "CARGO_TARGET_DIR": os.path.join(BUILD, "target")}
        p = run(cmd, cwd=HARNESS, env=env, timeout=1500, check=False)
        if p.returncode != 0:
            # a stale lock file can make resolution fail: retry once from /repo's lock
            shutil.copyfile(lock_src, lock_dst)
            p = run(cmd, cwd=HARNESS, env=env, timeout=1500, check=False)
        if p.returncode != 0:
            raise Broken("harness build failed:\n" + p.stdout[-6000:])
    return os.path.join(BUILD, "target", "release" if release else "debug")


def _build_harness_alt(bins, release):
    """VERIF_REPO points at another checkout (seeded-change runs in a scratch worktree): build a copy
    of the harness whose path dependency is that checkout, in its own target directory."""
    alt = os.path.join(BUILD, "harness-alt")
    with Lock("cargo-alt"):
        if os.path.exists(alt):
            shutil.rmtree(alt)
        shutil.copytree(HARNESS, alt, ignore=shutil.ignore_patterns("target", "bshim", "bind"))
        for root, _, files in os.walk(alt):
            for fn in files:
                if fn == "Cargo.toml":
                    pth = os.path.join(root, fn)
                    t = open(pth).read().replace('path = "/repo"', 'path = "%s"' % os.path.realpath(REPO))
                    open(pth, "w").write(t)
        shutil.copyfile(os.path.join(REPO, "Cargo.lock"), os.path.join(alt, "Cargo.lock"))
        cmd = ["cargo", "build", "--offline"] + (["--release"] if release else [])
        for b in bins:
            cmd += ["--bin", b]
        env = {"CARGO_NET_OFFLINE": "true", "RUSTFLAGS": "--cfg %s -Awarnings" % GUARD,
               "CARGO_TARGET_DIR": os.path.join(BUILD, "target-alt")}
        p = run(cmd, cwd=alt, env=env, timeout=1500, check=False)
        if p.returncode != 0:
            raise Broken("harness build failed:\n" + p.stdout[-6000:])
    return os.path.join(BUILD, "target-alt", "release" if release else "debug")


# --------------------------------------------------------------------------
# Coq

def coq_makefile():
    """(Re)generate coq/Makefile from the lines of _CoqProject whose file exists (a listed but
    not yet written file must not break everybody's build)."""
    mk = os.path.join(COQ, "Makefile")
    proj = os.path.join(COQ, "_CoqProject")
    lines = []
    seen = set()
    for l in open(proj).read().splitlines():
        s = l.strip()
        if s.endswith(".v"):
            if s in seen or not os.path.exists(os.path.join(COQ, s)):
                continue
            seen.add(s)
        lines.append(l)
    content = "\n".join(lines) + "\n"
    eff = os.path.join(COQ, ".CoqProject.effective")
    if (not os.path.exists(mk)) or (not os.path.exists(eff)) or open(eff).read() != content:
        with open(eff, "w") as f:
            f.write(content)
        run(["coq_makefile", "-f", ".CoqProject.effective", "-o", "Makefile"], cwd=COQ)


def build_coq(targets, timeout=1500):
    """make the given .vo targets (full .vo builds only)."""
    with Lock("coq"):
        coq_makefile()
        p = run(["make", "-j%d" % NCPU] + targets, cwd=COQ, timeout=timeout, check=False, mem_gb=12)
        return p.returncode == 0, p.stdout


def scan_forbidden():
    """Every .v file of the development is scanned (comments stripped)."""
    bad = []
    for root, _, files in os.walk(COQ):
        for fn in files:
            if not fn.endswith(".v"):
                continue
            path = os.path.join(root, fn)
            txt = open(path, encoding="utf-8").read()
            txt = strip_coq_comments(txt)
            for m in FORBIDDEN.finditer(txt):
                bad.append("%s: %s" % (os.path.relpath(path, VERIF), m.group(0)))
    return bad


def strip_coq_comments(t):
    out = []
    depth = 0
    i = 0
    while i < len(t):
        if t.startswith("(*", i):
            depth += 1
            i += 2
        elif t.startswith("*)", i) and depth > 0:
            depth -= 1
            i += 2
        else:
            if depth == 0:
                out.append(t[i])
            i += 1
    return "".join(out)


def audit_property_file(pid, timeout=900):
    """Build the cone of Properties/<pid>.v, then re-run coqc on the property file itself to
    capture its `Print Assumptions` output.  Returns dict(obligations, discharged, theorems,
    axioms, ok, log)."""
    vfile = "Properties/%s.v" % pid
    src = open(os.path.join(COQ, vfile), encoding="utf-8").read()
    body = strip_coq_comments(src)
    theorems = re.findall(r"^\s*Theorem\s+([A-Za-z0-9_']+)", body, flags=re.M)
    res = {"theorems": theorems, "obligations": len(theorems), "discharged": 0, "axioms": {},
           "ok": False, "log": "", "failed": []}
    ok, out = build_coq(["Properties/%s.vo" % pid], timeout=timeout)
    res["log"] = out[-6000:]
    if not ok:
        res["failed"] = ["build of the cone of %s failed" % vfile]
        return res
    with Lock("coq"):
        p = run(["coqc", "-Q", ".", "CL", "-w", "-notation-overridden", vfile], cwd=COQ,
                timeout=timeout, check=False)
    out = p.stdout
    res["log"] = out[-6000:]
    if p.returncode != 0:
        res["failed"] = ["coqc %s failed" % vfile]
        return res
    # every theorem must be followed by a Print Assumptions for it
    printed = re.findall(r"Print\s+Assumptions\s+([A-Za-z0-9_']+)\s*\.", body)
    blocks = split_assumption_blocks(out)
    if len(blocks) != len(printed):
        res["failed"].append("Print Assumptions blocks: expected %d, saw %d" % (len(printed), len(blocks)))
        return res
    closed = 0
    for name, blk in zip(printed, blocks):
        if blk.strip().startswith("Closed under the global context"):
            res["axioms"][name] = []
            if name in theorems:
                closed += 1
        else:
            ax = re.findall(r"^([A-Za-z0-9_.']+)\s*:", blk, flags=re.M)
            res["axioms"][name] = ax
            if all(a in ALLOWED_AXIOMS for a in ax):
                if name in theorems:
                    closed += 1
            else:
                res["failed"].append("%s depends on %s" % (name, ", ".join(ax)))
    missing = [t for t in theorems if t not in printed]
    if missing:
        res["failed"].append("no Print Assumptions for: " + ", ".join(missing))
    bad = scan_forbidden()
    if bad:
        res["failed"].append("forbidden vernacular: " + "; ".join(bad[:10]))
    res["discharged"] = closed if not res["failed"] else min(closed, len(theorems) - 1)
    res["ok"] = not res["failed"] and closed == len(theorems)
    return res


def split_assumption_blocks(out):
    """Split coqc output into the blocks printed by Print Assumptions."""
    blocks = []
    cur = None
    for line in out.splitlines():
        if line.startswith("Closed under the global context"):
            if cur is not None:
                blocks.append("\n".join(cur))
                cur = None
            blocks.append(line)
        elif line.startswith("Axioms:"):
            if cur is not None:
                blocks.append("\n".join(cur))
            cur = []
        elif cur is not None:
            cur.append(line)
    if cur is not None:
        blocks.append("\n".join(cur))
    return blocks


def coqchk(pid, timeout=1500):
    with Lock("coq"):
        p = run(["coqchk", "-silent", "-o", "-Q", ".", "CL", "CL.Properties.%s" % pid], cwd=COQ,
                timeout=timeout, check=False)
    return p.returncode == 0, p.stdout[-3000:]


# --------------------------------------------------------------------------
# Extracted OCaml runners

def _hash_files(paths):
    h = hashlib.sha256()
    for p in sorted(paths):
        h.update(p.encode())
        h.update(open(p, "rb").read())
    return h.hexdigest()


def build_runner(layer, deps, commons=("common_n.ml",)):
    """Extract coq/Extract/<Layer>X.v (after building its cone) and link runner/<layer>_main.ml.
    `deps`: Coq source files (relative to coq/) whose content decides staleness."""
    ensure_dirs()
    gen = os.path.join(RUNNER, "gen")
    xv = "Extract/%sX.v" % layer.capitalize()
    srcs = [os.path.join(COQ, d) for d in deps] + [os.path.join(COQ, xv)] + \
           [os.path.join(RUNNER, c) for c in commons] + [os.path.join(RUNNER, "%s_main.ml" % layer)]
    exe = os.path.join(gen, "%s_runner" % layer)
    stamp = os.path.join(gen, "%s.stamp" % layer)
    with Lock("runner_" + layer):
        hv = _hash_files(srcs)
        if os.path.exists(exe) and os.path.exists(stamp) and open(stamp).read() == hv:
            return exe
        ok, out = build_coq([d[:-2] + ".vo" for d in deps])
        if not ok:
            raise Broken("model build failed:\n" + out[-4000:])
        run(["coqc", "-Q", COQ, "CL", "-w", "-notation-overridden,-extraction-opaque-accessed",
             os.path.join(COQ, xv)], cwd=gen, timeout=900)
        allml = os.path.join(gen, "%s_all.ml" % layer)
        with open(allml, "w") as o:
            o.write(open(os.path.join(gen, "%s_model.ml" % layer)).read())
            for c in commons:
                o.write("\n" + open(os.path.join(RUNNER, c)).read())
            o.write("\n" + open(os.path.join(RUNNER, "%s_main.ml" % layer)).read())
        run(["ocamlfind", "ocamlopt", "-O3", "-unboxed-types", "-w", "-a", allml, "-o", exe],
            cwd=gen, timeout=900, check=False)
        if not os.path.exists(exe) or os.path.getmtime(exe) < os.path.getmtime(allml):
            run(["ocamlfind", "ocamlopt", "-w", "-a", allml, "-o", exe], cwd=gen, timeout=900)
        open(stamp, "w").write(hv)
    return exe


# --------------------------------------------------------------------------
# Sharded execution of a line-oriented binary

def run_lines(exe, lines, env=None, shards=NCPU, timeout=1200, tag="x"):
    """Feed `lines` (list of str) to `exe <file>` in parallel shards; returns list of output lines
    (same length).  Raises Broken if a shard dies or the line count differs."""
    ensure_dirs()
    n = len(lines)
    if n == 0:
        return []
    shards = max(1, min(shards, (n + 199) // 200))
    size = (n + shards - 1) // shards
    rd = os.path.join(BUILD, "run-%d" % os.getpid())
    os.makedirs(rd, exist_ok=True)
    files = []
    for i in range(shards):
        part = lines[i * size:(i + 1) * size]
        if not part:
            continue
        fn = os.path.join(rd, "%s-%s-%d.cases" % (tag, os.path.basename(exe), i))
        with open(fn, "w") as f:
            f.write("\n".join(part) + "\n")
        files.append((fn, len(part)))
    e = dict(os.environ)
    if env:
        e.update(env)

    def one(arg):
        fn, cnt = arg
        p = subprocess.run([exe, fn], env=e, stdout=subprocess.PIPE, stderr=subprocess.PIPE,
                           text=True, timeout=timeout)
        out = p.stdout.splitlines()
        if p.returncode == 3 and "HANG line=" in p.stderr:
            k = int(p.stderr.split("HANG line=")[1].split()[0])
            cases = [l for l in open(fn).read().splitlines() if l]
            raise Hang(exe, cases[k] if k < len(cases) else "?")
        if p.returncode != 0 or len(out) != cnt:
            raise Broken("%s failed on %s: rc=%s, %d/%d lines\n%s" %
                         (exe, fn, p.returncode, len(out), cnt, p.stderr[-2000:]))
        return out

    with ThreadPoolExecutor(max_workers=NCPU) as ex:
        outs = list(ex.map(one, files))
    for fn, _ in files:
        os.unlink(fn)
    try:
        os.rmdir(rd)
    except OSError:
        pass
    res = []
    for o in outs:
        res.extend(o)
    return res


def hx(s):
    if isinstance(s, str):
        s = s.encode("utf-8")
    return "x" + s.hex()


def unhx(s):
    return bytes.fromhex(s[1:]).decode("utf-8")


# --------------------------------------------------------------------------
# Known findings, violations, evidence

def load_findings():
    p = os.path.join(VERIF, "known_findings.json")
    if not os.path.exists(p):
        return {"open": [], "fixed": []}
    return json.load(open(p))


class Report:
    """Collects what a check saw and turns it into exit status, stdout lines and evidence."""

    def __init__(self, pid, tier, seed, level="proof"):
        self.pid, self.tier, self.seed, self.level = pid, tier, seed, level
        self.t0 = time.time()
        self.violations = []   # (what, replay_obj, found_input: bool)
        self.known_hits = {}   # finding id -> text
        self.coverage = {}
        self.assumptions = []
        self.findings = [f for f in load_findings().get("open", []) if f["property"] == pid]

    def known(self, fid, what):
        self.known_hits[fid] = what

    def violation(self, what, replay, found_input=True):
        self.violations.append((what, replay, found_input))

    def finish(self):
        ensure_dirs()
        wall = time.time() - self.t0
        for fid, what in sorted(self.known_hits.items()):
            print("KNOWN-FINDING: property=%s %s" % (self.pid, what))
        rc = 0
        for i, (what, replay, found) in enumerate(self.violations[:5]):
            rp = os.path.join(os.environ.get("VERIF_REPLAY_DIR") or REPLAYS,
                              "%s-%s-%d-%d.json" % (self.pid, self.tier, self.seed, i))
            os.makedirs(os.path.dirname(rp), exist_ok=True)
            with open(rp, "w") as f:
                json.dump({"property": self.pid, "what": what, "replay": replay,
                           "failing_input_found": found}, f, indent=1)
            tail = "" if found else " no-failing-input-found"
            print("VIOLATION property=%s replay=%s%s" % (self.pid, rp, tail))
            log("  " + what)
            rc = 1
        ev = {"property_id": self.pid, "tier": self.tier, "seed": self.seed, "level": self.level,
              "coverage": self.coverage, "assumptions": self.assumptions, "wall_s": round(wall, 2),
              "violations": len(self.violations)}
        evdir = os.environ.get("VERIF_EVIDENCE_DIR") or os.path.join(VERIF, "evidence")
        os.makedirs(evdir, exist_ok=True)
        with open(os.path.join(evdir, "%s.json" % self.pid), "w") as f:
            json.dump(ev, f, indent=1, ensure_ascii=False)
        sys.stdout.flush()
        return rc


TRUSTED_BASE = [
    "Coq 8.16.1 kernel (coqc; coqchk in the thorough tier); vm_compute for finite obligations; no native_compute",
    "no axioms: every property theorem must print 'Closed under the global context'",
    "hand-written Gallina model of the named Rust functions, tied to /repo only by the correspondence run of this check",
    "extraction (ExtrOcamlBasic only, no Extract Constant/Inductive beyond it) + ocamlopt 4.13.1 + the runner's driver glue",
    "the Rust harness (path dependency on /repo, --cfg cooklang_verif) and the Python comparer/generators",
]


# --------------------------------------------------------------------------
# The decision protocol shared by all checks (DESIGN.md 2.5)

def decide(rep, pid, layer, audit, monitor_hits, disagreements, tier, unchecked):
    """monitor_hits: list of (input_repr, what, replay_dict) - property fails on the implementation.
    disagreements: list of (input_repr, replay_dict) - model and implementation differ.
    Known findings (known_findings.json, 'open') are matched by the caller before this is called."""
    for s, what, rp in sorted(monitor_hits, key=lambda t: len(str(t[0])))[:3]:
        d = {"layer": layer}
        d.update(rp)
        rep.violation("%s: %s on %r" % (pid, what, s), d, found_input=True)
    if not monitor_hits:
        if disagreements:
            s, rp = min(disagreements, key=lambda t: len(str(t[0])))
            d = {"layer": layer, "unchecked": unchecked, "disagreeing_cases": len(disagreements)}
            d.update(rp)
            rep.violation("model and implementation disagree on %r (%d cases); no input violating %s was found"
                          % (s, len(disagreements), pid), d, found_input=False)
        if not audit["ok"]:
            rep.violation("proof obligations of %s do not check: %s" % (pid, "; ".join(audit["failed"])),
                          {"theorems": audit["theorems"], "failed": audit["failed"],
                           "log": audit["log"][-2500:]}, found_input=False)
    if tier == "thorough" and audit["ok"]:
        ok, out = coqchk(pid)
        rep.coverage["coqchk"] = "ok" if ok else out[-800:]
        if not ok:
            rep.violation("coqchk rejects Properties/%s.vo" % pid, {"log": out}, found_input=False)


def proof_coverage(rep, pid, audit, tier, modelled):
    rep.coverage.update({
        "obligations": audit["obligations"], "discharged": audit["discharged"],
        "theorems": audit["theorems"], "axioms": audit["axioms"],
        "checker_cmd": "make -C coq Properties/%s.vo && coqc -Q coq CL coq/Properties/%s.v "
                       "(Print Assumptions of every theorem audited; forbidden-vernacular scan)" % (pid, pid)
                       + ("; coqchk -silent -o CL.Properties.%s" % pid if tier == "thorough" else ""),
        "trusted_base": TRUSTED_BASE + ["modelled, not verified: " + modelled],
    })


def load_corpus(pid):
    p = os.path.join(VERIF, "corpus", "%s.cases" % pid)
    if not os.path.exists(p):
        return []
    return [l.rstrip("\n") for l in open(p) if l.strip() and not l.startswith("#")]
