"""Shared by the parser-pipeline checks (C01-C07, C14, C17): case generation, the two sides of
L-lex/L-ev, canonical comparison."""
import itertools
import os
import re
import sys
from fractions import Fraction

from vlib import common
from vlib.common import hx

sys.path.insert(0, os.path.join(common.VERIF, "gen"))
import gen_consts  # noqa: E402

MODEL_DEPS = ["Base/Chars.v", "Model/Lexer.v", "Model/PText.v", "Model/Parser.v", "Gen/ExtBits.v",
              "Gen/CharClass.v"]

SIGMA_CORE = ["a", "1", "0", " ", "\n", "@", "#", "~", "{", "}", "(", ")", "%", "|", "-", "="]
SIGMA_MORE = [">", ":", "/", ".", "\\", "&", "?", "+", "[", "]", "*", ",", "\t", "\r", "é", "名", " ", "º", "¿"]

# the model is run with the configuration of the code as it stands (d = debug assertions)
PCFG_DEBUG = "d"
PCFG_RELEASE = ""


def prepare(need_release=False):
    """Regenerate Gen files from /repo, build harness and runner. Returns dict of paths."""
    info = gen_consts.regenerate()
    bindir = common.build_harness(["events", "cls"])
    out = {"bindir": bindir, "gen": info}
    if need_release:
        out["bindir_release"] = common.build_harness(["events"], release=True)
    out["runner"] = common.build_runner("events", MODEL_DEPS,
                                        commons=("common_n.ml", "common_zq.ml", "events_print.ml"))
    return out


def enum_strings(alpha, maxlen, minlen=0):
    for n in range(minlen, maxlen + 1):
        for t in itertools.product(alpha, repeat=n):
            yield "".join(t)


_F = re.compile(r"f:(-?\d+):(-?\d+)")
_Q = re.compile(r"q:(-?\d+)/(\d+)")


def _ff(m):
    try:
        return "f:%r" % float(Fraction(int(m.group(1))) * Fraction(2) ** int(m.group(2)))
    except OverflowError:
        return "f:inf"


def _qq(m):
    try:
        return "f:%r" % float(Fraction(int(m.group(1)), int(m.group(2))))
    except OverflowError:
        return "f:inf"


def norm(line):
    """numbers: impl prints the f64 exactly (f:m:e), the model the decimal literal (q:n/d); both are
    mapped to the nearest double (Fraction -> float is correctly rounded, as is Rust's parse)."""
    if "f:" in line:
        line = _F.sub(_ff, line)
    if "q:" in line:
        line = _Q.sub(_qq, line)
    return line


def split3(line):
    parts = line.split(" ;; ")
    d = {}
    for p in parts:
        k, _, v = p.partition(" ")
        d[k] = v
    return d


def _table_covers(inputs):
    """The model's character classes come from a table regenerated from the implementation for the ASCII range and
    the code points of gen_consts.EXTRA; any other code point has no class in the model.  An input that uses a code
    point outside the table would compare the implementation with an unmodelled character: a mistake of the generator
    (said so, instead of reporting a disagreement that is the check's own)."""
    known = set(gen_consts.EXTRA)
    seen = set()
    for s in inputs:
        if s.isascii():
            continue
        seen.update(ord(c) for c in s if ord(c) > 127)
    miss = sorted(seen - known)
    if miss:
        raise common.Broken("generated inputs use code points outside the character-class table (gen/gen_consts.py "
                            "EXTRA): %s" % " ".join("U+%04X" % c for c in miss))


def run_both(paths, inputs, exts, pcfg=PCFG_DEBUG, release=False):
    """inputs: list of str; exts: list of int. Returns list of (input, ext, impl_line, model_line)."""
    cases = []
    meta = []
    _table_covers(inputs)
    for s in inputs:
        h = hx(s)
        for e in exts:
            cases.append("%s %d" % (h, e))
            meta.append((s, e))
    bindir = paths["bindir_release"] if release else paths["bindir"]
    impl = common.run_lines(os.path.join(bindir, "events"), cases, tag="impl")
    model = common.run_lines(paths["runner"], cases, env={"PCFG": pcfg}, tag="model")
    return [(s, e, norm(a), norm(b)) for (s, e), a, b in zip(meta, impl, model)]


# --------------------------------------------------------------------------
# helpers shared by the checks

def lev_disagreements(paths, inputs, exts, keys=("T", "E", "M"), release=False):
    """L-lex/L-ev correspondence on inputs x exts. Returns (list of (repr, replay dict), n_cases, n_panics)."""
    res = run_both(paths, inputs, exts, pcfg=PCFG_RELEASE if release else PCFG_DEBUG, release=release)
    bad = []
    panics = 0
    for s, e, a, b in res:
        if a == b:
            if "panic" in a:
                panics += 1
            continue
        da, db = split3(a), split3(b)
        for k in keys:
            if da.get(k) != db.get(k):
                bad.append((s, {"input": s, "input_hex": hx(s), "ext": e, "part": k,
                                "build": "release" if release else "debug",
                                "impl": da.get(k, "")[:1500], "model": db.get(k, "")[:1500]}))
                break
    return bad, len(res), panics


def mutate(text, rng):
    """G_bad: one token-level mutation of a well-formed text"""
    if not text:
        return text
    k = rng.random()
    i = rng.randrange(len(text))
    specials = "@#~{}()%|-=>:/.\\&?+[]*\n "
    if k < 0.3:
        return text[:i] + text[i + 1:]
    if k < 0.6:
        return text[:i] + rng.choice(specials) + text[i:]
    if k < 0.8:
        return text[:i] + text[i] + text[i:]
    j = rng.randrange(len(text))
    a, b = min(i, j), max(i, j)
    return text[:a] + text[b] + text[a + 1:b] + text[a] + text[b + 1:] if a < b else text


def run_pmon(paths, inputs, ext_conv, env=None):
    """monitor binary on inputs x [(ext, conv)]; returns list of (input, ext, conv, violations list)"""
    bindir = common.build_harness(["pmon"])
    cases = []
    meta = []
    _table_covers(inputs)
    for s in inputs:
        h = hx(s)
        for e, c in ext_conv:
            cases.append("%s %d %s" % (h, e, c))
            meta.append((s, e, c))
    out = common.run_lines(os.path.join(bindir, "pmon"), cases, env=env, tag="pmon")
    res = []
    for (s, e, c), l in zip(meta, out):
        v = [] if l == "V -" else l[2:].split(",")
        res.append((s, e, c, v))
    return res


FM_LINES = ["---", "--- ", "a: 1", "x", "", ">> k: v", " ---", "---x", "b: [-1]"]


def frontmatter_family(maxlines):
    out = []
    for k in range(1, maxlines + 1):
        for combo in itertools.product(FM_LINES, repeat=k):
            for nl in ("\n", "\r\n"):
                out.append(nl.join(combo))
                out.append(nl.join(combo) + nl)
    return out


def fm_placements():
    """a YAML front matter after nothing / blank lines / blanks, followed by different kinds of content,
    with LF and CRLF, ASCII and multi-byte: offsets of everything after it must stay true to the input"""
    out = []
    bodies = ["a: 1", "名: é", "a: 1\nb: [x, y]", "t: \"é\"", "", "[", "a: 1\n# c"]
    prefixes = ["", "\n", "\n\n", " \n", "\t\n", "\r\n", "\n \n", " \n", "x\n"]
    tails = ["", "x", "@名{1%g} é", ">> k: v", "= s\nstep @a", "\n\n> t", "~名(x)", "@¿", "a -- c\nb"]
    for pre in prefixes:
        for b in bodies:
            for t in tails:
                for nl in ("\n", "\r\n"):
                    doc = pre + "---" + nl + (b.replace("\n", nl) + nl if b else "") + "---" + nl + t.replace("\n", nl)
                    out.append(doc)
    return out


def edge_families():
    """small hand-shaped families for places the generators rarely reach: intermediate-reference values
    0 / 1 / huge in every form, cookware and ingredient references whose amounts mix text and numbers in
    both orders (grouping consumers), CRLF front matter with standard keys whose values draw analysis
    diagnostics on a later YAML line after multi-byte text"""
    out = []
    for v in ["0", "1", "2", "00", "4294967295", "4294967296", "99999999999999999999", "-1", "+1", ""]:
        for form in ["(%s)", "(~%s)", "(=%s)", "(=~%s)", "(~=%s)", "( %s )"]:
            body = form % v
            for pre in ["", "a\n\n", "= s\n\na\n\n", "> t\n\na\n\n> u\n\n"]:
                out.append(pre.replace("\\n", "\n") + "@&" + body + "x{}")
                out.append(pre.replace("\\n", "\n") + "#&" + body + "x{}")
    amounts = ["big", "2", "1-2", "1/2", "", "big", "3"]
    for mark, ref in (("#", "#&"), ("@", "@&")):
        for a in amounts:
            for b in amounts:
                for c in ("", "2", "big"):
                    t = "%span{%s} then %span{%s}" % (mark, a, ref, b)
                    if c:
                        t += " and %span{%s}" % (ref, c)
                    out.append(t)
                    out.append(">> [duplicate]: ref\n" + t.replace(ref, mark))
    # quantities with a scaling lock / blanks / comments in every position, with and without `%`
    for v in ["= some", "= ", " = [- c -] splash", "=", "= 1 kg", "= some%kg", " =1", "=  2 cups", "= [- c -]", "=%g", " = ",
              "1 [- c -] 1/2%cup", "1 [- c -] / 2", "2 [- c -] 1/4 cups", "[- a -] [- b -] =1%kg", "1-inch piece", "1-", "-1", "1 -2"]:
        for mark in ("@a", "#a", "~a", "~"):
            out.append("%s{%s}" % (mark, v))
    # quantities whose number and unit are separated by non-ASCII blanks (ADVANCED_UNITS value span arithmetic)
    for sp in ["\u00a0", "\u202f", "\u2009", "\u3000", " \u00a0", "\u00a0 "]:
        for body in ["1%skg", "=5%smin", "1/2%scup", "1-2%sl", "1%s%%%skg"]:
            t = body.replace("%s", sp)
            out.append("@flour{%s}" % t)
            out.append("~{%s}" % t)
            out.append("#pot{%s}" % t)
    # a unit / value continued on the next line after a line comment ending in a multi-byte character
    for mark in ("#pot", "@a", "~"):
        out.append("%s{1%%-- x é\nbig}" % mark)
        out.append("%s{1 -- 名\n%%kg}" % mark)
        out.append("%s{-- ¿\n1%%kg}" % mark)
    fm_tail = ["t: é: x", "b: \"é\\q\"", "  é: 2\n b: 3", "名: [é", "tags: [-spicy, vegan]", "storage: [-18, -12]", "x: [- y",
               "servings: []", "yield: []", "serves: []", "servings: 0", "servings: [0]", "time: \"  \"", "prep time: \"\t\"",
               "time: {prep: \"  \", cook: 5}", "servings: 18446744073709551615", "time: 0x10", "locale: é", "servings: [2, 4, 2]",
               "time: soon", "servings: abc", "tags: [a, [b]]", "locale: xx_yyy", "prep time: x\ncook time: y\ntime: z",
               "time: 1h\nprep time: 5m\ncook time: 5m", "author: {nick: r}", "servings: [2, 2]"]
    for nl in ("\n", "\r\n"):
        for head in ["title: é", "title: é\nx: 名", "a: 1\nb: ñ\nc: 名é", "description: \"é\"\nk: v\nz: 名"]:
            for t in fm_tail:
                body = (head + "\n" + t).replace("\n", nl)
                out.append("---" + nl + body + nl + "---" + nl + "step @a{1}")
                out.append(nl + "---" + nl + body + nl + "---" + nl)
    # recipe references whose name has no final path component (consumers that derive a display name from it)
    for nm in ["..", ".", "/", "a/..", "../..", "../", "./", "a/.", "//", "./..", "名/..", ".. ", "a/b/.."]:
        for tail in ["{}", "{1%kg}", "{}(n)", "|x{}"]:
            out.append("@@%s%s" % (nm, tail))
            out.append("Mix @@%s%s well\n\n@@%s%s" % (nm, tail, nm, tail))
    # components directly on both sides of a line end (a text made of nothing but the soft break)
    for nl in ("\n", "\r\n"):
        for a in ("@flour{200%g}", "@a", "#pot{}", "~{5%min}", "@salt{}(n)"):
            for b in ("@water{100%ml}", "#pan", "~t{1%h}", "@b{}"):
                out.append("Mix " + a + nl + b)
                out.append(a + nl + b + nl + a)
    # tabs before diagnostics next to multi-byte characters (report rendering expands tabs)
    for t in ["\t~é{5}", "\t\t@é{1%}", "a\tb ~名(x)", "\t= é =\n\t#é{1%kg}", "\t>> é:\n\t@&名{}", "x\t\t@é{1/0}",
              "---\n\ta: [é\n---\n", "\t@a{1}\n\n\t@&a{2}(é)", "\t\t\t~{é%min}"]:
        out.append(t)
        out.append(t.replace("\n", "\r\n"))
    # a text block whose marker is followed by a non-ASCII blank; continuation lines starting with blank + comment
    for sp in ["\u00a0", "\u3000", "\u2009", "\u202f", " \u00a0", "\u00a0\u00a0", "\t\u00a0"]:
        for body in ["Pour 4 personnes", "é", "名 x\ny", "x [- c -] y"]:
            out.append(">" + sp + body)
            out.append("a\n\n>" + sp + body + "\n\nb")
    for lead in [" [- ed. -] for 3 days in a tin", "\t[- c -] é2", " [- a -] [- b -] x1", "[- c -]x", " -- c\nz9"]:
        out.append("> keeps" + "\n" + lead)
        out.append("> keeps" + "\r\n" + lead + "\r\n\r\nnext step")
    # section names and metadata keys / values with comments before, between and after the words
    for name in ["[- part 2 -] Dough", " [- optional -] Icing", "[- a -][- b -] X1", "Dough [- c -]", "Dough [- c -] two",
                 "[- only -]", " -- c", "é [- c -] 名", "[- é -] 名"]:
        for form in ["== %s ==", "= %s", "=%s=", "==%s"]:
            out.append(form % name)
            out.append("step\n\n" + form % name + "\n\nafter @a{}")
    for key in ["title", "[- which key? -]", "[- k -] ", "k [- c -] 2", "[- a -] k", "é"]:
        for val in ["Pasta [- v2 -] al forno", "[- from -] grandma", "1 h [- prep -] 30 min", "[- ask grandma -]", "-- ask grandma",
                    "x [- a -] [- b -] y", "a [- c -]", "[- c -][- d -]", "é [- 名 -] ñ9"]:
            out.append(">> %s: %s" % (key, val))
            out.append(">>%s:%s\nstep @a{}" % (key, val))
    return out


def grec_texts(rng, n, features=None, profiles=("canonical", "extended")):
    import grec
    out = []
    for i in range(n):
        prof = profiles[i % len(profiles)]
        g = grec.Gen(rng, prof, features)
        text, exp, info = g.recipe()
        out.append((text, exp, prof, info))
    return out


EXT_ALL = 3818
SINGLETONS = [2, 8, 32, 64, 128, 512, 1024, 2050]
