"""Regeneration of coq/Gen/FracConsts.v from /repo/src (used by checks/c12.py on every run)."""
import os
import re
from fractions import Fraction

from vlib import common


def _one(pat, txt, what):
    m = re.search(pat, txt, flags=re.S)
    if not m:
        raise common.Broken("C12 regeneration: cannot find %s in the source (pattern %r)" % (what, pat))
    return m


def qlit(fr):
    fr = Fraction(fr)
    return "(%d # %d)" % (fr.numerator, fr.denominator) if fr >= 0 else "(-%d # %d)" % (-fr.numerator, fr.denominator)


def read_consts(repo=None):
    repo = repo or common.REPO
    q = open(os.path.join(repo, "src", "quantity.rs"), encoding="utf-8").read()
    cm = open(os.path.join(repo, "src", "convert", "mod.rs"), encoding="utf-8").read()
    uf = open(os.path.join(repo, "src", "convert", "units_file.rs"), encoding="utf-8").read()
    num = r"([0-9][0-9_]*(?:\.[0-9]+)?(?:[eE][+-]?[0-9]+)?)"
    c = {}
    m = _one(r"const\s+DENOMS\s*:\s*&'static\s*\[u8\]\s*=\s*&\[([0-9,\s]*)\]\s*;", q, "DENOMS")
    c["denoms"] = [int(x) for x in m.group(1).replace(" ", "").replace("\n", "").split(",") if x]
    c["fix_ratio"] = Fraction(_one(r"const\s+FIX_RATIO\s*:\s*f64\s*=\s*" + num + r"\s*;", q, "FIX_RATIO").group(1).replace("_", ""))
    if len(re.findall(r"\*\s*Self::FIX_RATIO\)\s*as\s+i16", q)) != 2:
        raise common.Broken("C12 regeneration: the two `(.. * Self::FIX_RATIO) as i16` casts were not found")
    c["regular_eps"] = Fraction(_one(r"if\s+decimal\s*<\s*" + num + r"\s*\{", q, "integer shortcut bound").group(1))
    m = _one(r"assert!\(\(" + num + r"\s*\.\.=\s*" + num + r"\)\.contains\(&accuracy\)\)", q, "accuracy assertion")
    c["acc_lo"], c["acc_hi"] = Fraction(m.group(1)), Fraction(m.group(2))
    c["assert_max_den"] = int(_one(r"assert!\(max_den\s*<=\s*([0-9]+)\)", q, "max_den assertion").group(1))
    m = _one(r"impl\s+Default\s+for\s+FractionsConfig\s*\{.*?accuracy:\s*" + num + r"\s*,\s*max_denominator:\s*([0-9]+)\s*,"
             r"\s*max_whole:\s*(u32::MAX|[0-9_]+)", cm, "FractionsConfig::default")
    c["default_accuracy"] = Fraction(m.group(1))
    c["default_max_den"] = int(m.group(2))
    c["default_max_whole"] = 4294967295 if m.group(3) == "u32::MAX" else int(m.group(3).replace("_", ""))
    m = _one(r"accuracy:\s*self\.accuracy\.unwrap_or\(d\.accuracy\)\.clamp\(" + num + r"\s*,\s*" + num + r"\)", uf, "accuracy clamp")
    c["clamp_acc_lo"], c["clamp_acc_hi"] = Fraction(m.group(1)), Fraction(m.group(2))
    m = _one(r"\.unwrap_or\(d\.max_denominator\)\s*\.clamp\(([0-9]+)\s*,\s*([0-9]+)\)", uf, "max_denominator clamp")
    c["clamp_den_lo"], c["clamp_den_hi"] = int(m.group(1)), int(m.group(2))
    return c


def render(c):
    L = []
    L.append("(* GENERATED on every run by checks/c12.py (checks/c12_gen.py) from /repo/src/quantity.rs,")
    L.append("   src/convert/mod.rs and src/convert/units_file.rs.  Do not edit: the file is rewritten when a")
    L.append("   constant of the source changes, and the obligations of Proofs/FractionProofs.v are then re-checked. *)")
    L.append("From Coq Require Import List NArith ZArith QArith.")
    L.append("Import ListNotations.")
    L.append("")
    L.append("(* FractionLookupTable::DENOMS, FIX_RATIO  (quantity.rs) *)")
    L.append("Definition denoms : list N := [%s]%%N." % "; ".join(str(d) for d in c["denoms"]))
    L.append("Definition fix_ratio : Q := %s." % qlit(c["fix_ratio"]))
    L.append("(* Number::new_approx: `decimal < 1e-10`, the two assertions *)")
    L.append("Definition regular_eps : Q := %s." % qlit(c["regular_eps"]))
    L.append("Definition acc_lo : Q := %s." % qlit(c["acc_lo"]))
    L.append("Definition acc_hi : Q := %s." % qlit(c["acc_hi"]))
    L.append("Definition assert_max_den : N := %d%%N." % c["assert_max_den"])
    L.append("(* FractionsConfig::default (convert/mod.rs) and the clamps of FractionsConfigHelper::define (units_file.rs) *)")
    L.append("Definition default_accuracy : Q := %s." % qlit(c["default_accuracy"]))
    L.append("Definition default_max_den : N := %d%%N." % c["default_max_den"])
    L.append("Definition default_max_whole : N := %d%%N." % c["default_max_whole"])
    L.append("Definition clamp_acc_lo : Q := %s." % qlit(c["clamp_acc_lo"]))
    L.append("Definition clamp_acc_hi : Q := %s." % qlit(c["clamp_acc_hi"]))
    L.append("Definition clamp_den_lo : N := %d%%N." % c["clamp_den_lo"])
    L.append("Definition clamp_den_hi : N := %d%%N." % c["clamp_den_hi"])
    return "\n".join(L) + "\n"


def regen():
    """Rewrite coq/Gen/FracConsts.v if (and only if) the source constants changed. Returns (consts, changed)."""
    c = read_consts()
    txt = render(c)
    path = os.path.join(common.COQ, "Gen", "FracConsts.v")
    os.makedirs(os.path.dirname(path), exist_ok=True)
    old = open(path, encoding="utf-8").read() if os.path.exists(path) else None
    if old != txt:
        with common.Lock("coq"):
            with open(path, "w", encoding="utf-8") as f:
                f.write(txt)
    return c, old != txt
