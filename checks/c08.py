"""C08 - scaling multiplies exactly the scalable amounts and nothing else.
Theorems: coq/Properties/C08.v (Model/Scale.v over Model/Convert.v).  Correspondence: L-scale
(harness/src/bin/scale.rs vs runner/scale_main.ml): recipes are parsed and dumped by the
implementation, scaled by it (factors, servings, default), and the extracted model scales the
*dumped* recipe; amounts within 2^-40 relative, everything else exactly.  Monitor (this file,
`monitor_op`): an independent statement of C08 evaluated with exact rationals on what the
implementation returned: amounts are computed twice, with the unit table the implementation publishes
(2^-40) and with the hand-written real-world definitions of coq/Model/Standards.v (4e-6, the C09 tolerance
of the table), so that a self-consistent but wrong table is seen too."""
import os
import random
import re
import subprocess
from fractions import Fraction

from checks import c09_gen
from vlib import common
from vlib.common import hx, unhx

DEPS = ["Base/Chars.v", "Model/Convert.v", "Gen/UnitsToml.v", "Model/Standards.v", "Model/Scale.v"]
COMMONS = ("common_n.ml", "common_zq.ml")
REL = Fraction(1, 2 ** 40)
TEMP_ABS = Fraction(1, 10 ** 9)
NUM_RE = re.compile(r"^-?\d+(:-?\d+|/\d+)$")
FIXED_FACTORS = [0.5, 1.0, 2.0, 3.0, 1 / 3, 0.1, 7.5, 1000.0]
SERVINGS = [1, 2, 3, 4, 6, 12]


# ---------------------------------------------------------------- numbers

def num(t):
    if ":" in t:
        m, e = t.split(":")
        return Fraction(int(m)) * (Fraction(2) ** int(e))
    return Fraction(t)


def ftok(x):
    """python float -> exact `m:e` token"""
    n, d = float(x).as_integer_ratio()
    e = -(d.bit_length() - 1)
    while n != 0 and n % 2 == 0:
        n //= 2
        e += 1
    return "%d:%d" % (n, e if n != 0 else 0)


def qtok(fr):
    fr = Fraction(fr)
    return "%d/%d" % (fr.numerator, fr.denominator)


def number_value(t):
    """exact value of a number token R(q) | F(w,n,d,e): whole + err + num/den (Number::value)"""
    if t.startswith("R("):
        return num(t[2:-1])
    w, n, d, e = t[2:-1].split(",")
    return Fraction(int(w)) + num(e) + Fraction(int(n), int(d))


# ---------------------------------------------------------------- dumps

class Toks:
    def __init__(self, s):
        self.t = s.split(" ")
        self.i = 0

    def next(self):
        x = self.t[self.i]
        self.i += 1
        return x

    def done(self):
        return self.i == len(self.t)


def p_value(tk):
    k = tk.next()
    if k == "n":
        return ("n", tk.next())
    if k == "r":
        return ("r", tk.next(), tk.next())
    if k == "t":
        return ("t", tk.next())
    raise ValueError("value kind %r" % k)


def p_svalue(tk):
    k = tk.next()
    if k == "-":
        return None
    if k not in ("L", "F"):
        raise ValueError("svalue kind %r" % k)
    return (k, p_value(tk))


def p_squantity(tk):
    sv = p_svalue(tk)
    if sv is None:
        return None
    return (sv[0], sv[1], tk.next())


def p_count(tk, letter):
    t = tk.next()
    if t[0] != letter:
        raise ValueError("expected %s count, got %r" % (letter, t))
    return int(t[1:])


def parse_scalable(s):
    tk = Toks(s)
    if tk.next() != "R":
        raise ValueError("not a scalable dump")
    sv = tk.next()
    servings = None if sv == "-" else ([int(x) for x in sv[1:].split(",")] if len(sv) > 1 else [])
    r = {"servings": servings, "frame": tk.next()}
    r["ingredients"] = [(tk.next(), p_squantity(tk)) for _ in range(p_count(tk, "I"))]
    r["cookware"] = [(tk.next(), p_svalue(tk)) for _ in range(p_count(tk, "C"))]
    r["timers"] = [(tk.next(), p_squantity(tk)) for _ in range(p_count(tk, "T"))]
    r["inline"] = [(p_value(tk), tk.next()) for _ in range(p_count(tk, "Q"))]
    if not tk.done():
        raise ValueError("trailing tokens")
    return r


def p_quantity(tk):
    if tk.t[tk.i] == "-":
        tk.next()
        return None
    v = p_value(tk)
    return (v, tk.next())


def p_optvalue(tk):
    if tk.t[tk.i] == "-":
        tk.next()
        return None
    return p_value(tk)


def parse_scaled(s):
    tk = Toks(s)
    if tk.next() != "D":
        raise ValueError("not a scaled dump")
    d = tk.next()
    if d == "default":
        data = ("default",)
    elif d == "scaled":
        data = ("scaled", tk.next(), tk.next()[1:], tk.next()[1:], tk.next()[1:])
    else:
        raise ValueError("data %r" % d)
    r = {"data": data, "frame": tk.next()}
    r["ingredients"] = [(tk.next(), p_quantity(tk)) for _ in range(p_count(tk, "I"))]
    r["cookware"] = [(tk.next(), p_optvalue(tk)) for _ in range(p_count(tk, "C"))]
    r["timers"] = [(tk.next(), p_quantity(tk)) for _ in range(p_count(tk, "T"))]
    r["inline"] = [(p_value(tk), tk.next()) for _ in range(p_count(tk, "Q"))]
    if not tk.done():
        raise ValueError("trailing tokens")
    return r


def shorten_frames(dump, table):
    """replace every frame token (long hex) by a short opaque token; `table` maps frame -> token"""
    out = []
    for t in dump.split(" "):
        if len(t) > 24 and t.startswith("x7b22"):   # a frame is a JSON object
            if t not in table:
                table[t] = "x%06x" % len(table)
            out.append(table[t])
        else:
            out.append(t)
    return " ".join(out)


# ---------------------------------------------------------------- the monitor (independent of the model)

STD_REL = Fraction(4, 10 ** 6)     # published ratios are within 1e-6 of the standards (C09_definitions)


class Units:
    """the unit table the implementation publishes (key -> unit) and, per unit, its real-world
    definition from the hand-written standards table (coq/Model/Standards.v), independent of /repo"""

    def __init__(self, dumps, standards=None):
        self.units = dumps
        self.by_key = {}
        self.standards = standards or {}
        self.without_standard = []
        for u in dumps:
            nm = u["names"][0] if u["names"] else None
            u["std"] = self.standards.get(nm)
            if standards is not None and u["std"] is None:
                self.without_standard.append(nm)
            for k in u["names"] + u["symbols"] + u["aliases"]:
                self.by_key.setdefault(k, u)

    def find(self, unit_tok):
        if unit_tok == "-":
            return None
        return self.by_key.get(unhx(unit_tok))


def real_world(u, x):
    """the amount of x [u] in the base unit by the real-world definition of u, or None"""
    if u.get("std") is None:
        return None
    _, r, d = u["std"]
    return (x + d) * r


def parse_unit_dump(line):
    f = line.split(" ")
    assert f[0] == "unit", line
    lst = lambda s: [unhx(x) for x in s[1:].split(",")] if len(s) > 1 else []
    return {"pq": f[1], "sys": f[2], "ratio": num(f[3]), "diff": num(f[4]),
            "names": lst(f[5]), "symbols": lst(f[6]), "aliases": lst(f[7])}


def ends(v):
    if v[0] == "n":
        return [number_value(v[1])]
    if v[0] == "r":
        return [number_value(v[1]), number_value(v[2])]
    return None


def close(a, b, atol):
    return abs(a - b) <= REL * max(abs(a), abs(b)) + atol


class Dev:
    """worst relative deviation seen by the monitor"""
    worst = Fraction(0)

    @classmethod
    def see(cls, a, b):
        m = max(abs(a), abs(b))
        if m > 0:
            cls.worst = max(cls.worst, abs(a - b) / m)


def same_amount(units, q0, q1, why):
    """q1 is physically q0: text verbatim; unknown / no unit: identical; known unit: same kind of
    value, a known unit of the same physical quantity, same amount in base units at both ends"""
    (v0, u0), (v1, u1) = q0, q1
    if v0[0] == "t":
        return [] if (v0, u0) == (v1, u1) else [why + ":text-not-verbatim"]
    k0 = units.find(u0)
    if k0 is None:
        return [] if (v0, u0) == (v1, u1) else [why + ":unknown-unit-quantity-changed"]
    k1 = units.find(u1)
    if k1 is None or k1["pq"] != k0["pq"] or v1[0] != v0[0]:
        return [why + ":unit-or-kind"]
    atol = TEMP_ABS if k0["pq"] == "temperature" else 0
    bad = []
    for a, b in zip(ends(v0), ends(v1)):
        x0 = (a + k0["diff"]) * k0["ratio"]
        x1 = (b + k1["diff"]) * k1["ratio"]
        Dev.see(x0, x1)
        if not close(x0, x1, atol * k0["ratio"]):
            bad.append(why + ":amount-changed")
        # ... and by the real-world definitions of the two units (not the implementation's table)
        w0, w1 = real_world(k0, a), real_world(k1, b)
        if w0 is not None and w1 is not None:
            if k1["std"][0] != k0["std"][0] or abs(w0 - w1) > STD_REL * max(abs(w0), abs(w1)) + atol * 10:
                bad.append(why + ":real-world-amount-changed")
    return bad


def times_amount(units, f, q0, q1, why):
    """q1 is q0 multiplied by f as a physical amount: the amount of q1, expressed in the written unit,
    is f times the written value (both ends); unknown / no unit: same unit text, value times f"""
    (v0, u0), (v1, u1) = q0, q1
    if v1[0] != v0[0]:
        return [why + ":kind"]
    k0 = units.find(u0)
    bad = []
    if k0 is None:
        if u1 != u0:
            return [why + ":unit-text-changed"]
        for a, b in zip(ends(v0), ends(v1)):
            Dev.see(a * f, b)
            if not close(a * f, b, 0):
                bad.append(why + ":not-multiplied")
        return bad
    k1 = units.find(u1)
    if k1 is None or k1["pq"] != k0["pq"]:
        return [why + ":unit"]
    atol = TEMP_ABS if k0["pq"] == "temperature" else 0
    for a, b in zip(ends(v0), ends(v1)):
        base = (b + k1["diff"]) * k1["ratio"]
        back = base / k0["ratio"] - k0["diff"]      # the scaled quantity in the written unit
        Dev.see(a * f, back)
        if not close(a * f, back, atol):
            bad.append(why + ":not-multiplied")
        # ... and by the real-world definitions: the result, in the written unit, is f x the written value
        if k0.get("std") is not None and k1.get("std") is not None:
            w1 = real_world(k1, b)
            wback = w1 / k0["std"][1] - k0["std"][2]
            if k1["std"][0] != k0["std"][0] or abs(a * f - wback) > STD_REL * max(abs(a * f), abs(wback)) + atol * 10:
                bad.append(why + ":real-world-not-multiplied")
    return bad


def monitor_quantity(units, f, sq, q, o, why):
    """ingredient / timer quantity: sq = (L|F, value, unit) | None, q = (value, unit) | None, o = outcome letter"""
    if sq is None:
        return [] if (q is None and o == "N") else [why + ":no-quantity"]
    if q is None:
        return [why + ":quantity-lost"]
    kind, v0, u0 = sq
    if kind == "F":
        return ([] if o == "F" else [why + ":outcome-fixed"]) + same_amount(units, (v0, u0), q, why)
    if v0[0] == "t":
        return ([] if o == "E" else [why + ":outcome-error"]) + same_amount(units, (v0, u0), q, why)
    return ([] if o == "S" else [why + ":outcome-scaled"]) + times_amount(units, f, (v0, u0), q, why)


def monitor_cookware(f, sv, v, o, why):
    if sv is None:
        return [] if (v is None and o == "N") else [why + ":no-quantity"]
    if v is None:
        return [why + ":quantity-lost"]
    kind, v0 = sv
    if kind == "F" or v0[0] == "t":
        want = "F" if kind == "F" else "E"
        return ([] if o == want else [why + ":outcome"]) + ([] if v == v0 else [why + ":not-verbatim"])
    bad = [] if o == "S" else [why + ":outcome-scaled"]
    if v[0] != v0[0]:
        return bad + [why + ":kind"]
    for a, b in zip(ends(v0), ends(v)):
        if not close(a * f, b, 0):
            bad.append(why + ":not-multiplied")
    return bad


def monitor_frame(src, res):
    bad = []
    if res["frame"] != src["frame"]:
        bad.append("frame:metadata-or-sections")
    for kind in ("ingredients", "cookware", "timers"):
        if [x[0] for x in res[kind]] != [x[0] for x in src[kind]]:
            bad.append("frame:" + kind)
    if res["inline"] != src["inline"]:
        bad.append("frame:inline-quantities")
    return bad


def monitor_op(units, src, op, res_line, results_by_op, base):
    """C08 on one operation; returns the list of violated predicates"""
    if res_line == "panic":
        return ["panic"]
    if op[0] == "s":
        # scaling to n servings is scaling by n / first declared serving
        if base == 0:
            return [] if res_line == "nonfinite" else ["servings:zero-base"]
        twin = "f" + ftok(int(op[1:]) / base)
        want = results_by_op.get(twin)
        if want is None:
            return ["servings:no-twin"]
        return [] if res_line == want else ["servings:differs-from-scale-by-n-over-first"]
    res = parse_scaled(res_line)
    bad = monitor_frame(src, res)
    if op == "d":
        if res["data"] != ("default",):
            bad.append("default:data")
        for k, ((_, sq), (_, q)) in enumerate(zip(src["ingredients"], res["ingredients"])):
            if (None if sq is None else (sq[1], sq[2])) != q:
                bad.append("default:ingredient-%d" % k)
        for k, ((_, sv), (_, v)) in enumerate(zip(src["cookware"], res["cookware"])):
            if (None if sv is None else sv[1]) != v:
                bad.append("default:cookware-%d" % k)
        for k, ((_, sq), (_, q)) in enumerate(zip(src["timers"], res["timers"])):
            if (None if sq is None else (sq[1], sq[2])) != q:
                bad.append("default:timer-%d" % k)
        return bad
    want_f = num(op[1:])
    d = res["data"]
    if d[0] != "scaled" or num(d[1]) != want_f:
        return bad + ["data:factor"]
    f = want_f
    for kind, outs in (("ingredients", d[2]), ("cookware", d[3]), ("timers", d[4])):
        if len(outs) != len(res[kind]) or len(res[kind]) != len(src[kind]):
            bad.append("outcomes:length-" + kind)
    if bad:
        return bad
    for k, ((_, sq), (_, q)) in enumerate(zip(src["ingredients"], res["ingredients"])):
        bad += monitor_quantity(units, f, sq, q, d[2][k], "ingredient-%d" % k)
    for k, ((_, sv), (_, v)) in enumerate(zip(src["cookware"], res["cookware"])):
        bad += monitor_cookware(f, sv, v, d[3][k], "cookware-%d" % k)
    for k, ((_, sq), (_, q)) in enumerate(zip(src["timers"], res["timers"])):
        bad += monitor_quantity(units, f, sq, q, d[4][k], "timer-%d" % k)
    return bad


def monitor_parse(src, expect):
    """what the parser must have produced: which values are Linear, and the servings"""
    bad = []
    if expect is None:
        return bad
    kinds = "".join("-" if sq is None else sq[0] for _, sq in src["ingredients"])
    if expect.get("linear") is not None and kinds != expect["linear"]:
        bad.append("which-linear:ingredients %s expected %s" % (kinds, expect["linear"]))
    if expect.get("parsed", True):
        if any(sv is not None and sv[0] != "F" for _, sv in src["cookware"]):
            bad.append("which-linear:cookware")
        if any(sq is not None and sq[0] != "F" for _, sq in src["timers"]):
            bad.append("which-linear:timers")
    if "servings" in expect and src["servings"] != expect["servings"]:
        bad.append("servings:declared %r expected %r" % (src["servings"], expect["servings"]))
    return bad


# ---------------------------------------------------------------- comparison of two scaled dumps

def split_items(line):
    out = []
    for t in line.split(" "):
        if t.startswith("R(") and t.endswith(")"):
            out.append(("lit", "R"))
            out.append(("num", num(t[2:-1])))
        elif t.startswith("F(") and t.endswith(")"):
            w, n, d, e = t[2:-1].split(",")
            out.append(("frac", (int(w), int(n), int(d)), num(e)))
        elif NUM_RE.match(t):
            out.append(("num", num(t)))
        else:
            out.append(("lit", t))
    return out


def compare(li, lm, atol, rel=REL):
    """(same skeleton, numbers close, worst relative deviation)"""
    if li == lm:
        return True, True, Fraction(0)
    a, b = split_items(li), split_items(lm)
    if len(a) != len(b):
        return False, False, 0
    worst = Fraction(0)
    ok = True
    for x, y in zip(a, b):
        if x[0] != y[0]:
            return False, False, 0
        if x[0] == "lit":
            if x[1] != y[1]:
                return False, False, 0
        elif x[0] == "num":
            scale = max(abs(x[1]), abs(y[1]))
            dev = abs(x[1] - y[1])
            if dev > rel * scale + atol:
                ok = False
            if scale > 0:
                worst = max(worst, dev / scale)
        else:
            if x[1] != y[1]:
                return False, False, 0
            w, n, d = x[1]
            scale = abs(Fraction(w) + (Fraction(n, d) if d else 0) + x[2])
            dev = abs(x[2] - y[2])
            if dev > rel * scale + atol:
                ok = False
            if scale > 0:
                worst = max(worst, dev / scale)
    return True, ok, worst


def segments(line):
    """a scaled dump cut into components: [("head", tokens)] + [("I", k, tokens)...] + C, T, Q likewise;
    None when it is not a scaled dump (nonfinite, panic)"""
    if not line.startswith("D "):
        return None
    tk = Toks(line)
    tk.next()
    d = tk.next()
    if d == "scaled":
        for _ in range(4):
            tk.next()
    tk.next()
    segs = [("head", 0, " ".join(tk.t[:tk.i]))]
    for letter, parse in (("I", p_quantity), ("C", p_optvalue), ("T", p_quantity)):
        a = tk.i
        n = p_count(tk, letter)
        segs.append((letter + "#", 0, tk.t[a]))
        for k in range(n):
            a = tk.i
            tk.next()
            parse(tk)
            segs.append((letter, k, " ".join(tk.t[a:tk.i])))
    a = tk.i
    n = p_count(tk, "Q")
    segs.append(("Q#", 0, tk.t[a]))
    for k in range(n):
        a = tk.i
        p_value(tk)
        tk.next()
        segs.append(("Q", k, " ".join(tk.t[a:tk.i])))
    if not tk.done():
        raise ValueError("trailing tokens")
    return segs


def number_candidates(tok):
    """a written number moved by at most 2^-40 relative: itself, (1 +- 2^-40), the nearest simple rational;
    a fraction is moved through its recorded error"""
    if not tok.startswith("R("):
        w, n, d, e = tok[2:-1].split(",")
        v = number_value(tok)
        return [tok] + ["F(%s,%s,%s,%s)" % (w, n, d, qtok(num(e) + sg * REL * v)) for sg in (1, -1)]
    v = num(tok[2:-1])
    c = [v, v * (1 + REL), v * (1 - REL)]
    sv = v.limit_denominator(10 ** 6)
    if sv != v and abs(sv - v) <= REL * abs(v):
        c.append(sv)
    return ["R(%s)" % qtok(x) for x in c]


def factor_candidates(f):
    c = [f, f * (1 + REL), f * (1 - REL)]
    sf = f.limit_denominator(10 ** 6)
    if sf != f and abs(sf - f) <= REL * abs(f):
        c.append(sf)
    return c


def tie_lines(f, sq):
    """model cases: the single quantity sq = (L|F, value, unit) as the only ingredient of a recipe,
    scaled by every candidate factor with every candidate spelling of its numbers"""
    kind, v, u = sq
    if v[0] == "n":
        vals = ["n " + a for a in number_candidates(v[1])]
    elif v[0] == "r":
        vals = ["r %s %s" % (a, b) for a in number_candidates(v[1]) for b in number_candidates(v[2])]
    else:
        vals = ["t " + v[1]]
    fs = factor_candidates(f) if kind == "L" else [f]
    return ["f%s R - x7b7d I1 x7b7d %s %s %s C0 T0 Q0" % (qtok(ff), kind, vv, u) for ff in fs for vv in vals]


# ---------------------------------------------------------------- generator

ING = ["flour", "sugar", "salt", "water", "olive oil", "eggs", "butter", "crème fraîche", "rice", "milk"]
CW = ["pan", "large bowl", "oven", "whisk"]
INTER_NAMES = ["dough", "mixture", "sauce", "starter"]
TM = ["rest", "bake", "simmer gently"]
WORDS = ["Add", "the", "and", "mix", "well", "until", "smooth", "then", "pour", "into", "stir", "Serve", "café"]
UNKNOWN_UNITS = ["pinch", "cloves", "sprigs", "Cup", "handful", "ML"]
TEXT_VALUES = ["some", "a pinch", "to taste", "a few"]
INTS = ["0", "1", "2", "3", "5", "10", "12", "100", "250", "500", "1000", "1500", "454", "1000000"]
DECS = ["1.5", "0.25", "2.75", "10.5", "0.1", "3.125", "0.001", "0.333", "99.9", "2.2046"]
FRACS = ["1/2", "1/3", "2/3", "3/4", "1/8", "5/2", "1/4", "7/16"]
MIXED = ["1 1/2", "2 1/4", "3 3/4", "1 1/3"]


def plain_word_unit(u):
    """a unit the ADVANCED_UNITS spelling (value, blank, unit; parser/quantity.rs 86-146) can carry:
    it must start with a word token and hold no `%`"""
    return bool(re.match(r"^[A-Za-z][A-Za-z]*( [A-Za-z]+)*$", u))


class RGen:
    def __init__(self, rng, units):
        self.r = rng
        self.count = {"blank_spelling": 0, "blank_spelling_locked": 0, "timer_blank_spelling": 0,
                      "intermediate_refs": 0, "intermediate_refs_with_quantity": 0, "intermediate_refs_linear": 0}
        keys = []
        for u in units.units:
            for k in u["names"] + u["symbols"] + u["aliases"]:
                # keys usable inside `{value%unit}`: no braces / percent / newline
                if not any(c in k for c in "{}%\n|()") and k.strip() == k and k:
                    keys.append((k, u))
        self.keys = keys
        self.time_keys = [k for k, u in keys if u["pq"] == "time"]
        self.by_pq = {}
        for k, u in keys:
            self.by_pq.setdefault(u["pq"], []).append(k)

    def number(self):
        r = self.r
        k = r.random()
        if k < 0.4:
            return r.choice(INTS)
        if k < 0.6:
            return r.choice(DECS)
        if k < 0.85:
            return r.choice(FRACS)
        return r.choice(MIXED)

    def value(self, ext, allow_text=True):
        """(spelling, is_text)"""
        r = self.r
        k = r.random()
        if allow_text and k < 0.15:
            return r.choice(TEXT_VALUES), True
        if ext and k < 0.35:
            return self.number() + r.choice(["-", " - "]) + self.number(), False
        return self.number(), False

    def unit(self):
        r = self.r
        k = r.random()
        if k < 0.2:
            return None
        if k < 0.35:
            return r.choice(UNKNOWN_UNITS)
        pq = r.choice(["volume", "mass", "volume", "mass", "length", "temperature", "time"])
        return r.choice(self.by_pq[pq])

    def ingredient(self, ext, st):
        r = self.r
        inter = None
        if ext and r.random() < 0.15:
            # INTERMEDIATE_PREPARATIONS: a reference to an earlier step / section, all four target forms
            # (~k relative step, k numbered step, =~k relative section, =k numbered section); its own
            # quantity is an ingredient quantity like any other: Linear unless locked or text
            forms = []
            if st["steps_in_section"] > 0:
                forms += ["(~%d)" % r.randint(1, st["steps_in_section"]), "(%d)" % r.randint(1, st["steps_in_section"])]
            if st["done_sections"] > 0:
                forms += ["(=~%d)" % r.randint(1, st["done_sections"]), "(=%d)" % r.randint(1, st["done_sections"])]
            if forms:
                inter = r.choice(forms)
        if inter is not None:
            name = r.choice(INTER_NAMES)
            ref = True
            head = "@&" + inter
            self.count["intermediate_refs"] += 1
        else:
            name = r.choice(ING)
            ref = ext and name in st["defined"] and r.random() < 0.5
            st["defined"].add(name)
            head = "@&" if ref else "@" + (r.choice(["", "", "", "?", "-"]) if ext else "")
        if r.random() < 0.15:
            st["linear"].append("-")
            return head + name + "{}"
        s, is_text = self.value(ext)
        lock = r.random() < 0.2
        unit = None if (is_text and r.random() < 0.6) else self.unit()
        body = ("=" + r.choice(["", " "]) if lock else "") + s
        if unit is not None:
            if ext and not is_text and plain_word_unit(unit) and r.random() < 0.4:
                # ADVANCED_UNITS: `{=500 g}`, `{1 1/2 cups}` - value, blank, unit, no `%`
                body = r.choice(["", " "]) + body + r.choice([" ", "  "]) + unit
                self.count["blank_spelling"] += 1
                self.count["blank_spelling_locked"] += 1 if lock else 0
            else:
                body += r.choice(["%", " % ", "%"]) + unit
        st["linear"].append("F" if (is_text or lock) else "L")
        if inter is not None:
            self.count["intermediate_refs_with_quantity"] += 1
            self.count["intermediate_refs_linear"] += 0 if (is_text or lock) else 1
        note = "(chopped)" if (not ref and r.random() < 0.1) else ""   # a note on a reference is an error
        return head + name + "{" + body + "}" + note

    def cookware(self, ext, st):
        r = self.r
        name = r.choice(CW)
        if r.random() < 0.5:
            return "#" + name + "{}"
        s, _ = self.value(ext)
        return "#" + name + "{" + (("=" if r.random() < 0.1 else "") + s) + "}"

    def timer(self, ext, st):
        r = self.r
        name = r.choice(TM + ["", ""])
        if not ext and name and r.random() < 0.3:
            return "~" + name + "{}"
        s, _ = self.value(ext, allow_text=False)
        unit = r.choice(self.time_keys) if (ext or r.random() < 0.8) else r.choice(["whiles", "g"])
        if ext and plain_word_unit(unit) and r.random() < 0.3:
            self.count["timer_blank_spelling"] += 1
            return "~" + name + "{" + ("=" if r.random() < 0.15 else "") + s + " " + unit + "}"
        return "~" + name + "{" + s + "%" + unit + "}"

    def inline(self):
        r = self.r
        return self.number() + " " + r.choice(["g", "kg", "cups", "ml", "°C", "F", "min", "oz"])

    def recipe(self):
        """(ext flag a|n, source text, expectation)"""
        r = self.r
        ext = r.random() < 0.7
        st = {"linear": [], "defined": set(), "steps_in_section": 0, "done_sections": 0}
        lines = []
        servings = None
        k = r.random()
        other = r.choice(["", "title: Pasta\n", "course: dinner\n"])
        if k < 0.55:
            form = r.choice(["num", "num", "pipe", "list", "words"])
            vals = r.sample([1, 2, 3, 4, 6, 8, 12, 5], r.randint(1, 3))
            if form == "num":
                vals = vals[:1]
                txt = str(vals[0])
            elif form == "pipe":
                txt = '"' + "|".join(str(v) for v in vals) + '"' if r.random() < 0.5 else " | ".join(str(v) for v in vals)
            elif form == "words":
                vals = vals[:1]
                txt = "%d people" % vals[0]
            else:
                txt = "[" + ", ".join(str(v) for v in vals) + "]"
            servings = vals
            key = r.choice(["servings", "servings", "serves", "yield"])
            if form == "list" or r.random() < 0.5:
                lines.append("---\n" + other + "%s: %s\n---" % (key, txt))
            else:
                if other:
                    lines.append(">> " + other.strip())
                lines.append(">> %s: %s" % (key, txt.strip('"')))
        elif k < 0.7 and other:
            lines.append(">> " + other.strip())
        for si in range(r.randint(1, 2)):
            if si > 0 or r.random() < 0.2:
                lines.append("== " + r.choice(["Dough", "Filling", "To serve"]) + " ==")
            st["steps_in_section"] = 0
            for _ in range(r.randint(1, 3)):
                parts = []
                for _ in range(r.randint(1, 6)):
                    k = r.random()
                    if k < 0.3:
                        parts.append(" ".join(r.choice(WORDS) for _ in range(r.randint(1, 3))))
                    elif k < 0.7:
                        parts.append(self.ingredient(ext, st))
                    elif k < 0.8:
                        parts.append(self.cookware(ext, st))
                    elif k < 0.92:
                        parts.append(self.timer(ext, st))
                    else:
                        parts.append(self.inline())
                lines.append(" ".join(parts) + r.choice(["", ".", ","]))
                st["steps_in_section"] += 1
            st["done_sections"] += 1
        text = "\n\n".join(lines) + "\n"
        return ("a" if ext else "n"), text, {"linear": "".join(st["linear"]), "servings": servings, "parsed": True}


def gen_cases(rng, tier, units):
    """-> list of (case line, expectation)"""
    n = 3000 if tier == "quick" else 45000
    g = RGen(rng, units)
    out = []
    for i in range(n):
        ext, text, exp = g.recipe()
        mut = "-"
        k = rng.random()
        if k < 0.12:
            mut = rng.choice(["L", "X"])
            exp = dict(exp, linear=None, parsed=False)
        elif k < 0.22:
            sv = rng.choice([[3, 5], [], [0], [7], [2, 4, 8], [12], [0, 2]])
            mut = "S" + ",".join(str(x) for x in sv)
            exp = dict(exp, servings=sv)
        base = (exp["servings"][0] if exp["servings"] else 1)
        ops = ["f" + ftok(x) for x in FIXED_FACTORS]
        rf = rng.choice([rng.uniform(0.01, 20), 10 ** rng.uniform(-3, 4), rng.randint(1, 40) / rng.randint(1, 12)])
        ops.append("f" + ftok(rf))
        for sn in rng.sample(SERVINGS, 2):
            ops.append("s%d" % sn)
            if base != 0:
                ops.append("f" + ftok(sn / base))
        ops.append("d")
        ops = list(dict.fromkeys(ops))
        exp = dict(exp, base=base)
        out.append(("P %s %s %s %s" % (",".join(ops), ext, mut, hx(text)), exp))
    GEN_COUNT.clear()
    GEN_COUNT.update(g.count)
    return out


GEN_COUNT = {}


def corpus_expect(case):
    """corpus cases carry no generator expectation: only what the mutation field implies, and the
    hand-written Linear/Fixed letters of the ingredients when a 6th field `E<letters>` is present"""
    f = case.split(" ")
    exp = {"linear": None, "parsed": f[3] not in ("L", "X")}
    if len(f) > 5 and f[5].startswith("E"):
        exp["linear"] = f[5][1:]
    return exp


def builds():
    c09_gen.regenerate()
    bindir = common.build_harness(["scale"])
    runner = common.build_runner("scale", DEPS, commons=COMMONS)
    return os.path.join(bindir, "scale"), runner


def load_units(impl_exe, runner=None):
    lines = common.run_lines(impl_exe, ["U %d" % i for i in range(96)], tag="impl-u")
    standards = None
    if runner is not None:
        standards = {}
        for l in common.run_lines(runner, ["ST %d" % i for i in range(96)], tag="model-st"):
            if l.startswith("std "):
                f = l.split(" ")
                standards[unhx(f[1])] = (f[2], num(f[3]), num(f[4]))
    return Units([parse_unit_dump(l) for l in lines if l.startswith("unit ")], standards)


def case_ops(case):
    return case.split(" ")[1].split(",")


def evaluate(units, case, expect, impl_line):
    """-> (src dump, [(op, result line)], monitor hits [(op, [predicates])])"""
    parts = impl_line.split(" ;; ")
    src = parse_scalable(parts[0])
    ops = case_ops(case)
    results = list(zip(ops, parts[2:]))
    hits = []
    pb = monitor_parse(src, expect)
    if pb:
        hits.append(("parse", pb))
    base = (src["servings"][0] if src["servings"] else 1)
    if expect is not None and "base" in expect and expect["base"] != base:
        hits.append(("parse", ["servings:base %r expected %r" % (base, expect["base"])]))
        base = expect["base"]
    by_op = dict(results)
    for op, rl in results:
        try:
            bad = monitor_op(units, src, op, rl, by_op, base)
        except (ValueError, IndexError) as e:
            bad = ["unparsable result: %s" % e]
        if bad:
            hits.append((op, bad))
    return src, parts[0], results, hits


def run(rep, tier, seed):
    rng = random.Random(seed)
    _, regenerated = c09_gen.regenerate()
    impl_exe, runner = builds()
    audit = common.audit_property_file("C08")
    units = load_units(impl_exe, runner)
    temp_keys = set(hx(k) for u in units.units if u["pq"] == "temperature" for k in u["names"] + u["symbols"] + u["aliases"])

    corpus = [(c, corpus_expect(c)) for c in common.load_corpus("C08")]
    gen = gen_cases(rng, tier, units)
    cases = corpus + gen
    impl = common.run_lines(impl_exe, [c for c, _ in cases], tag="impl")

    monitor_hits = []
    disagreements = []
    model_cases = []     # (index into cases, frame table, model line)
    stats = {"recipes": 0, "invalid": 0, "panic": 0, "ops": 0, "outcomes": {"S": 0, "F": 0, "N": 0, "E": 0},
             "value_kinds": {"n": 0, "r": 0, "t": 0}, "units_known": 0, "units_unknown": 0, "units_none": 0,
             "refitted_to_other_unit": 0, "fractions_in_results": 0, "nonfinite": 0, "not_parsed_recipes": 0,
             "inline_quantities": 0, "with_servings": 0, "day_crossings": 0}
    evaluated = {}
    for idx, ((case, expect), li) in enumerate(zip(cases, impl)):
        if li == "invalid":
            stats["invalid"] += 1
            continue
        if li == "panic":
            stats["panic"] += 1
            monitor_hits.append((case, "C08: the implementation panicked", {"case": case, "expect": expect, "violated": ["panic"]}))
            continue
        try:
            src, src_dump, results, hits = evaluate(units, case, expect, li)
        except (ValueError, IndexError) as e:
            raise common.Broken("unparsable harness line for %s: %s" % (case[:200], e))
        evaluated[idx] = (src, src_dump, results)
        stats["recipes"] += 1
        stats["ops"] += len(results)
        if expect is not None and not expect.get("parsed", True):
            stats["not_parsed_recipes"] += 1
        stats["inline_quantities"] += len(src["inline"])
        stats["with_servings"] += 1 if src["servings"] else 0
        for _, sq in src["ingredients"] + src["timers"]:
            if sq is not None:
                stats["value_kinds"][sq[1][0]] += 1
                if sq[2] == "-":
                    stats["units_none"] += 1
                elif units.find(sq[2]) is not None:
                    stats["units_known"] += 1
                else:
                    stats["units_unknown"] += 1
        for op, rl in results:
            if rl == "nonfinite":
                stats["nonfinite"] += 1
            elif rl.startswith("D scaled"):
                f = rl.split(" ")
                for letters in f[3:6]:
                    for ch in letters[1:]:
                        stats["outcomes"][ch] += 1
                stats["fractions_in_results"] += sum(1 for t in f if t.startswith("F("))
        for op, bad in hits:
            monitor_hits.append((case if len(case) < 400 else case[:400], "C08 monitor (%s): %s" % (op, ",".join(bad[:4])),
                                 {"case": case, "expect": expect, "op": op, "violated": bad[:8]}))
        table = {}
        model_cases.append((idx, table, case.split(" ")[1] + " " + shorten_frames(src_dump, table)))

    model = common.run_lines(runner, [m for _, _, m in model_cases], tag="model")

    worst = Fraction(0)
    pending = []     # (idx, op, factor, label, k, impl segment, model segment, atol)
    hit_ops = set((h[2]["case"], h[2].get("op")) for h in monitor_hits)
    for (idx, table, mline), lm in zip(model_cases, model):
        case = cases[idx][0]
        src, src_dump, results = evaluated[idx]
        atol = TEMP_ABS if any(t in temp_keys for t in src_dump.split(" ")) else 0
        base = (src["servings"][0] if src["servings"] else 1)
        mparts = lm.split(" ;; ")
        if len(mparts) != len(results):
            disagreements.append((case[:300], {"case": case, "model": lm[:2000], "kind": "result count"}))
            continue
        for (op, rl), ml in zip(results, mparts):
            rs = shorten_frames(rl, table)
            same, ok, dev = compare(rs, ml, atol)
            if same and ok:
                worst = max(worst, dev)
                continue
            if not same:
                # component by component: which quantities differ discretely
                try:
                    si, sm = segments(rs), segments(ml)
                except (ValueError, IndexError):
                    si = sm = None
                if si is not None and sm is not None and len(si) == len(sm) and op[0] in "fs" and (op[0] == "f" or base != 0):
                    f = num(op[1:]) if op[0] == "f" else Fraction(int(op[1:]), base)
                    rest_ok = True
                    local = []
                    for (la, ka, ta), (lb, kb, tb) in zip(si, sm):
                        sm_, ok_, dev_ = compare(ta, tb, atol)
                        if sm_ and ok_:
                            worst = max(worst, dev_)
                        elif (not sm_) and la == lb and la in ("I", "T"):
                            local.append((idx, op, f, la, ka, ta, tb, atol))
                        else:
                            rest_ok = False
                    if rest_ok and local:
                        pending.extend(local)
                        continue
            disagreements.append((case[:300], {"case": case, "op": op, "impl": rs[:3000], "model": ml[:3000],
                                               "kind": "value beyond tolerance" if same else "discrete"}))

    # rounding ties: a discrete disagreement on one quantity is accepted (and counted) only if the model,
    # evaluated on that quantity alone with the factor and the written numbers each moved by at most 2^-40
    # relative ((1 +- 2^-40) or the nearest simple rational), gives the implementation's answer, and the
    # monitor accepted the implementation's answer for that operation
    ties = []
    if pending:
        pl = []
        spans = []
        for idx, op, f, la, k, ti, tm_, atol in pending:
            src = evaluated[idx][0]
            sq = (src["ingredients"] if la == "I" else src["timers"])[k][1]
            lines = tie_lines(f, sq) if sq is not None else []
            spans.append((len(pl), len(pl) + len(lines)))
            pl.extend(lines)
        pm = common.run_lines(runner, pl, tag="model-tie") if pl else []
        for (idx, op, f, la, k, ti, tm_, atol), (a, b) in zip(pending, spans):
            case = cases[idx][0]
            want = " ".join(ti.split(" ")[1:])      # the quantity without its frame / timer name
            ok = False
            for lm2 in pm[a:b]:
                sg = segments(lm2)
                got = " ".join(sg[2][2].split(" ")[1:]) if sg and len(sg) > 2 else ""
                same, close_, _ = compare(want, got, 2 * atol, rel=REL * 8)
                if same and close_:
                    ok = True
                    break
            if ok and (case, op) not in hit_ops:
                ties.append({"source": unhx(case.split(" ")[4])[:300], "op": op, "component": "%s%d" % (la, k),
                             "impl": ti[-200:], "model": tm_[-200:]})
            else:
                disagreements.append((case[:300], {"case": case, "op": op, "component": "%s%d" % (la, k),
                                                   "impl": ti[:600], "model": tm_[:600], "kind": "discrete"}))

    # how often the fit moved a scaled quantity to another unit (distinct non-trivial behaviour)
    for idx, (src, src_dump, results) in evaluated.items():
        for op, rl in results:
            if not rl.startswith("D scaled"):
                continue
            try:
                res = parse_scaled(rl)
            except (ValueError, IndexError):
                continue
            for (_, sq), (_, q) in zip(src["ingredients"], res["ingredients"]):
                if sq is not None and q is not None and sq[2] != q[1]:
                    stats["refitted_to_other_unit"] += 1
            for (_, sq), (_, q) in zip(src["ingredients"] + src["timers"], res["ingredients"] + res["timers"]):
                if sq is not None and q is not None and sq[2] != q[1]:
                    a, b = units.find(sq[2]), units.find(q[1])
                    if a is not None and b is not None and ("day" in a["names"]) != ("day" in b["names"]):
                        stats["day_crossings"] += 1

    common.decide(rep, "C08", "L-scale", audit, monitor_hits, disagreements, tier,
                  "correspondence Model/Scale.v <-> src/scale.rs 111-336 (+ Model/Convert.v fit <-> src/convert/mod.rs)")
    common.proof_coverage(rep, "C08", audit, tier,
                          "ScalableRecipe::{scale, scale_to_servings, default_scale}, the Scale impls for ScalableValue / "
                          "ScalableQuantity / Ingredient / Cookware / Timer, linear_scale (src/scale.rs 111-336); "
                          "ScaledQuantity::fit and what it calls (src/convert/mod.rs 455-725, as in C09); Number::new_approx "
                          "(quantity.rs 735-780); which values are Linear: Model/Analysis.v value_info (event_consumer.rs "
                          "1042-1059), tied to the implementation here by the generator's expectation; f64 arithmetic is exact "
                          "rational arithmetic in the model")
    samples = []
    for idx, (src, src_dump, results) in list(evaluated.items())[:400]:
        case = cases[idx][0]
        if len(case) < 420 and any(rl.startswith("D scaled") and "S" in rl.split(" ")[3] for _, rl in results):
            f = case.split(" ")
            op, rl = next((o, r) for o, r in results if r.startswith("D scaled") and "S" in r.split(" ")[3])
            table = {}
            samples.append({"source": unhx(f[4]), "ext": f[2], "mutation": f[3], "op": op,
                            "scalable": shorten_frames(src_dump, table), "impl": shorten_frames(rl, table)})
        if len(samples) >= 3:
            break
    nontrivial = set()
    for idx, (src, src_dump, results) in evaluated.items():
        if any(sq is not None and sq[0] == "L" and sq[1][0] != "t" for _, sq in src["ingredients"] + src["timers"]):
            nontrivial.add(src_dump)
    rep.coverage.update({
        "evaluations": stats["ops"], "distinct_nontrivial": len(nontrivial), "recipes": stats["recipes"], "generated": len(gen), "corpus": len(corpus),
        "invalid_recipes_skipped": stats["invalid"], "not_parsed_recipes (Linear/Fixed relabelled)": stats["not_parsed_recipes"],
        "component_outcomes": stats["outcomes"], "quantity_value_kinds": stats["value_kinds"],
        "quantities_with_known_unit": stats["units_known"], "quantities_with_unknown_unit": stats["units_unknown"],
        "quantities_without_unit": stats["units_none"], "inline_quantities": stats["inline_quantities"],
        "recipes_with_servings": stats["with_servings"], "nonfinite_factor_results": stats["nonfinite"],
        "ingredient_results_with_another_unit_text (refit or symbol normalisation)": stats["refitted_to_other_unit"],
        "fraction_numbers_in_results": stats["fractions_in_results"],
        "rule": "seeded recipes (70%% all extensions, 30%% none) with ingredients (no quantity / number / decimal / fraction / "
                "mixed / range / text; every key of every bundled unit, unknown units, no unit; `=` locks; references; "
                "intermediate-preparation references (~k, k, =~k, =k) with their own quantities; "
                "modifiers; notes), cookware, timers, inline quantities, servings as number / `a|b` / list / words under "
                "servings|serves|yield in front matter or `>>` lines; 12%% relabelled Linear<->Fixed after parsing, 10%% "
                "set_servings (empty, zero, lists); each scaled by %s, one random factor, two servings counts of %s "
                "(+ the equivalent factor) and default_scale; corpus first.  evaluations = (recipe, operation) pairs; "
                "distinct_nontrivial = distinct dumped recipes holding at least one Linear numeric / range quantity"
                % (FIXED_FACTORS, SERVINGS),
        "exhaustive": False,
        "tolerance": "relative 2^-40 (recipes with a temperature unit: + absolute 1e-9)",
        "worst_relative_deviation_model_vs_impl": float(worst),
        "worst_relative_deviation_monitor": float(Dev.worst),
        "rounding_ties": len(ties), "rounding_tie_samples": ties[:3],
        "correspondence_disagreements": len(disagreements), "monitor_violations": len(monitor_hits),
        "units_toml_regenerated_changed": bool(regenerated), "units": len(units.units),
        "units_without_real_world_standard": units.without_standard, "standards_entries": len(units.standards),
        "generated_quantities_in_blank_separated_spelling": GEN_COUNT.get("blank_spelling", 0),
        "generated_locked_quantities_in_blank_separated_spelling": GEN_COUNT.get("blank_spelling_locked", 0),
        "generated_timers_in_blank_separated_spelling": GEN_COUNT.get("timer_blank_spelling", 0),
        "generated_intermediate_references": GEN_COUNT.get("intermediate_refs", 0),
        "generated_intermediate_references_with_quantity": GEN_COUNT.get("intermediate_refs_with_quantity", 0),
        "generated_intermediate_references_expected_linear": GEN_COUNT.get("intermediate_refs_linear", 0),
        "results_crossing_the_day_boundary": stats["day_crossings"],
        "samples": samples,
    })
    rep.assumptions = [
        "C08_components / C08_linear / C08_fixed are stated for every approximation function whose results are exact "
        "(Section hypothesis approx_exact); C08_new_approx_exact proves it for the model of Number::new_approx and "
        "C08_shipped instantiates it (with the regenerated unit table) leaving no hypothesis",
        "the theorems are conditional on the model not reaching a panic site (scale ... = Done r'); panics of the "
        "implementation are watched by the harness on every case",
        "IEEE rounding is not modelled: theorems are about exact rationals, the implementation is compared within 2^-40",
        "for units with an offset (temperature scales) 'multiplied by f as a physical amount' is read in the written "
        "unit's scale (10 C x 2 = 20 C), which is what times_amount states for every unit; for offset-free units it is "
        "amount x f in base units",
    ]


def setup():
    builds()


def replay(rp):
    impl_exe, runner = builds()
    units = load_units(impl_exe, runner)
    c = rp["replay"].get("case")
    if not c:
        print("no case in replay (proof obligation or machinery): " + rp.get("what", ""))
        return 1
    p = subprocess.run([impl_exe, "-"], input=c + "\n", text=True, stdout=subprocess.PIPE)
    li = p.stdout.strip()
    if li in ("panic", "invalid"):
        print(li)
        return 1 if li == "panic" else 0
    _, _, results, hits = evaluate(units, c, rp["replay"].get("expect"), li)
    for op, bad in hits:
        print("C08 monitor (%s): %s" % (op, ",".join(bad)))
    if not hits:
        print("C08 monitor accepts the implementation's results on this case")
    return 1 if hits else 0
