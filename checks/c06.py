"""C06 - the recipe model is referentially consistent.
Theorems: coq/Properties/C06.v (the quantities of the tables are those of the events, value included:
C06_*_value, C06_values_from_events; Inv of Model/AnalysisSpec.v holds initially, is preserved by every event a
parser-shaped stream can contain, hence recipe_ok of every returned recipe, valid or not; blind indexing; the
code before the repair c9128f1 is refuted on the streams of ">" and "\\").
Correspondence L-rec: harness/src/bin/analysis.rs dumps the real PullParser events + the recipe of
the real CooklangParser::parse; runner/analysis_main.ml runs the extracted model on the dumped
events and prints the same dump: the structure and, since the model's recipe keeps them ([qi_value]), the value
of every quantity of an ingredient, a cookware item or a timer (numbers exactly, as m * 2^e).  Monitor: the statement of C06 evaluated in Rust on
the implementation's recipe (valid or not); its verdict is also compared, recipe by recipe, with the
extracted decision procedure recipe_ok_b/valid_tbl_b that Proofs/AnalysisProofs.v proves equivalent to the
Coq statement."""
import itertools
import os
import random
import re

from vlib import common
from vlib.common import hx, unhx

DEPS = ["Base/Chars.v", "Model/PText.v", "Model/Events.v", "Model/Analysis.v", "Model/AnalysisSpec.v"]
COMMONS = ("common_n.ml", "common_zq.ml")

X_ALL = 3818
MODEL_CFG = 1          # Model/Analysis.v cfgF: the code with the two repairs (0 = before them)
EXT_SINGLE = [2, 8, 32, 64, 128, 512, 1024, 2050]   # one extension each (2050 = intermediate preparations)
SIGMA = ["a", "b", " ", "\n", "@", "&", "(", ")", "~", "=", "1", "{", "}", ">", "\\"]

WITNESSES = [">", "\\", "> \n\nstep", "a\n\n\\", "= A\n\n>\n", ">> [mode]: text\n\\",
             # a reference spelled with the ALIAS of a definition: not found (explicit) / a new definition (implicit)
             "@white wine|wine{}\n\n@&wine{}", "#cast iron skillet|skillet{}\n\n#&skillet{}",
             ">> [duplicate]: reference\n\n@white wine|wine{}\n\n@wine{}",
             ">> [duplicate]: reference\n\n#cast iron skillet|skillet{}\n\n#skillet{}",
             # control: the alias is also the name of another definition, which is the one referenced
             "@wine{}\n\n@white wine|wine{}\n\n@&wine{} @&White Wine{}",
             "@white wine|wine{}\n\n@wine{}\n\n@&wine{} @&white wine{}",
             # quantity values: the recipe holds what the event held - decimals, fractions, ranges (also on cookware
             # and timers), texts, locked ones, a reference with its own quantity, a non-finite literal
             "@a{0.1%g} @b{1 1/2%cup} @c{=2-3.5} @d{a few} #pot{2-3} #pan{=1/3} #lid{some} ~{1.5-2%h} ~t{0.25%min}",
             "@flour{100%g}\n\n@&flour{12.5%g} @&flour{1/3-2/3%kg} #pot{1}\n\n#&pot{2-4}",
             "@a{1" + "0" * 330 + "} #p{2-1" + "0" * 330 + "}"]


def enum_strings(alpha, maxlen):
    for n in range(maxlen + 1):
        for t in itertools.product(alpha, repeat=n):
            yield "".join(t)


# ------------------------------------------------------------------ generator of dense recipes

NAME_POOL = ["a", "b", "flour", "Flour", "FLOUR", "oat milk", "Oat  Milk", "é", "É", "ß", "SS", "ss",
             "./sub/sauce", "../x/Sauce", ".\\w\\sauce", "sauce", "K", "k", "K", "ı", "I", "i", "1", "x1"]
UNITS = ["g", "kg", "ml", "min", "h", "s", "cup", "foo", "C", "°C", ""]


def g_mods(rng, dense, dirty, kind):
    if rng.random() < (0.4 if dense else 0.8):
        return rng.choice(["", "", "&", "&"])
    if dirty:
        return "".join(rng.choice("&&&@?+--") for _ in range(rng.randint(1, 3)))
    pool = list("&&?+-" if kind == "#" else "&&@?+-")
    k = rng.randint(1, 3)
    out = ""
    for _ in range(k):
        c = rng.choice(pool)
        pool = [p for p in pool if p != c]
        out += c
    return out


def g_inter(rng, dirty):
    if dirty:
        v = rng.choice([0, 1, 1, 1, 2, 2, 3, 4, 7, 32767, 40000])
        form = rng.choice(["%d", "~%d", "=%d", "=~%d", " ~ %d ", "~=%d", "%d~", ""])
    else:
        v = rng.choice([0, 1, 1, 1, 1, 2, 2, 2, 3, 3, 4, 7, 32767])
        form = rng.choice(["%d", "~%d", "~%d", "=%d", "=~%d", "=~%d", " = ~ %d "])
    return "(" + (form % v if "%d" in form else form) + ")"


def g_qty(rng, dirty, kind):
    if rng.random() < 0.35:
        return ""
    if dirty:
        val = rng.choice(["1", "2-3", "a few", "=2", "1e3", "", "01", "1/0"])
        unit = rng.choice(UNITS)
        return rng.choice(["{%s%%%s}" % (val, unit), "{%s}" % val])
    val = rng.choice(["1", "2", "0.5", "1/2", "1 1/2", "2-3", "a few", "=2", "= 3", "some"])
    if kind == "#":
        return "{%s}" % val
    if kind == "~":
        if rng.random() < 0.9:
            return "{%s%%%s}" % (val, rng.choice(["min", "min", "h", "s", "g", "foo", "minutes"]))
        return ""
    if rng.random() < 0.5:
        return "{%s%%%s}" % (val, rng.choice([u for u in UNITS if u]))
    return "{%s}" % val


def g_component(rng, names, dense, dirty):
    kind = rng.choice("@@@@##~")
    name = rng.choice(names)
    if kind == "~":
        r = rng.random()
        if r < 0.2:
            return "~" + (g_qty(rng, dirty, "~") or ("{}" if dirty else "{1%min}"))
        if r < 0.3:
            return "~" + name.split(" ")[0]
        return "~" + name + (g_qty(rng, dirty, "~") or "{}")
    mods = g_mods(rng, dense, dirty, kind)
    if "&" in mods and kind == "@" and rng.random() < 0.5:
        # the target goes right after the & it belongs to
        p = mods.index("&") + 1
        mods = mods[:p] + g_inter(rng, dirty) + mods[p:]
    if rng.random() < 0.12:
        name = name + "|" + (rng.choice(["al", "Al ias", ""]) if dirty else rng.choice(["al", "Al ias"]))
    q = g_qty(rng, dirty, kind)
    if not q and (" " in name or rng.random() < 0.5):
        q = "{}"
    note = rng.choice(["", "", "", "", "(note)", "(n n)"] + (["()"] if dirty else []))
    if not q:
        name = name.split(" ")[0]
    return kind + mods + name + q + note


WORDS = ["mix", "the", "and", "heat", "to", "200 C", "5 °F", "-3 C", "1 kg", "for", "2", "3min", "then",
         "add", "-- c", "[- c -]", "\\@", "\\", "x.", ":", "|", "%", "1.5 cup"]
MODE_LINES = [">> [mode]: steps", ">> [mode]: text", ">> [mode]: components", ">> [mode]: ingredients",
              ">> [mode]: all", ">> [mode]: default", ">> [define]: steps", ">> [define]: all",
              ">> [mode]: bogus", ">> [duplicate]: ref", ">> [duplicate]: reference", ">> [duplicate]: new",
              ">> [duplicate]: default", ">> [duplicate]: x", ">> [other]: x", ">> []: x", ">> [mode: x",
              ">> servings: 2", ">> time: 1h", ">> a: b", ">>   [mode]  :   steps  ", ">> [mode]:steps"]


def g_step(rng, names, dense, dirty):
    parts = []
    for _ in range(rng.randint(1, 5)):
        if rng.random() < (0.65 if dense else 0.4):
            parts.append(g_component(rng, names, dense, dirty))
        else:
            parts.append(rng.choice(WORDS))
    sep = [" ", " ", " ", "\n", "  ", ""]
    s = ""
    for p in parts:
        s += p + rng.choice(sep)
    return s.rstrip("\n")


def gen_recipe(rng):
    names = rng.sample(NAME_POOL, rng.randint(3, 5))
    dense = rng.random() < 0.7
    dirty = rng.random() < 0.12
    blocks = []
    if rng.random() < 0.08:
        blocks.append(rng.choice(["---\na: 1\n---", "---\nservings: 2\ntime: 1h\n---", "---\na: [\n---",
                                  "---\n- x\n---", "---\n---", "---\n\"a\n---"]))
    for _ in range(rng.randint(1, 8)):
        r = rng.random()
        if r < 0.55:
            blocks.append(g_step(rng, names, dense, dirty))
        elif r < 0.67:
            blocks.append(rng.choice(["> note", "> a @b{} c", ">", "> ", ">  x\n> y", "> 1 kg", ">\n>", "> \\"]))
        elif r < 0.80:
            blocks.append(rng.choice(["= A", "== B ==", "=", "= ", "==", "= A = x", "= a b  c =", "=\\"]))
        elif r < 0.97:
            blocks.append(rng.choice(MODE_LINES))
        else:
            blocks.append(rng.choice(["\\", "-- only a comment", "[- c -]", " ", "\\\n\\", "a \\"] +
                                     (["@", "#{}", "~", "@{}"] if dirty else [])))
    out = ""
    for b in blocks:
        out += b + rng.choice(["\n\n", "\n\n", "\n\n", "\n", "\n\n\n", "\r\n\r\n"])
    if rng.random() < 0.5:
        out = out.rstrip("\n")
    return out


CLEAN_NAMES = [("flour", ["flour", "Flour", "FLOUR"]), ("oat milk", ["oat milk", "Oat Milk", "OAT MILK"]),
               ("é", ["é", "É"]), ("ss", ["ss", "SS", "ß"]), ("k", ["k", "K", "K"]), ("b", ["b", "B"]),
               ("sauce", ["sauce", "Sauce", "./sub/sauce", "../x/Sauce"])]
CLEAN_POTS = [("pot", ["pot", "Pot", "POT"]), ("big pan", ["big pan", "Big Pan"]), ("ı", ["ı", "I", "i"])]


def gen_clean(rng):
    """Well-formed recipes in which most components are references: to an earlier definition (explicit with &,
    or implicit under `[duplicate]: reference` / `[mode]: steps`), to an earlier step or to an earlier section."""
    ings = rng.sample(CLEAN_NAMES, rng.randint(2, 4))
    pots = rng.sample(CLEAN_POTS, rng.randint(1, 2))
    seen_i, seen_c = [], []
    out = []
    if rng.random() < 0.3:
        out.append(rng.choice([">> [duplicate]: reference", ">> [duplicate]: ref"]))
    n_sec = rng.randint(1, 3)
    for si in range(n_sec):
        if si > 0 or rng.random() < 0.4:
            out.append(rng.choice(["= Part %d" % si, "== Part %d ==" % si, "="]))
        if rng.random() < 0.15:
            out.append(rng.choice([">> [mode]: steps", ">> [mode]: all", ">> [mode]: components", ">> [mode]: text",
                                   ">> [duplicate]: new", ">> [duplicate]: reference"]))
        n_steps = 0
        for _ in range(rng.randint(1, 4)):
            if rng.random() < 0.2:
                out.append(rng.choice(["> a note", "> second note\n> on two lines", "> use @flour{} here"]))
                continue
            toks = []
            for _ in range(rng.randint(1, 4)):
                r = rng.random()
                if r < 0.2:
                    toks.append(rng.choice(["mix", "heat", "then add", "for a while", "and"]))
                elif r < 0.3:
                    toks.append(rng.choice(["~{5%min}", "~rest{1%h}", "~bake{20%min}", "~wait{2%min}", "~{5-10%min}", "~rest{1.5%h}",
                                            "~proof{1 1/2%h}"]))
                elif r < 0.45:
                    base, forms = rng.choice(pots)
                    if base in seen_c and rng.random() < 0.75:
                        toks.append("#&" + rng.choice(forms) + "{}")
                    else:
                        seen_c.append(base)
                        toks.append("#" + forms[0] + rng.choice(["{}", "{1}", "{2}", "{2-3}", "{1/2}", "{=2}", "{a few}"]))
                elif r < 0.6 and (n_steps > 0 or si > 0):
                    if si > 0 and rng.random() < 0.4:
                        tgt = rng.choice(["=%d" % rng.randint(1, si + 1), "=~%d" % rng.randint(1, si + 1)])
                    else:
                        tgt = rng.choice(["%d" % rng.randint(1, n_steps + 1), "~%d" % rng.randint(1, n_steps + 1)])
                    toks.append("@&(%s)%s{}" % (tgt, rng.choice(["dough", "mix", "it"])))
                else:
                    base, forms = rng.choice(ings)
                    if base in seen_i and rng.random() < 0.75:
                        toks.append("@&" + rng.choice(forms) + rng.choice(["{}", "{}", "{1%g}", "{2}", "{0.1-0.3%g}", "{1/3}"]))
                    elif base in seen_i and rng.random() < 0.5:
                        toks.append("@" + rng.choice(forms) + "{}")      # implicit reference under the modes
                    else:
                        seen_i.append(base)
                        toks.append("@" + forms[0] + rng.choice(["{}", "{100%g}", "{1%cup}", "{2}", "{a bit}", "{0.75%kg}",
                                                                 "{1 1/2%cup}", "{2-3}", "{=12.5%g}"]))
            out.append(" ".join(toks))
            n_steps += 1
    return "\n\n".join(out) + rng.choice(["", "\n"])


ALIASED = [("white wine", "wine"), ("olive oil", "oil"), ("crème fraîche", "Crème"), ("flour", "Flour"),
           ("sea salt", "salt"), ("é", "e")]
ALIASED_POTS = [("cast iron skillet", "skillet"), ("big pan", "pan"), ("pot", "POT")]


def gen_alias(rng):
    """Definitions that carry an alias, then references spelled with the alias, with the name, or with the name
    of another definition that equals the alias (control); ingredients and cookware; explicit `&` and the
    implicit forms of `[duplicate]: reference` / `[mode]: steps`."""
    out = []
    implicit = rng.random() < 0.4
    if implicit:
        out.append(rng.choice([">> [duplicate]: reference", ">> [duplicate]: ref", ">> [mode]: steps"]))
    sig = "#" if rng.random() < 0.35 else "@"
    pool = ALIASED_POTS if sig == "#" else ALIASED
    defs = rng.sample(pool, rng.randint(1, min(3, len(pool))))
    steps = []
    control = rng.random() < 0.35
    for (name, alias) in defs:
        d = "%s%s|%s{%s}" % (sig, name, alias, rng.choice(["", "1", "2"]))
        if control and rng.random() < 0.5:
            # another definition really named like the alias, before or after the aliased one
            other = "%s%s{}" % (sig, alias)
            steps.append(rng.choice([other + " and " + d, d + " then " + other, other, d]))
            if steps[-1] in (other, d):
                steps.append(d if steps[-1] == other else other)
        else:
            steps.append(rng.choice([d, "add " + d, d + " mix"]))
    if rng.random() < 0.2:
        steps.append("= Part")
    for _ in range(rng.randint(1, 4)):
        name, alias = rng.choice(defs)
        spelled = rng.choice([alias, alias, alias.upper(), name, name.title(), alias + "x"])
        amp = "" if (implicit and rng.random() < 0.7) else "&"
        steps.append("%s %s%s%s{%s}" % (rng.choice(["use", "add", "then"]), sig, amp, spelled, rng.choice(["", "", "1"])))
    out += steps
    return "\n\n".join(out) + rng.choice(["", "\n"])


def gen_cases(rng, n, ext_choices, mut_rate):
    cases = []
    for k in range(n):
        s = gen_alias(rng) if k % 6 == 5 else (gen_clean(rng) if k % 2 else gen_recipe(rng))
        ext = rng.choice(ext_choices)
        conv = rng.choice([0, 1])
        mut = "-"
        if rng.random() < mut_rate:
            mut = rng.choice("dus") + str(rng.randint(0, 60))
        cases.append((s, ext, conv, mut))
    return cases


# ------------------------------------------------------------------ running

def split_fields(line):
    d = {}
    for part in line.split(" ;; "):
        k, _, v = part.partition(" ")
        d[k] = v
    return d


NONFINITE = re.compile(r":(?:nan|inf|-inf):0(?=[: ]|$)")


def norm_r(r):
    """panic sites are model detail: compare `panic` only.  The value of every quantity is part of the line
    (`n:<m>:<e>`, `r:<m>:<e>:<m>:<e>`, `t:<hex>`; numbers exactly, m * 2^e with m odd on both sides: the model
    is run on the implementation's own events, whose f64 values it reads as exact rationals, and the collector
    copies them - so equal tokens, no tolerance).  A non-finite f64 (a literal of 309+ digits) has no rational:
    runner/analysis_main.ml reads it as 0 in the events, so it is compared as `0:0` here."""
    if r.startswith("panic"):
        return "panic"
    return NONFINITE.sub(":0:0", r) if ("nan" in r or "inf" in r) else r


QTOK = re.compile(r"(?<= )[tn][fl][^ :]*:([nrt]):")


def count_values(st, r):
    """how many quantity values of which kind the compared recipes held (evidence only)"""
    for m in QTOK.finditer(r):
        k = {"n": "number", "r": "range", "t": "text"}[m.group(1)]
        st["values_compared"][k] = st["values_compared"].get(k, 0) + 1
    if "nan" in r or "inf" in r:
        st["values_compared"]["non_finite"] = st["values_compared"].get("non_finite", 0) + len(NONFINITE.findall(r))


def check_iq_oracle(st, orc, case):
    """Hypothesis iq_shrinks of C03_analyse_total / C03_parse_total: whenever the find_inline_quantity oracle
    splits a text, the remainder is shorter (in characters) than the text."""
    if " Q 0 " in orc or " Q " not in orc:
        return
    t = orc.split(" ")
    i = t.index("Q")
    n = int(t[i + 1])
    j = i + 2
    for _ in range(n):
        if t[j + 1] == "1":
            st["iq_splits"] += 1
            if len(unhx(t[j + 3])) >= len(unhx(t[j])):
                s, e, c, m = case
                st["disagreements"].append((s, {"input": s, "input_hex": hx(s), "extensions": e, "converter": c,
                                                "what": "oracle hypothesis iq_shrinks fails: find_inline_quantity "
                                                        "returned a remainder that is not shorter than its text",
                                                "text": t[j], "after": t[j + 3]}))
            j += 4
        else:
            j += 2


def check_batch(rep, st, cases, bins, runner, label):
    """cases: list of (input, ext, conv, mut). Updates the statistics `st`."""
    lines = ["%s %d %d %s" % (hx(s), e, c, m) for (s, e, c, m) in cases]
    outs = {}
    for name, exe in bins.items():
        outs[name] = [split_fields(l) for l in common.run_lines(exe, lines, tag="impl-" + name)]
    ref = outs["release"] if "release" in outs else outs["debug"]
    # model cases from the release (or only) build's events
    midx, mlines = [], []
    for i, f in enumerate(ref):
        if f["EV"] == "panic":
            continue
        midx.append(i)
        mlines.append("%s %d %d %s OR %s" % (lines[i].split(" ")[0], cases[i][1], MODEL_CFG, f["EV"], f["OR"]))
    mout = common.run_lines(runner, mlines, tag="model") if mlines else []
    model = {}
    for i, l in zip(midx, mout):
        model[i] = split_fields(l)
    for i, case in enumerate(cases):
        s, e, c, m = case
        st["cases"] += 1
        for name, o in outs.items():
            f = o[i]
            if f["EV"] == "panic":
                st["parser_panics_" + name] += 1
                if len(st["parser_panic_samples"]) < 5:
                    st["parser_panic_samples"].append({"input": s, "ext": e, "build": name})
            r = f["R"]
            kind = "panic" if r.startswith("panic") else ("none" if r == "none" else
                                                          ("valid" if r.startswith("valid=1") else "invalid"))
            if name == (("release") if "release" in outs else "debug"):
                st["outcomes"][kind] = st["outcomes"].get(kind, 0) + 1
                if " rc:" in r or " rs:" in r or " re:" in r:
                    st["nontrivial"].add((s, e, c, m))
                if m != "-":
                    st["mutated"] += 1
                    if kind == "panic":
                        st["mutated_collector_panics"] += 1
            # the monitor: C06 itself on what the implementation returned.  It applies to every
            # recipe the parser pipeline returns, and to a mutated stream when it still is a
            # stream the parser could emit (the model's grammar says so).
            applies = m == "-" or (i in model and model[i].get("G") == "1")
            if f["V"] != "-" and not applies:
                # a malformed stream (outside the hypothesis of the theorems) on which the monitor fires:
                # not a violation, but it shows the monitor can fail
                st["monitor_fired_outside_hypothesis"] += 1
            if f["V"] != "-" and applies:
                st["monitor_hits"].append((s, "C06 conjunct(s) %s fail on the %s build's recipe" % (f["V"], name),
                                           {"input": s, "input_hex": hx(s), "extensions": e, "converter": c,
                                            "mutation": m, "build": name, "violated": f["V"], "impl": f["R"][:600]}))
            if f["OR"].endswith("H 1"):
                st["oracle_insane"] += 1
            if name == "release" or "release" not in outs:
                check_iq_oracle(st, f["OR"], case)
        if "debug" in outs and "release" in outs:
            d, r_ = outs["debug"][i], outs["release"][i]
            if d["EV"] != "panic" and (d["R"] != r_["R"] or d["EV"] != r_["EV"]):
                st["debug_release_diff"] += 1
                if len(st["debug_release_samples"]) < 3:
                    st["debug_release_samples"].append({"input": s, "debug": d["R"][:300], "release": r_["R"][:300]})
        if i in model:
            mi = model[i]
            st["compared"] += 1
            if m == "-" and mi.get("G") != "1":
                st["disagreements"].append((s, {"input": s, "input_hex": hx(s), "extensions": e, "converter": c,
                                                "what": "the real parser emitted an event sequence outside "
                                                        "parser_shaped (hypothesis of C06_reachable)",
                                                "events": ref[i]["EV"][:600]}))
            count_values(st, ref[i]["R"])
            if norm_r(mi["R"]) != norm_r(ref[i]["R"]):
                st["disagreements"].append((s, {"input": s, "input_hex": hx(s), "extensions": e, "converter": c,
                                                "mutation": m, "impl": ref[i]["R"][:800], "model": mi["R"][:800]}))
            # the Rust monitor against the decision procedure of the Coq statement (recipe_ok_b_spec,
            # valid_tbl_b_spec) on the same recipe: they must accept and reject the same recipes (the
            # monitor's `unlisted_*` tags are the only clauses the Coq statement does not have)
            pv = mi.get("P", "-")
            if pv != "-" and norm_r(mi["R"]) == norm_r(ref[i]["R"]):
                core = [t for t in ref[i]["V"].split(",") if t != "-" and not t.startswith("unlisted_")]
                st["monitor_vs_decider"] += 1
                if pv == "0":
                    st["decider_rejects"] += 1
                if (pv == "1") != (not core):
                    st["disagreements"].append((s, {"input": s, "input_hex": hx(s), "extensions": e, "converter": c,
                                                    "mutation": m, "what": "the Rust monitor and the proved decision "
                                                    "procedure recipe_ok_b/valid_tbl_b disagree on the same recipe",
                                                    "monitor": ref[i]["V"], "decider": pv, "impl": ref[i]["R"][:800]}))
        if len(st["samples"]) < 4 and label == "generated" and i % 997 == 3:
            st["samples"].append({"input": s, "ext": e, "conv": c, "mut": m, "impl": ref[i]["R"][:400]})


SELFTEST_RECIPE = "@b{} @a{} #pot{} ~{1%min}\n\n> note\n\n@&a{} #&pot{} @&(1)c{}\n\n= S\n\n@&(=1)d{} x\n"
NTAMPER = 16
MONITOR_TAGS = ["index_range", "document_order", "ingredient_relation", "cookware_relation", "step_reference",
                "section_reference", "step_numbers", "empty_step", "empty_text", "empty_text_item", "empty_section",
                "timer", "valid_reference"]


def self_test(st, rng, bins, runner, n):
    """Damage real recipes after the fact (harness mutation j<k>) and require that the Rust monitor and the
    proved decision procedure of the Coq statement give the same verdict on every damaged recipe."""
    cases = [(SELFTEST_RECIPE, X_ALL, 1, "j%d" % k) for k in range(NTAMPER)]
    for k in range(n):
        cases.append((gen_clean(rng) if k % 4 else gen_recipe(rng),
                      rng.choice([X_ALL, X_ALL, X_ALL, 0, 2050 | 64]), rng.choice([0, 1]),
                      "j%d" % rng.randint(0, NTAMPER - 1)))
    lines = ["%s %d %d %s" % (hx(s), e, c, m) for (s, e, c, m) in cases]
    exe = bins["release"] if "release" in bins else bins["debug"]
    outs = [split_fields(l) for l in common.run_lines(exe, lines, tag="impl-selftest")]
    idx, dlines = [], []
    for i, f in enumerate(outs):
        r = f.get("R", "")
        if not r.startswith("tampered="):
            continue
        head, valid, rest = r.split(" ", 2)
        idx.append((i, head.split("=")[1]))
        dlines.append("D %s %s OR %s" % (valid.split("=")[1], rest, f["OR"]))
    pout = common.run_lines(runner, dlines, tag="model-selftest") if dlines else []
    t = {"cases": len(cases), "damaged": 0, "rejected_by_both": 0, "accepted_by_both": 0, "by_damage": {},
         "monitor_tags_fired": {}}
    for (i, name), pl in zip(idx, pout):
        f = outs[i]
        core = [g for g in f["V"].split(",") if g != "-" and not g.startswith("unlisted_")]
        accepted = pl.strip() == "P 1"
        if name != "none":
            t["damaged"] += 1
            d = t["by_damage"].setdefault(name, {"applied": 0, "rejected": 0})
            d["applied"] += 1
            d["rejected"] += 0 if accepted else 1
        for g in core:
            t["monitor_tags_fired"][g] = t["monitor_tags_fired"].get(g, 0) + 1
        if accepted != (not core):
            s, e, c, m = cases[i]
            st["disagreements"].append((s, {"input": s, "input_hex": hx(s), "extensions": e, "converter": c,
                                            "mutation": m, "damage": name,
                                            "what": "monitor self-test: the Rust monitor and the proved decision "
                                                    "procedure disagree on a damaged recipe",
                                            "monitor": f["V"], "decider": pl.strip(), "recipe": f["R"][:800]}))
        elif accepted:
            t["accepted_by_both"] += 1
        else:
            t["rejected_by_both"] += 1
    t["monitor_tags_never_fired"] = [g for g in MONITOR_TAGS if g not in t["monitor_tags_fired"]]
    st["selftest"] = t


def new_stats():
    return {"cases": 0, "compared": 0, "monitor_hits": [], "disagreements": [], "outcomes": {},
            "parser_panics_debug": 0, "parser_panics_release": 0, "parser_panic_samples": [],
            "mutated": 0, "mutated_collector_panics": 0, "oracle_insane": 0,
            "monitor_fired_outside_hypothesis": 0, "monitor_vs_decider": 0, "decider_rejects": 0,
            "nontrivial": set(), "iq_splits": 0, "values_compared": {},
            "debug_release_diff": 0, "debug_release_samples": [], "samples": []}


def builds():
    d = common.build_harness(["analysis"])
    r = common.build_harness(["analysis"], release=True)
    return {"debug": os.path.join(d, "analysis"), "release": os.path.join(r, "analysis")}


def run(rep, tier, seed):
    rng = random.Random(seed)
    bins = builds()
    audit = common.audit_property_file("C06")
    runner = common.build_runner("analysis", DEPS, commons=COMMONS)
    st = new_stats()

    # 1. corpus and the witnesses of the two repaired defects, every extension set, both builds
    corpus = [unhx(c.split(" ")[0]) for c in common.load_corpus("C06")]
    first = []
    for s in list(dict.fromkeys(corpus + WITNESSES)):
        for e in [0, X_ALL] + EXT_SINGLE:
            for c in (0, 1):
                first.append((s, e, c, "-"))
    check_batch(rep, st, first, bins, runner, "corpus")

    # 2. dense-reference recipes, malformed streams among them
    n_gen = 12000 if tier == "quick" else 150000
    exts = [0, X_ALL, X_ALL, X_ALL] + EXT_SINGLE + [2050 | 64, 64 | 2, X_ALL & ~128, X_ALL & ~2048]
    gen = gen_cases(rng, n_gen, exts, 0.12)
    for k in range(0, len(gen), 50000):
        check_batch(rep, st, gen[k:k + 50000], bins, runner, "generated")

    # 3. exhaustive: every string over SIGMA up to the bound, all extensions and none
    bound = 5 if tier == "quick" else 6
    rel = {"release": bins["release"]}
    n_enum = 0
    chunk = []
    for s in enum_strings(SIGMA, bound):
        # the empty converter and the bundled one cannot differ here (no unit can be written)
        chunk.append((s, X_ALL, 1, "-"))
        if len(s) <= bound - 1:
            chunk.append((s, 0, 0, "-"))
            chunk.append((s, 2, 0, "-"))
        if len(chunk) >= 400000:
            check_batch(rep, st, chunk, rel, runner, "enum")
            n_enum += len(chunk)
            chunk = []
    if chunk:
        check_batch(rep, st, chunk, rel, runner, "enum")
        n_enum += len(chunk)
    # short strings also on the debug build (overflow checks, debug assertions)
    small = [(s, X_ALL, 1, "-") for s in enum_strings(SIGMA, 3 if tier == "quick" else 4)]
    check_batch(rep, st, small, {"debug": bins["debug"]}, runner, "enum-debug")

    # 4. the monitor can fail, and fails exactly where the Coq statement does: damaged recipes
    self_test(st, rng, bins, runner, 2000 if tier == "quick" else 20000)

    hits = st["monitor_hits"]
    common.decide(rep, "C06", "L-rec", audit, hits, st["disagreements"], tier,
                  "correspondence Model/Analysis.v <-> src/analysis/event_consumer.rs")
    common.proof_coverage(rep, "C06", audit, tier,
                          "RecipeCollector (src/analysis/event_consumer.rs 116-1217, 1498-1510) over the event "
                          "stream of the real PullParser; Text::{text,text_trimmed,text_outer_trimmed} "
                          "(Model/PText.v); the parser itself is not part of this model: the hypothesis "
                          "parser_shaped of C06_reachable is checked on every dumped stream")
    rep.coverage.update({
        "evaluations": st["cases"], "compared_with_model": st["compared"],
        "distinct_nontrivial": len(st["nontrivial"]),
        "nontrivial_rule": "distinct (input, extensions, converter, mutation) whose returned recipe contains at least "
                           "one reference relation (to a component, a step or a section)",
        "exhaustive": True,
        "rule": "corpus + witnesses under 10 extension sets x 2 converters on both builds; %d seeded recipes, half of "
                "them well-formed with most components being references (explicit, implicit under the duplicate/steps "
                "modes, to steps and to sections, names differing in case), a sixth of them definitions with an alias "
                "followed by references spelled with the alias / the name / another definition's name, half noisy dense-reference "
                "recipes (3-5 names reused, all modifiers, aliases, notes, intermediate references in and out of "
                "range, mode and duplicate switches, text blocks, sections, timers, front matter, inline "
                "quantities) under %d extension sets and both converters on both builds, 12%% of them as malformed "
                "streams (one event dropped/duplicated/swapped, fed to analysis::parse_events); every string over "
                "the %d symbols %r up to length %d with all extensions (and up to length %d with none and with "
                "component modifiers only) on the release build, up to length %d on the debug build; monitor "
                "self-test: recipes of the real parser damaged after the fact in 16 ways (one per conjunct of the "
                "statement), verdict of the Rust monitor compared with the extracted recipe_ok_b/valid_tbl_b"
                % (n_gen, len(set(exts)), len(SIGMA), "".join(SIGMA), bound, bound - 1, 3 if tier == "quick" else 4),
        "enumerated": n_enum + len(small),
        "outcomes": st["outcomes"], "mutated_streams": st["mutated"],
        "mutated_collector_panics": st["mutated_collector_panics"],
        "monitor_fired_on_malformed_streams": st["monitor_fired_outside_hypothesis"],
        "monitor_compared_with_proved_decider": st["monitor_vs_decider"],
        "recipes_rejected_by_both": st["decider_rejects"],
        "monitor_selftest": st.get("selftest", {}),
        "parser_panics": {"debug": st["parser_panics_debug"], "release": st["parser_panics_release"],
                          "samples": st["parser_panic_samples"]},
        "debug_release_differences": st["debug_release_diff"], "debug_release_samples": st["debug_release_samples"],
        "unicase_not_an_equivalence": st["oracle_insane"],
        "inline_quantity_splits_checked_to_shrink": st["iq_splits"],
        "quantity_values_compared": st["values_compared"],
        "quantity_values_rule": "every quantity of an ingredient, a cookware item or a timer of the compared recipes is "
                                "compared with the model's [qi_value] as part of the R line: numbers and both ends of a "
                                "range exactly (m * 2^e), texts as bytes; inline quantities are counted only",
        "correspondence_disagreements": len(st["disagreements"]), "monitor_violations": len(hits),
        "samples": st["samples"],
    })
    rep.assumptions = [
        "oracles shipped with each case (not modelled): unicase folding classes of the component names, serde_yaml "
        "acceptance of the front matter, converter.find_unit, and the split points of find_inline_quantity "
        "(restated in the harness over the public find_unit)",
        "parser_shaped (the grammar of event sequences, Model/Events.v) is the hypothesis of the theorems; it is "
        "not proved of the parser: it is evaluated (extracted shape_run) on every stream the real PullParser "
        "produced in this run and a stream outside it is reported as a disagreement",
        "the theorems are about runs of the collector that return; its panics (asserts, u32 step counter) are "
        "compared here (model panics <-> implementation panics) and belong to C03",
    ]


def setup():
    builds()
    common.build_runner("analysis", DEPS, commons=COMMONS)


def replay(rp):
    import subprocess
    bins = builds()
    r = rp["replay"]
    line = "%s %d %d %s\n" % (r.get("input_hex"), r.get("extensions", X_ALL), r.get("converter", 1), r.get("mutation", "-"))
    rc = 0
    for name in ([r["build"]] if "build" in r else ["debug", "release"]):
        p = subprocess.run([bins[name], "-"], input=line, text=True, stdout=subprocess.PIPE)
        print(name, p.stdout.strip()[-700:])
        if not p.stdout.strip().endswith("V -"):
            rc = 1
    return rc
