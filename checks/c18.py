"""C18 - parsing is deterministic, stateless across calls and thread-safe.

Three parts, in this order of authority:
  1. proof (coq/Properties/C18.v): the bookkeeping theorems over the state model Model/Shared.v
     (table invariant, histories, every interleaving, hash-order freedom of probed maps);
  2. regeneration: gen/gen_shared.py rewrites coq/Gen/SharedState.v from /repo/src on every run and
     C18_inventory pins it, so a new static / cache / lazily built table / Cell|Mutex|Atomic field /
     unsafe block breaks a proof obligation;
  3. exploration in support of the proof (L-hist, harness bin `hist`): histories on one parser and
     threads sharing one parser, every result compared with a fresh parser in a fresh process.  The
     monitor is the property itself: identical canonical outputs (recipe JSON + ordered diagnostics).
     This part cannot prove anything about schedules; it looks for a failing input, which is what the
     decision protocol needs when an obligation breaks."""
import itertools
import json
import os
import random
import re
import subprocess
import sys
from concurrent.futures import ThreadPoolExecutor

from vlib import common
from vlib.common import hx, unhx
from checks import parser_common as pc

sys.path.insert(0, os.path.join(common.VERIF, "gen"))
import gen_shared  # noqa: E402

PID = "C18"
CONFIGS = [(pc.EXT_ALL, "b"), (0, "e"), (pc.EXT_ALL, "e"), (2794, "b")]
TABLE_SPECIALS = [
    "@flour{100%g} @milk{250%ml} @water{1.3%l} @butter{37%g} @x{0.3%kg}",
    ">> servings: 2|4\n@sugar{1.33%cup} @salt{0.3%tsp}\n",
    "---\nservings: 3\ntime: 1h 30m\n---\nMix @flour{1/3%cup} and @oil{2.7%tbsp} in a #bowl{2}. Wait ~{90%s}.\n",
    "@a{1.5%kg} @b{0.125%l} @c{3.0625%oz} @d{7.9%lb} @e{0.66%pint} @f{1-2%cups}\n",
    ">> time: 10 min\n>> prep time: 5 min\n>> cook time: 1h\n@a{1%g}\n",
    ">> prep time: 5 min\n>> time: 10 min\n",
    ">> prep time: 5 min\n>> cook time: 1h\n>> time: 10 min\nBoil @water{1%l}.\n",
    "---\ntitle: x\n---\n>> author: me\n>> servings: 2\n@a{1}\n",
    ">> author: me\n>> servings: 2\n@a{1}\n",
    ">> [mode]: components\n@a{1%g}\n@b\n>> [mode]: steps\nMix @a and @b.\n",
    ">> [define]: ingredients\n@salt{1%tsp}\n>> [define]: all\nAdd @salt.\n",
    ">> [duplicate]: reference\n@a{1%g} and @a{2%g}\n",
    ">> [duplicate]: new\n@a{1%g} and @a{2%g}\n",
    ">> [mode]: text\nplain\n",
    ">> [foo]: bar\n>> [mode]: nonsense\nText @a{1}.\n",
    "@eggs{2} @&eggs{1} @milk{1%l} @&milk{200%ml} @&milk{1%cup}\n",
]
SHORT = ["", "@", "@a", "@a{", "@a{}", "@a{1}", "@a{1%", "#p{}", "~{1%h}", "~t{1}", ">> a: b", ">>", "---", "---\n---\n",
         "a\n\nb", "= s", "== s ==", "> t", "-- c", "[- c -]", "\\@", "@a{1}(n)", "@a|b{}", "&a", "@&a{}", "@a{=1}",
         "@a{1/0}", "@a{1-2%g}", "@a{1|2}", "\r\n", "@名{1%名}", "@é(é)", "@a{1%g}{", "x{1%kg}", "bake at 180ºC", "2 cups",
         ">> servings: 0", ">> servings: a|b", ">> time: -5", ">> locale: en_US", ">> tags: a, b", ">> author: A <x>"]


_SEQ = itertools.count()


def hist_exe(release=False):
    return os.path.join(common.build_harness(["hist"], release=release), "hist")


def run_file(exe, lines, mode, env=None, timeout=900):
    """one process over all lines (a history / a pool); returns output lines"""
    common.ensure_dirs()
    rd = os.path.join(common.BUILD, "c18-run-%d" % os.getpid())
    os.makedirs(rd, exist_ok=True)
    fn = os.path.join(rd, "%s-%d.cases" % (mode, next(_SEQ)))
    with open(fn, "w") as f:
        f.write("\n".join(lines) + "\n")
    e = dict(os.environ)
    e["HIST_MODE"] = mode
    if env:
        e.update({k: str(v) for k, v in env.items()})
    try:
        p = subprocess.run([exe, fn], env=e, stdout=subprocess.PIPE, stderr=subprocess.PIPE, text=True, timeout=timeout)
    except subprocess.TimeoutExpired:
        raise common.Broken("hist (%s) timed out after %ds on %d lines" % (mode, timeout, len(lines)))
    finally:
        try:
            os.unlink(fn)
        except OSError:
            pass
    out = p.stdout.splitlines()
    if p.returncode != 0 or len(out) != len(lines):
        raise common.Broken("hist (%s) failed: rc=%s, %d/%d lines\n%s" % (mode, p.returncode, len(out), len(lines), p.stderr[-1500:]))
    return out


def case_line(op, s, cfg):
    return "%s %s %d %s" % (op, hx(s), cfg[0], cfg[1])


REF_NAMES = ["pesto", "tomato sauce", "./sauces/Hollandaise", "./base/dough", "../shared/stock", "Puré de papas",
             "sub/dir/crème", "a.b", "pizza dough.v2"]
REF_SPECIALS = [
    "Serve with @@pesto{}.\n",
    "Add @@./sauces/Hollandaise{150%ml} and @@tomato sauce{1%cup}.\n",
    "@@pesto and @@./base/dough{1}(rested) then @&pesto{}\n",
    "---\ntitle: Lasagne\n---\nLayer @@./base/dough{500%g} with @@tomato sauce{} and @cheese{200%g}.\n",
    "@@missing recipe{} @@pesto|green sauce{2%tbsp} @@?optional/ref{}\n",
    ">> servings: 2\n@@../shared/stock{1%l} ~{10%min} #pot\n",
]


def comment_inputs():
    """block comments of every length 0..17 at four positions, with steps after them: the closing `-]` falls on
    every offset modulo 8 (and, with the placement perturbation, on every address modulo 8)"""
    out = []
    for pre in ("", "a", "Mix ", "Mix @a{1}. "):
        for n in range(18):
            body = ("c" * n) if n % 3 else ("é" * (n // 2) + " " * (n % 2))
            out.append(pre + "[- " + body + " -] then @b{2%g}.\n\nBake ~{10%min} in the #oven.\n")
    out += ["[- a - ] b -] tail @x{1}\n", "[- never closed @a{1}\n\nstep two\n", "a [- one -][- two -] b [--] c [-] d\n",
            "Mix. [- over\ntwo lines -] @a{1}\n[- second -]\n\n@b{2} -- line comment -] [- x\n@c{3} -] @d{4}\n",
            "-- [- in a line comment\n@a{1} -] @b{2}\n", "@a{1 [- inside braces -] %g} and #pot [- c -]{}\n"]
    return out


def cold_pools():
    """pools for the cold-start thread rounds: one pool per code-point group; every punctuation / space character
    of the group once on its own between single-word components (CJK and Latin spellings), then four long inputs
    holding all of them.  -> list of (group name, [texts], number of characters)"""
    import unicodedata
    groups = [("general punctuation 2010-2027", range(0x2010, 0x2028)), ("general punctuation 2030-205E", range(0x2030, 0x205F)),
              ("CJK punctuation 3001-303F", range(0x3001, 0x3040)),
              ("fullwidth FF01-FF65", list(range(0xFF01, 0xFF10)) + list(range(0xFF1A, 0xFF21)) + list(range(0xFF3B, 0xFF41)) + list(range(0xFF5B, 0xFF66))),
              ("supplemental punctuation 2E00-2E4F", range(0x2E00, 0x2E50)),
              ("spaces", list(range(0x2000, 0x200B)) + [0xA0, 0x1680, 0x202F, 0x205F, 0x3000]),
              ("latin-1 00A1-00BF", range(0xA1, 0xC0))]
    named = set()
    for _, r in groups:
        named.update(r)
    rest = [c for c in range(0x100, 0x10000) if c not in named and not (0xD800 <= c < 0xE000)
            and unicodedata.category(chr(c))[0] in "PZ" and unicodedata.category(chr(c)) not in ("Zl", "Zp")]
    half = len(rest) // 2
    groups += [("other BMP punctuation (first half)", rest[:half]), ("other BMP punctuation (second half)", rest[half:])]
    pools = []
    for name, r in groups:
        chars = [chr(c) for c in r]
        texts = []
        for i, ch in enumerate(chars):
            texts.append(("@酱油%s@糖\n" if i % 2 == 0 else "@thing%sthen @salt\n") % ch)
        for k in range(4):
            rot = chars[k * len(chars) // 4:] + chars[:k * len(chars) // 4]
            texts.append(" ".join("@酱油%s@糖" % ch for ch in rot) + "\n")
        pools.append((name, texts, len(chars)))
    return pools


def with_refs(text, rng):
    """a generated recipe with one or two recipe references spliced in as an extra step"""
    refs = []
    for _ in range(rng.randint(1, 2)):
        q = rng.choice(["{}", "{1}", "{200%g}", "{1/2%cup}", "{}(warm)"])
        refs.append("@@" + rng.choice(REF_NAMES) + q)
    step = "Serve with " + " and ".join(refs) + ".\n"
    return (text if text.endswith("\n") else text + "\n") + "\n" + step


def make_inputs(tier, rng):
    n = 400 if tier == "quick" else 3000
    g = [t for t, _, _, _ in pc.grec_texts(rng, n)]
    # a fair share (30%) of the generated recipes refer to other recipes (`@@name{}`: COMPONENT_MODIFIERS, on in
    # 3 of the 4 configurations), the construct whose analysis consults ParseOptions::recipe_ref_check
    g = [with_refs(t, rng) if rng.random() < 0.3 else t for t in g]
    bad = [pc.mutate(t, rng) for t in g]
    full = pc.SIGMA_CORE + pc.SIGMA_MORE
    rnd = ["".join(rng.choice(full) for _ in range(rng.randint(1, 14))) for _ in range(n)]
    corpus = [unhx(c.split(" ")[0]) for c in common.load_corpus(PID)]
    cm = comment_inputs()
    return list(dict.fromkeys(corpus + TABLE_SPECIALS + REF_SPECIALS + cm + SHORT + g + bad + rnd)), {
        "block_comment_specials": len(cm),
        "block_comment_close_offsets_mod8": sorted({t.encode("utf-8").find(b"-]") % 8 for t in cm if "-]" in t}),
        "grec": len(g), "grec_with_recipe_refs": sum(1 for t in g if "@@" in t), "mutations": len(bad),
        "short_random": len(rnd), "fixed": len(TABLE_SPECIALS) + len(REF_SPECIALS) + len(SHORT), "corpus": len(corpus)}


def full_text(exe, line, mode="fresh"):
    return run_file(exe, [line], mode, env={"HIST_FULL": "1"})[0]


def shrink(exe, lines, mode, want, max_trials=80):
    """lines[-1] is the call whose result differs from `want` after the calls before it (same process, `mode`);
    drop as many of the earlier calls as possible (ddmin, bounded)"""
    last = lines[-1]

    def fails(pref):
        try:
            return run_file(exe, pref + [last], mode)[-1] != want
        except common.Broken:
            return False

    pref = lines[:-1]
    if not pref or not fails(pref):
        return lines
    n, trials = 2, 0
    while pref and trials < max_trials:
        size = max(1, len(pref) // n)
        removed = False
        for st in range(0, len(pref), size):
            cand = pref[:st] + pref[st + size:]
            trials += 1
            if fails(cand):
                pref, n, removed = cand, max(n - 1, 2), True
                break
            if trials >= max_trials:
                break
        if not removed:
            if size == 1:
                break
            n = min(len(pref), n * 2)
    return pref + [last]


AMBIENT_VARS = {
    "A": {"LANG": "tr_TR.UTF-8", "LC_ALL": "tr_TR.UTF-8", "LANGUAGE": "tr", "TZ": "Pacific/Kiritimati",
          "COOKLANG_PATH": "{dir}", "COOKLANG_UNITS": "{dir}/units.toml", "COOKLANG_CONFIG": "{dir}/config",
          "HOME": "{dir}/home", "XDG_CONFIG_HOME": "{dir}/home/.config", "NO_COLOR": "1", "RUST_LOG": "trace",
          "RUST_BACKTRACE": "1"},
    "B": {"LANG": "C", "LC_ALL": "POSIX", "LANGUAGE": "", "TZ": "UTC", "COOKLANG_PATH": "/nonexistent",
          "COOKLANG_UNITS": "", "COOKLANG_CONFIG": "/dev/null", "HOME": "/nonexistent", "XDG_CONFIG_HOME": "/nonexistent",
          "CLICOLOR_FORCE": "1", "RUST_LOG": "off", "RUST_BACKTRACE": "0"},
}


def make_ambient(root, names):
    """two freshly created working directories under .build/: `full` holds `<name>.cook` for every recipe
    reference of the inputs (also the spelling with a parent directory stripped), `empty` holds nothing.
    -> {label: {"cwd": dir, "vars": {...}, "files": [relative paths]}}"""
    import shutil
    if os.path.exists(root):
        shutil.rmtree(root)
    full, empty = os.path.join(root, "full", "work"), os.path.join(root, "empty", "work")
    os.makedirs(full)
    os.makedirs(empty)
    os.makedirs(os.path.join(root, "full", "home", ".config"))
    files = []
    top_full = os.path.join(root, "full")
    for nm in sorted(names):
        if not nm or "\0" in nm or nm.startswith("/") or len(nm.encode("utf-8")) > 200:
            continue
        # the path the lookup `<name>.cook` resolves to from the working directory root/full/work; one level of
        # `../` stays inside root/full, anything that would leave it is skipped
        rel = os.path.normpath(os.path.join("work", nm + ".cook"))
        if rel.startswith("..") or os.path.isabs(rel) or os.path.basename(rel) == ".cook":
            continue
        path = os.path.join(top_full, rel)
        try:
            os.makedirs(os.path.dirname(path), exist_ok=True)
            with open(path, "w") as f:
                f.write("-- placeholder recipe\nMix @a{1}.\n")
            files.append(rel)
        except OSError:
            pass
    envs = {}
    for label, cwd, top in (("A", full, os.path.join(root, "full")), ("B", empty, os.path.join(root, "empty"))):
        envs[label] = {"cwd": cwd, "vars": {k: v.replace("{dir}", top) for k, v in AMBIENT_VARS[label].items()},
                       "files": sorted(set(files)) if label == "A" else []}
    return envs


def ambient_env(e):
    d = {"HIST_MODE": "spawn", "HIST_CWD": e["cwd"]}
    d.update(e["vars"])
    return d


def first_diff(a, b):
    n = min(len(a), len(b))
    i = next((k for k in range(n) if a[k] != b[k]), n)
    return {"at": i, "history": a[max(0, i - 60):i + 120], "fresh": b[max(0, i - 60):i + 120]}


def run(rep, tier, seed):
    rng = random.Random(seed)
    quick = tier == "quick"
    # ---- 2. inventory, regenerated ---------------------------------------------------------------
    inv = gen_shared.regenerate()
    items = [(it["area"], it["kind"]) for it in inv["items"]]
    expected = gen_shared.expected_items()
    # ---- 1. proofs -------------------------------------------------------------------------------
    audit = common.audit_property_file(PID)
    exe = hist_exe()

    inputs, gen_counts = make_inputs(tier, rng)
    hits = []          # (input, what, replay)
    stats = {}

    # reference: every (op, input, config) the search will use, evaluated by a fresh converter + parser,
    # in processes other than the ones under test (16 shards = 16 processes)
    universe = {}

    def ref_key(op, s, cfg):
        k = (op, s, cfg)
        if k not in universe:
            universe[k] = None
        return k

    # (i) every input three times in a row on one parser, per configuration
    rep_hist = []
    for cfg in CONFIGS[:2] if quick else CONFIGS:
        h = []
        for s in inputs:
            for _ in range(3):
                h.append(ref_key("p", s, cfg))
        rep_hist.append(h)
    # (ii) seeded random histories: one process, parsers created once and reused; parse calls
    # interleaved with metadata-only parses and scale/convert pipelines, configurations mixed
    n_hist = 160 if quick else 1600
    hist_len = 200
    histories = []
    for _ in range(n_hist):
        single = rng.random() < 0.5      # half of the histories stay on one parser
        cfg0 = rng.choice(CONFIGS)
        hot = [rng.choice(inputs) for _ in range(5)]
        h = []
        for _ in range(hist_len):
            s = rng.choice(hot) if rng.random() < 0.25 else rng.choice(inputs)
            op = rng.choices("pms", weights=(6, 2, 2))[0]
            h.append(ref_key(op, s, cfg0 if single else rng.choice(CONFIGS)))
        histories.append(h)
    # (iii) thread pools
    n_rounds = 12 if quick else 24
    n_threads = 16
    iters = 2000
    pools = []
    for r in range(n_rounds):
        cfg = CONFIGS[0] if r % 4 != 3 else CONFIGS[1 + (r // 4) % 3]
        picks = TABLE_SPECIALS + [rng.choice(inputs) for _ in range(150)]
        pool = []
        for s in picks:
            pool.append(ref_key("p", s, cfg))
            if rng.random() < 0.6:
                pool.append(ref_key("s", s, cfg))
            if rng.random() < 0.2:
                pool.append(ref_key("m", s, cfg))
        rng.shuffle(pool)
        pools.append((cfg, pool))

    keys = list(universe)
    # the reference: ONE PROCESS PER CALL (new hash seeds, nobody has forced the fraction table, no earlier
    # call of any kind in that process)
    ref = common.run_lines(exe, [case_line(*k) for k in keys], env={"HIST_MODE": "spawn"}, shards=16, tag="c18spawn")
    for k, d in zip(keys, ref):
        universe[k] = d
    # fresh converter + parser per call, but in a process that keeps running other calls (16 such processes):
    # separates state held by a parser value from state held by the process
    nchunk = 16
    csize = (len(keys) + nchunk - 1) // nchunk
    chunks = [keys[i:i + csize] for i in range(0, len(keys), csize)]
    with ThreadPoolExecutor(max_workers=common.NCPU) as ex:
        fresh = list(ex.map(lambda ch: run_file(exe, [case_line(*k) for k in ch], "fresh"), chunks))
    n_proc_mismatch = 0
    for ch, out in zip(chunks, fresh):
        bad = [i for i, (k, d) in enumerate(zip(ch, out)) if d != universe[k]]
        n_proc_mismatch += len(bad)
        if bad:
            i = bad[0]
            k = ch[i]
            lines = shrink(exe, [case_line(*x) for x in ch[:i + 1]], "fresh", universe[k])
            hits.append((k[1], "op %s with a NEW parser, in a process that made %d other calls before, differs from the "
                               "same call alone in a new process" % (k[0], len(lines) - 1),
                         {"mode": "history", "submode": "fresh", "history": lines, "index": len(lines) - 1, "input": k[1],
                          "input_hex": hx(k[1]), "op": k[0], "ext": k[2][0], "conv": k[2][1], "differing_calls": len(bad)}))
    stats["fresh_process_per_call"] = len(keys)
    stats["fresh_parser_shared_process_calls"] = len(keys)

    # ambient perturbation: the same call alone in a process of its own, but started (A) in a new working
    # directory that holds `<name>.cook` for every recipe reference of the inputs, with locale / time zone / HOME /
    # COOKLANG_* variables changed, and (B) in a new empty directory with other values.  The baseline above ran in
    # /verif with the caller's environment.  Same (text, extensions, converter) => same result, or C18 fails.
    pk = list(dict.fromkeys((k[1], k[2]) for k in keys if "@" in k[1] and k[2][0] & 2))
    rl = common.run_lines(exe, [case_line("p", s, cfg) for s, cfg in pk], env={"HIST_MODE": "refs"}, tag="c18refs")
    ref_names = set()
    inputs_with_refs = set()
    for (s, cfg), l in zip(pk, rl):
        if l != "-":
            inputs_with_refs.add(s)
            for h in l.split(","):
                ref_names.add(unhx(h))
    amb_root = os.path.join(common.BUILD, "c18-amb-%d" % os.getpid())
    envs = make_ambient(amb_root, ref_names)
    baseline_env = {"cwd": common.VERIF, "vars": {v: os.environ.get(v) for v in sorted(AMBIENT_VARS["A"])}, "files": []}
    n_amb_mismatch = 0
    amb_calls = 0
    try:
        for label in ("A", "B"):
            # B (nothing on disk, like the baseline) on the calls whose input has a reference plus every third other
            sel = keys if label == "A" else [k for i, k in enumerate(keys) if k[1] in inputs_with_refs or i % 3 == 0]
            out = common.run_lines(exe, [case_line(*k) for k in sel], env=ambient_env(envs[label]), shards=16,
                                   tag="c18amb" + label)
            amb_calls += len(sel)
            per_input = set()
            for k, d in zip(sel, out):
                if d != universe[k]:
                    n_amb_mismatch += 1
                    if (k[1], k[0]) in per_input or len(per_input) >= 12:
                        continue
                    per_input.add((k[1], k[0]))
                    diff = None
                    try:
                        a = run_file(exe, [case_line(*k)], "spawn", env={"HIST_FULL": "1"})[0]
                        b = run_file(exe, [case_line(*k)], "spawn", env=dict(ambient_env(envs[label]), HIST_FULL="1"))[0]
                        diff = first_diff(b, a)
                        diff = {"at": diff["at"], "perturbed": diff["history"], "baseline": diff["fresh"]}
                    except common.Broken:
                        pass
                    hits.append((k[1], "op %s alone in a new process gives another result when the process starts in "
                                       "another working directory / environment (%s)" % (k[0], label),
                                 {"mode": "ambient", "case": case_line(*k), "input": k[1], "input_hex": hx(k[1]),
                                  "op": k[0], "ext": k[2][0], "conv": k[2][1], "env_baseline": baseline_env,
                                  "env_perturbed": {"label": label, "cwd_relative_to_root": os.path.relpath(envs[label]["cwd"], amb_root),
                                                    "vars": AMBIENT_VARS[label], "files": envs[label]["files"]},
                                  "recipe_references": sorted(ref_names), "diff": diff}))
    finally:
        import shutil
        shutil.rmtree(amb_root, ignore_errors=True)
    stats["ambient_calls"] = amb_calls
    stats["ambient_mismatches"] = n_amb_mismatch
    stats["ambient_environments"] = 2
    stats["inputs_with_recipe_references"] = len(inputs_with_refs)
    stats["distinct_recipe_reference_names"] = len(ref_names)
    stats["ambient_files_created"] = len(envs["A"]["files"])

    # buffer placement: every reference call again with the text at 9 consecutive offsets of a larger buffer (all
    # 8 residues of the start address modulo 8), from the middle of a longer String and behind a stripped BOM.
    # The result may depend on the text, not on where its bytes live.
    pl = common.run_lines(exe, [case_line(*k) for k in keys], env={"HIST_MODE": "place"}, tag="c18place")
    n_place_bad = 0
    n_place_vs_alone = 0
    place_variants = 0
    residues = 8
    seen_inputs = set()
    for k, l in zip(keys, pl):
        base, nvar, nbad, first, nres = l.split(" ")
        place_variants += int(nvar)
        residues = min(residues, int(nres))
        if int(nbad) == 0 and base != universe[k]:
            # all placements agree with each other but not with the call alone: an effect of the earlier calls of
            # this long-running process, which the fresh / history passes report with a replay that reproduces it
            n_place_vs_alone += 1
            continue
        if int(nbad) > 0:
            n_place_bad += int(nbad)
            if (k[1], k[0]) in seen_inputs or len(seen_inputs) >= 12:
                continue
            seen_inputs.add((k[1], k[0]))
            diff = None
            try:
                t = run_file(exe, [case_line(*k)], "place", env={"HIST_FULL": "1"})[0].split("\t")
                if len(t) == 2:
                    a, b = t[0].split(" ", 1), t[1].split(" ", 1)
                    d = first_diff(b[1], a[1])
                    diff = {"at": d["at"], b[0]: d["history"], a[0]: d["fresh"]}
            except common.Broken:
                pass
            hits.append((k[1], "op %s gives another result when the same text lies elsewhere in memory (%s of %s placements "
                               "differ from offset 0, first: %s = placement@address mod 8)" % (k[0], nbad, nvar, first),
                         {"mode": "placement", "case": case_line(*k), "input": k[1], "input_hex": hx(k[1]), "op": k[0],
                          "ext": k[2][0], "conv": k[2][1], "placements_differing": int(nbad), "first_differing": first,
                          "offset0": base, "alone_in_own_process": universe[k], "diff": diff}))
    stats["placement_calls"] = place_variants
    stats["placement_mismatches"] = n_place_bad
    stats["placement_runs_differing_from_call_alone"] = n_place_vs_alone
    stats["placement_address_residues_mod8"] = residues

    # cold start: a new process, 16 threads lined up by a spinning barrier before every input, all parsing inputs
    # with punctuation / space characters that this process has never lexed; one code-point group per process,
    # several processes per group; compared with the same call alone in a process of its own
    cold = cold_pools()
    cold_cfg = CONFIGS[0]
    cold_keys = list(dict.fromkeys(("p", t, cold_cfg) for _, texts, _ in cold for t in texts))
    cold_ref = dict(zip(cold_keys, common.run_lines(exe, [case_line(*k) for k in cold_keys], env={"HIST_MODE": "spawn"},
                                                    shards=16, tag="c18coldref")))
    cold_repeats = 3 if quick else 10

    def cold_round(arg):
        (name, texts, nchars), rep_i = arg
        return run_file(exe, [case_line("p", t, cold_cfg) for t in texts], "cold",
                        env={"HIST_THREADS": 16, "HIST_EXT": cold_cfg[0], "HIST_CONV": cold_cfg[1]})

    cold_jobs = [(g, i) for i in range(cold_repeats) for g in cold]
    with ThreadPoolExecutor(max_workers=1) as ex:        # one 16-thread process at a time: the threads must run together
        cold_outs = list(ex.map(cold_round, cold_jobs))
    cold_calls = cold_bad = 0
    for ((name, texts, nchars), rep_i), out in zip(cold_jobs, cold_outs):
        for t, line in zip(texts, out):
            alone, nobs, nbad, first = line.split(" ")
            cold_calls += int(nobs)
            k = ("p", t, cold_cfg)
            if int(nbad) > 0 or alone != cold_ref[k]:
                cold_bad += max(1, int(nbad))
                if sum(1 for h in hits if h[2].get("mode") == "cold") >= 6:
                    continue
                hits.append((t, "cold start: %s of %s threads that met this input together, first in their process, return "
                                "something else than the same call alone (%s, process %d)" % (nbad, nobs, name, rep_i),
                             {"mode": "cold", "group": name, "pool": [case_line("p", x, cold_cfg) for x in texts],
                              "threads": 16, "input": t, "input_hex": hx(t), "op": "p", "ext": cold_cfg[0], "conv": cold_cfg[1],
                              "codepoints": ["U+%04X" % ord(c) for c in t if ord(c) > 127 and c not in "酱油糖"][:8],
                              "alone_in_own_process": cold_ref[k], "after_the_round": alone, "concurrent": first,
                              "note": "a race with a window of nanoseconds, once per character and process: the replay "
                                      "repeats the round up to 40 times"}))
    stats["cold_start_processes"] = len(cold_jobs)
    stats["cold_start_calls"] = cold_calls
    stats["cold_start_mismatches"] = cold_bad
    stats["cold_start_characters"] = sum(n for _, _, n in cold)
    stats["cold_start_groups"] = [name for name, _, _ in cold]

    def check_history(h, what):
        out = run_file(exe, [case_line(*k) for k in h], "hist")
        bad = [i for i, (k, d) in enumerate(zip(h, out)) if d != universe[k]]
        return bad

    def report_history(h, bad, label):
        i = bad[0]
        k = h[i]
        lines = shrink(exe, [case_line(*x) for x in h[:i + 1]], "hist", universe[k])
        diff = None
        try:
            a = run_file(exe, lines, "hist", env={"HIST_FULL": "1"})[-1]
            b = full_text(exe, lines[-1])
            diff = first_diff(a, b)
        except common.Broken:
            pass
        hits.append((k[1], "%s: call %d (op %s) returns something else than a fresh parser in a fresh process"
                     % (label, len(lines) - 1, k[0]),
                     {"mode": "history", "submode": "hist", "history": lines, "index": len(lines) - 1, "input": k[1], "input_hex": hx(k[1]),
                      "op": k[0], "ext": k[2][0], "conv": k[2][1], "differing_calls": len(bad), "diff": diff}))

    with ThreadPoolExecutor(max_workers=common.NCPU) as ex:
        rep_bad = list(ex.map(lambda h: check_history(h, "repeat"), rep_hist))
        his_bad = list(ex.map(lambda h: check_history(h, "history"), histories))
    for h, bad in zip(rep_hist, rep_bad):
        if bad:
            report_history(h, bad, "repeat x3")
    for h, bad in zip(histories, his_bad):
        if bad:
            report_history(h, bad, "history")
    stats["repeat_calls"] = sum(len(h) for h in rep_hist)
    stats["repeat_mismatches"] = sum(len(b) for b in rep_bad)
    stats["histories"] = len(histories)
    stats["history_calls"] = sum(len(h) for h in histories)
    stats["history_mismatches"] = sum(len(b) for b in his_bad)
    stats["histories_on_one_parser"] = sum(1 for h in histories if len({k[2] for k in h}) == 1)

    # threads: each round is its own process, so the first access of the lazily built table races in
    # every round
    builds = [("debug", exe)] + ([] if quick else [("release", hist_exe(release=True))])

    def one_round(arg):
        r, (cfg, pool), (bname, bexe) = arg
        # every third round uses three times as many threads (same number of parses): some faults need more calls in
        # flight at once than there are cores
        nt = n_threads * 3 if r % 3 == 2 else n_threads
        out = run_file(bexe, [case_line(*k) for k in pool], "threads",
                       env={"HIST_THREADS": nt, "HIST_ITERS": iters * n_threads // nt, "HIST_SEED": seed * 1000 + r,
                            "HIST_EXT": cfg[0], "HIST_CONV": cfg[1]})
        return out

    jobs = [(r, pools[r], b) for b in builds for r in range(n_rounds)]
    with ThreadPoolExecutor(max_workers=2) as ex:     # two 16-thread processes at a time: oversubscribed on purpose
        outs = list(ex.map(one_round, jobs))
    thread_parses = 0
    thread_bad = 0
    for (r, (cfg, pool), (bname, _)), out in zip(jobs, outs):
        for k, line in zip(pool, out):
            alone, nobs, nbad, first = line.split(" ")
            thread_parses += int(nobs)
            if int(nbad) > 0:
                thread_bad += int(nbad)
                hits.append((k[1], "threads sharing one parser: %s of %s concurrent results of op %s differ from the "
                             "single-threaded result (%s build, round %d)" % (nbad, nobs, k[0], bname, r),
                             {"mode": "threads", "round": r, "build": bname, "pool": [case_line(*x) for x in pool],
                              "threads": n_threads, "iters": iters, "seed": seed * 1000 + r, "input": k[1],
                              "input_hex": hx(k[1]), "op": k[0], "ext": cfg[0], "conv": cfg[1],
                              "single_threaded": alone, "concurrent": first}))
            elif alone != universe[k]:
                thread_bad += 1
                hits.append((k[1], "after %d threads shared the parser, op %s alone returns something else than a fresh "
                             "process (%s build, round %d)" % (n_threads, k[0], bname, r),
                             {"mode": "threads", "round": r, "build": bname, "pool": [case_line(*x) for x in pool],
                              "threads": n_threads, "iters": iters, "seed": seed * 1000 + r, "input": k[1],
                              "input_hex": hx(k[1]), "op": k[0], "ext": cfg[0], "conv": cfg[1],
                              "single_threaded": alone, "fresh": universe[k]}))
    stats["thread_rounds"] = len(jobs)
    stats["threads_per_round"] = n_threads
    stats["thread_calls"] = thread_parses
    stats["thread_mismatches"] = thread_bad

    # how many of the scale/convert results went through the fraction table (a fraction with num > 0)
    s_keys = [k for k in keys if k[0] == "s"][:600]
    table_users = 0
    if s_keys:
        texts = common.run_lines(exe, [case_line(*k) for k in s_keys], env={"HIST_MODE": "fresh", "HIST_FULL": "1"},
                                 tag="c18full")
        table_users = sum(1 for t in texts if re.search(r'"num":[1-9]', t))
    stats["scale_convert_results_using_fraction_table"] = table_users
    stats["scale_convert_results_inspected"] = len(s_keys)
    distinct_results = len(set(universe.values()))

    # ---- decision ------------------------------------------------------------------------------------
    # The model's prediction (C18_history / C18_schedule) is `map pure_parse`: every result equals the
    # result of the same call alone.  pure_parse is instantiated by the fresh-process result, so a
    # model/implementation disagreement IS a monitor hit; there is no separate disagreement list.
    if expected is not None and items != expected and audit["ok"]:
        audit = dict(audit, ok=False, failed=audit["failed"] + ["Gen/SharedState.items differs from the list in C18_inventory"])
    if not audit["ok"]:
        new = [x for x in items if expected is None or items.count(x) > expected.count(x)]
        gone = [x for x in (expected or []) if expected.count(x) > items.count(x)]
        where = [it for it in inv["items"] if (it["area"], it["kind"]) in new]
        audit = dict(audit, failed=audit["failed"] + (
            ["shared-state inventory changed: new %s at %s; gone %s; the history/thread search (%d calls) found %s"
             % (sorted(set(new)), ["%s:%d %s" % (w["file"], w["line"], w["what"]) for w in where], sorted(set(gone)),
                stats["repeat_calls"] + stats["history_calls"] + thread_parses,
                "a failing input" if hits else "no failing input")] if (new or gone) else []))
    common.decide(rep, PID, "L-hist", audit, hits, [], tier,
                  "state model Model/Shared.v <-> shared state of /repo/src (Gen/SharedState.v)")
    common.proof_coverage(rep, PID, audit, tier,
                          "the state bookkeeping only: CooklangParser {extensions, converter} (src/lib.rs 166-251), the "
                          "per-call RecipeCollector (src/analysis/event_consumer.rs 51-85), the process-wide "
                          "LazyLock<FractionLookupTable> (src/quantity.rs 633-634), probed hash maps (convert/mod.rs "
                          "246-256, event_consumer.rs 106-111, 444-500); the parse function is a Section variable; "
                          "memory-level interleavings, Send/Sync soundness and std::sync::LazyLock are not modelled")
    calls = stats["repeat_calls"] + stats["history_calls"] + thread_parses + len(keys) + amb_calls + place_variants + cold_calls
    rep.coverage.update({
        "evaluations": calls + len(keys), "distinct_nontrivial": distinct_results,
        "rule": "exploration in support of the proof, not a proof about schedules: (i) every input 3x in a row on one "
                "parser under %d configurations; (ii) %d seeded histories of %d calls in one process (parsers created once; "
                "parse / metadata-only / parse+scale+convert mixed; half on a single parser, half hopping between %d "
                "parsers); (iii) %d rounds (each its own process) of %d threads sharing one Arc<CooklangParser> behind a "
                "barrier, %d calls per thread over a common pool that includes scale+convert, first call of every thread "
                "a scale+convert; every result compared with the same call made alone by a fresh "
                "converter+parser in a process of its own (%d reference processes), and those again with fresh parsers "
                "in 16 long-running processes; (iv) ambient perturbation: the reference calls again, each alone in a new process "
                "started in a freshly created working directory holding <name>.cook for every recipe reference of the inputs "
                "with LANG/LC_ALL/TZ/HOME/COOKLANG_*/RUST_LOG changed, and in an empty directory with other values; (v) buffer placement: every reference call with the text at 9 consecutive offsets of a larger buffer, "
                "inside a longer String and behind a stripped BOM; (vi) cold start: new processes in which 16 threads, lined up "
                "by a spinning barrier, together meet inputs with punctuation/space characters the process never lexed (one "
                "code-point group per process); inputs: generated recipes, one-token mutations, short random strings, fixed "
                "specials; distinct_nontrivial = distinct canonical results among the reference evaluations"
                % (len(rep_hist), n_hist, hist_len, len(CONFIGS), len(jobs), n_threads, iters, len(keys)),
        "exhaustive": False,
        "inputs": len(inputs), "input_sources": gen_counts, "reference_evaluations": len(keys),
        "configurations": ["ext=%d conv=%s" % c for c in CONFIGS],
        "inventory_items": ["%s:%s" % x for x in items],
        "inventory_expected": None if expected is None else ["%s:%s" % x for x in expected],
        "inventory_locations": ["%s:%d %s (%s)" % (it["file"], it["line"], it["what"], it["kind"]) for it in inv["items"]],
        "inventory_file_rewritten": inv["changed"],
        "hash_iteration_sites_advisory": ["%s:%d %s" % (it["file"], it["line"], it["what"]) for it in inv.get("advisory", [])],
        "ambient_variables": AMBIENT_VARS,
        "schedules_explored": len(jobs), "histories_explored": len(histories) + len(rep_hist),
        "thread_count": n_threads, "builds": [b for b, _ in builds],
        "model_prediction": "map pure_parse (C18_history, C18_schedule): every call equals the same call alone; "
                            "pure_parse instantiated by the fresh-process result; compared on %d calls" % calls,
        "process_mismatches": n_proc_mismatch,
        "monitor_violations": len(hits),
        "samples": [{"call": {"op": k[0], "input": k[1], "ext": k[2][0], "conv": k[2][1]}, "digest": universe[k]}
                    for k in (keys[:2] + keys[len(keys) // 2:len(keys) // 2 + 2] + keys[-2:])] +
                   [{"history_prefix": [{"op": k[0], "input": k[1], "ext": k[2][0], "conv": k[2][1]} for k in histories[0][:5]],
                     "length": len(histories[0])},
                    {"thread_round": {"ext": pools[0][0][0], "conv": pools[0][0][1], "threads": n_threads,
                                      "calls_per_thread": iters, "pool_size": len(pools[0][1]),
                                      "pool_prefix": [{"op": k[0], "input": k[1]} for k in pools[0][1][:4]]}}],
    })
    rep.coverage.update(stats)
    try:
        os.rmdir(os.path.join(common.BUILD, "c18-run-%d" % os.getpid()))
    except OSError:
        pass
    rep.assumptions = [
        "the theorems are about the state model; that /repo has the modelled shape rests on the regenerated inventory "
        "(token-level scanner gen/gen_shared.py over src/**/*.rs) and on Rust's ownership rules for locals",
        "memory-level interleavings, Send/Sync soundness and std::sync::LazyLock/Once are the runtime's, not the model's",
        "thread schedules are whatever the OS produced in the explored rounds; they are not enumerated",
        "ambient state is perturbed along the axes working directory (files named after the inputs' recipe references), "
        "locale/time-zone/HOME/COOKLANG_*/RUST_* variables; clock, pid and randomness vary between processes anyway; "
        "the ambient-read inventory is a token-level scan (a read reached through a third-party crate or a re-exported "
        "alias is not seen); HashMap iteration is pinned on the parse path only and found by a same-file name heuristic",
        "state inside third-party crates (yansi's colour condition, tracing's dispatcher) is outside the inventory; "
        "report rendering is not part of the compared projection",
    ]


def setup():
    gen_shared.regenerate()
    hist_exe()
    common.build_coq(["Properties/C18.vo"])


def replay(rp):
    try:
        return _replay(rp)
    finally:
        try:
            os.rmdir(os.path.join(common.BUILD, "c18-run-%d" % os.getpid()))
        except OSError:
            pass


def _replay(rp):
    exe = hist_exe(release=rp["replay"].get("build") == "release")
    r = rp["replay"]
    if r.get("mode") == "history":
        a = run_file(exe, r["history"], r.get("submode", "hist"))[-1]
        b = run_file(exe, [r["history"][-1]], "spawn")[0]
        print("history: %s  fresh process: %s" % (a, b))
        return 0 if a == b else 1
    if r.get("mode") == "threads":
        out = run_file(exe, r["pool"], "threads", env={"HIST_THREADS": r["threads"], "HIST_ITERS": r["iters"],
                                                       "HIST_SEED": r["seed"], "HIST_EXT": r["ext"], "HIST_CONV": r["conv"]})
        bad = sum(int(l.split(" ")[2]) for l in out)
        print("differing concurrent results: %d" % bad)
        return 1 if bad else 0
    if r.get("mode") == "ambient":
        root = os.path.join(common.BUILD, "c18-amb-replay-%d" % os.getpid())
        envs = make_ambient(root, set(r.get("recipe_references", [])))
        try:
            a = run_file(exe, [r["case"]], "spawn")[0]
            b = run_file(exe, [r["case"]], "spawn", env=ambient_env(envs[r["env_perturbed"]["label"]]))[0]
        finally:
            import shutil
            shutil.rmtree(root, ignore_errors=True)
        print("baseline (cwd /verif): %s  perturbed: %s" % (a, b))
        return 0 if a == b else 1
    if r.get("mode") == "placement":
        out = run_file(exe, [r["case"]], "place")[0].split(" ")
        print("placements differing from offset 0: %s of %s (%s)" % (out[2], out[1], out[3]))
        return 1 if int(out[2]) else 0
    if r.get("mode") == "cold":
        bad = 0
        for i in range(40):
            out = run_file(exe, r["pool"], "cold", env={"HIST_THREADS": r["threads"], "HIST_EXT": r["ext"], "HIST_CONV": r["conv"]})
            bad = sum(int(l.split(" ")[2]) for l in out)
            if bad:
                break
        print("cold-start rounds run: %d, differing concurrent results in the last: %d" % (i + 1, bad))
        return 1 if bad else 0
    if r.get("mode") == "process":
        a = run_file(exe, [r["case"]], "spawn")[0]
        b = run_file(exe, [r["case"]], "spawn")[0]
        c = run_file(exe, [r["case"]], "fresh")[0]
        print(a, b, c)
        return 0 if a == b == c else 1
    # a broken obligation without a failing input: rebuild the obligations
    gen_shared.regenerate()
    audit = common.audit_property_file(PID)
    print("obligations: %d/%d %s" % (audit["discharged"], audit["obligations"], "; ".join(audit["failed"])))
    return 0 if audit["ok"] else 1
