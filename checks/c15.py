"""C15 - recipes survive serialization.
Theorems: coq/Properties/C15.v (generic serde model Model/Serde.v, descriptors regenerated into
coq/Gen/SerdeDesc.v by gen/gen_serde.py on every run).
Monitor (on the implementation, harness bin `serde`): from_str(to_string(r)) equals r - PartialEq AND a
serde-independent structural dump with f64 bit patterns, skipped payloads reset to Default - and the
re-serialisation is byte-identical.
Correspondence L-serde: serde_json's JSON tree == ser(descriptor, dump); de(descriptor, that JSON)
agrees with from_str (accept / equal / re-serialises identically); on mutated JSON (dropped field,
renamed tag, wrong variant, wrong shape, reordered / extra keys, flag strings) de and from_str agree on
accept/reject and on the re-serialisation."""
import json
import os
import random
import subprocess
import sys
from collections import Counter

from vlib import common
from vlib.common import hx, unhx

sys.path.insert(0, os.path.join(common.VERIF, "gen"))
import gen_serde  # noqa: E402
import grec  # noqa: E402

DEPS = ["Base/Chars.v", "Model/Serde.v", "Gen/SerdeDesc.v"]
CLASS_META = "metadata_non_string_key_or_yaml_tag"
CLASS_FLOAT = "f64_not_reparsed_exactly_by_serde_json"
ALL_EXT = 65535          # from_bits_truncate keeps the defined bits
WITNESS = "---\n3: x\nt: !tag y\n---\nstep\n"


# ----------------------------------------------------------------------------- JSON trees

class Num(str):
    """a JSON number, kept as the text serde_json printed"""


class Obj(list):
    """a JSON object as an ordered list of (key, value)"""


def jparse(text):
    return json.loads(text, object_pairs_hook=Obj, parse_float=Num, parse_int=Num,
                      parse_constant=lambda c: Num(c))


def jtokens(t, out):
    if t is None:
        out.append("jn")
    elif t is True:
        out.append("jt")
    elif t is False:
        out.append("jf")
    elif isinstance(t, Num):
        out.append("jN" + t)
    elif isinstance(t, str):
        out.append("jS" + hx(t))
    elif isinstance(t, Obj):
        out.append("jO%d" % len(t))
        for k, v in t:
            out.append(hx(k))
            jtokens(v, out)
    elif isinstance(t, list):
        out.append("jA%d" % len(t))
        for v in t:
            jtokens(v, out)
    else:
        raise ValueError(t)
    return out


def jtok(t):
    return " ".join(jtokens(t, []))


def jtext(t):
    if t is None:
        return "null"
    if t is True:
        return "true"
    if t is False:
        return "false"
    if isinstance(t, Num):
        return str(t)
    if isinstance(t, str):
        return json.dumps(t, ensure_ascii=False)
    if isinstance(t, Obj):
        return "{" + ",".join(json.dumps(k, ensure_ascii=False) + ":" + jtext(v) for k, v in t) + "}"
    return "[" + ",".join(jtext(v) for v in t) + "]"


def fields(line, sep=" ;; "):
    d = {}
    for part in line.split(sep):
        k, _, v = part.partition(" ")
        d[k] = v
    return d


# ----------------------------------------------------------------------------- generators

WORDS = ["Pasta", "a simple dish", "dinner", "x y z", "été", "名前", "with \"quotes\"", "a: b", "", " lead", "#5", "line\nbreak"]
KEYS = ["title", "description", "course", "cuisine", "k1", "author", "source", "notes", "Émile", "a b", "tags"]


def y_scalar(rng):
    r = rng.random()
    if r < 0.35:
        return json.dumps(rng.choice(WORDS))
    if r < 0.55:
        return str(rng.choice([0, 1, 2, 7, 42, -1, -35, 1000000, 18446744073709551615, -9223372036854775808, 4294967296]))
    if r < 0.75:
        return rng.choice(["1.5", "0.1", "-0.25", "2.0", "1.0e-7", "123456789.125", "3.141592653589793", "1.0e+21",
                           "-0.0", "6.02e23", "%r" % round(rng.uniform(-1000, 1000), rng.randint(1, 6))])
    if r < 0.87:
        return rng.choice(["true", "false"])
    return rng.choice(["null", "~"])


def y_value(rng, depth=0):
    r = rng.random()
    if depth >= 3 or r < 0.55:
        return y_scalar(rng)
    if r < 0.78:
        return "[" + ", ".join(y_value(rng, depth + 1) for _ in range(rng.randint(0, 4))) + "]"
    ks = rng.sample(KEYS, rng.randint(0, 3))
    return "{" + ", ".join(json.dumps(k) + ": " + y_value(rng, depth + 1) for k in ks) + "}"


def front_matter(rng, unsafe):
    """YAML front matter, one top-level key per line, values in flow (JSON-like) style.
    unsafe: add what JSON cannot represent - non-string keys and tagged values."""
    lines = []
    for k in rng.sample(KEYS, rng.randint(1, 5)):
        key = k if (k.isalnum() and k.isascii() and rng.random() < 0.7) else json.dumps(k)
        lines.append("%s: %s" % (key, y_value(rng)))
    if rng.random() < 0.4:
        lines.append("servings: %s" % rng.choice(["2", "4", "12", '"2|4|6"', '"6 people"']))
    if rng.random() < 0.2:
        lines.append("time: %s" % rng.choice(['"1h 30min"', "45", '{"prep_time": "10 min", "cook_time": "1h"}']))
    if unsafe:
        for _ in range(rng.randint(1, 3)):
            r = rng.random()
            if r < 0.5:
                key = rng.choice(["3", "1.5", "true", "~", "-7", "[1, 2]", "{a: 1}", "null"])
                lines.append("%s: %s" % (key, y_value(rng, 2)))
            elif r < 0.6:
                lines.append('3: x\n"3": y')
            elif r < 0.85:
                lines.append("%s: !%s %s" % (rng.choice(["tagged", "t2"]), rng.choice(["tag", "point", "my-tag"]),
                                              y_value(rng, 2)))
            else:
                lines.append("nested%d: [1, !inner x, {k: !deep 2}]" % rng.randint(0, 9))
        rng.shuffle(lines)
    return "---\n" + "\n".join(lines) + "\n---\n"


CURATED = [
    "Bake at 180 °C for ~{20%min}. Add 2 cups of @water{} and 250 ml more.\n",
    "@./sauces/tomato sauce{1%cup} with @pasta{500%g} and @./bases/dough{}\n",
    "@flour{1/3%cup} @sugar{2 1/2%tbsp} @milk{0.333%l} @butter{1-2%tbsp} @salt{a pinch} @eggs{3} @oil{=2%tbsp}\n",
    "= Dough\n@flour{500%g} and @water{300%ml}.\n\nKnead.\n\n= Filling\nUse @&(=1)dough{} and @&(~1)mix{} with @&flour{50%g}.\n",
    "Mix @a{1%kg} in #bowl{2}, #pan{big} then #&bowl and ~rest{1%h} ~{90%s} ~nap{2-3%hours}\n",
    "> A note paragraph.\n\n@x{1.5%lb} @y{16%oz} @z{0.001%g} @w{1000000%ml} @v{3%pinch}\n",
    ">> title: Old style\n>> servings: 3\n@rice{200%g}\n",
]


NAMES = ["flour", "sugar", "milk", "butter", "water", "rice", "stock", "oil", "cream", "soda", "oats", "honey"]


def amount_recipes(rng, n):
    """many metric amounts, to be converted to both systems: the imperial side approximates by fractions,
    so the `err` of the result takes every size from 0 up to the accuracy limit (tiny non-zero ones
    included: 355 ml, 907 g, 2011 ml ...)"""
    out = []
    common_amounts = [(355, "ml"), (907, "g"), (2011, "ml"), (151, "g"), (567, "g"), (2268, "g"), (414, "ml"),
                      (552, "ml"), (828, "ml"), (454, "g"), (250, "ml"), (1, "kg"), (330, "ml"), (75, "cl")]
    for i in range(n):
        items = []
        for j in range(rng.randint(6, 14)):
            r = rng.random()
            if r < 0.2:
                a, u = rng.choice(common_amounts)
            elif r < 0.6:
                a, u = rng.randint(1, 3000), rng.choice(["g", "ml"])
            elif r < 0.8:
                a, u = rng.choice([5, 10, 15, 20, 25, 30, 40, 50, 60, 75, 80, 100, 120, 125, 150, 175, 200, 225,
                                   300, 350, 400, 450, 500, 600, 700, 750, 800, 900, 1000, 1500, 2000]), rng.choice(["g", "ml"])
            else:
                a, u = round(rng.uniform(0.05, 5), rng.randint(1, 3)), rng.choice(["kg", "l", "dl", "cl"])
            items.append("@%s{%s%%%s}" % (rng.choice(NAMES), a, u))
        body = "Mix " + ", ".join(items[:len(items) // 2]) + ".\n\nAdd " + " and ".join(items[len(items) // 2:]) + ".\n"
        if rng.random() < 0.5:
            body += "\nBake in #oven for ~{%d%%min}.\n" % rng.choice([20, 45, 90])
        out.append(body)
    return out


def sparse_recipes():
    """recipes that lack a component kind altogether (no ingredients / cookware / timers), so the
    per-kind lists of the scaling outcome are empty"""
    return ["Just stir and wait.\n",
            "Boil.\n\nServe.\n",
            "Heat the #pan{} and the #pot{2}.\n",
            "Wait ~{10%min} then ~rest{1%h}.\n",
            "@salt{1%tsp}\n",
            "@flour{200%g} in a #bowl{}.\n",
            "@eggs{3} for ~{4%min}.\n",
            "#pot{} for ~{4%min}.\n",
            "= Only a section\n\n> and a note\n"]


def inter_ref_recipes(rng, n):
    """intermediate-preparation references to late steps / sections in recipes with few ingredients (the
    target is an index into Section::content or Recipe::sections, not into the ingredients)"""
    verbs = ["Boil water.", "Stir well.", "Let it rest.", "Cool down.", "Whisk.", "Fold gently.", "Season.",
             "Heat the #pan{}.", "Wait ~{5%min}.", "Knead.", "> a remark"]
    out = []
    for i in range(n):
        if rng.random() < 0.55:
            k = rng.randint(2, 9)
            steps = [rng.choice(verbs) for _ in range(k)]
            if rng.random() < 0.4:
                steps[rng.randrange(k)] = "Add @salt{1%tsp}."
            nsteps = sum(1 for x in steps if not x.startswith(">"))
            if nsteps == 0:
                continue
            t = rng.randint(1, nsteps)
            ref = "(%d)" % t if rng.random() < 0.5 else "(~%d)" % t
            last = "Use the @&%s%s{%s} now." % (ref, rng.choice(["result", "mix", "base"]), rng.choice(["", "", "100%g", "1/2"]))
            if rng.random() < 0.3:
                last += " And again @&%s%s{}." % ("(~1)", "mix")
            out.append("\n\n".join(steps + [last]) + "\n")
        else:
            k = rng.randint(2, 6)
            secs = []
            for j in range(k):
                secs.append("= Part %d\n\n%s" % (j + 1, "\n\n".join(rng.choice(verbs) for _ in range(rng.randint(1, 3)))))
            t = rng.randint(1, k)
            ref = "(=%d)" % t if rng.random() < 0.5 else "(=~%d)" % t
            secs.append("= Assembly\n\n%sCombine @&%s%s{} and serve."
                        % ("Take @cream{100%ml}. " if rng.random() < 0.3 else "", ref, rng.choice(["sauce", "dough", "filling"])))
            out.append("\n\n".join(secs) + "\n")
    return out


EDGE_META = [
    "servings: []", "servings: [4]", "servings: 4", "servings: 2|4", "servings: \"2|4\"", "servings: [6, 3]", "servings: 0",
    "servings: [0]", "servings: \"\"", "servings: {}", "servings: ~", "servings: 4294967295", "servings: 4294967296",
    "yield: []", "yield: [2]", "yield: 3", "serves: []", "serves: 2|3", "serves: \"\"",
    "tags: []", "tags: {}", "tags: \"\"", "tags: [\"\"]", "tags: [a, \"\", b]", "tags: ~",
    "time: {}", "time: []", "time: \"\"", "time: 0", "time: {prep_time: 0}", "prep time: {}", "cook time: []",
    "title: \"\"", "title: []", "title: {}", "description: ~", "author: {}", "author: \"\"", "source: []", "images: []",
    "locale: \"\"", "difficulty: []", "course: {}", "empty_list: []", "empty_map: {}", "empty_str: \"\"",
    "nested_empty: [[], {}, \"\", [[]], {a: {}}]",
    "big: 9223372036854775807", "big1: 9223372036854775808", "big2: 18446744073709551615", "neg: -9223372036854775808",
    "bigs: [9223372036854775806, 9223372036854775807, 9223372036854775808, 18446744073709551614, 18446744073709551615]",
    "bigf: 9223372036854775807.0", "bigf1: 9223372036854775808.0", "bigf2: 1.8446744073709552e19", "two53: 9007199254740993",
]
EDGE_BODIES = [
    "@stock{3-2%l} then @wine{2-2%dl} and @water{1-1}.\n",
    "@a{5-1%g} @b{0-0%ml} @c{10-0.5%kg} @d{1/2-1/4%cup} #pans{3-2} ~{10-5%min}\n",
    "@flour{0%g} @salt{0} @x{-0%g}\n",
    "@rice{200%g} and @stock{3-2%l} in #pot{}. ~{20%min}\n",
    "Stir.\n",
]


def edge_recipes(rng, n):
    """metadata shapes at the edges (empty and singleton servings / yield / serves lists, empty lists, maps
    and strings where a standard key expects something else, integers around i64::MAX and u64::MAX) and
    descending / flat / zero ranges"""
    out = []
    for line in EDGE_META:
        out.append("---\n%s\n---\n%s" % (line, EDGE_BODIES[3]))
    for body in EDGE_BODIES:
        out.append(body)
        out.append("---\nservings: [2, 4]\n---\n" + body)
    for _ in range(n):
        lines = rng.sample(EDGE_META, rng.randint(1, 4))
        keys = set()
        keep = []
        for l in lines:
            k = l.split(":")[0]
            if k not in keys:
                keys.add(k)
                keep.append(l)
        out.append("---\n%s\n---\n%s" % ("\n".join(keep), rng.choice(EDGE_BODIES)))
    return out


PATH_PARTS = ["sauces", "mom's \"special\" sauce", "tomato", "a b", "crème", "名前", "it's", "x\ty", "say \"hi\"", "q\"",
              "..", "", "salsa verde", "50% off", "back\\\\slash", "tab\there", "dough", "weird\u0001ctl", "\u007f", "é\"é"]


def ref_recipes(rng, n):
    """ingredients that reference another recipe by relative path (`@./dir/name{}`, `@../x/y{}`,
    `@.\\dir\\name{}`) or by the recipe modifier (`@@name{}`), with path components that JSON has to escape
    (double quote, backslash, control characters) or not (spaces, single quotes, non-ASCII)"""
    fixed = ["@./sauces/mom's \"special\" sauce{1%cup}\n",
             "@./sauces/tomato{1%cup} and @../x/y{} and @@pesto{2%tbsp} and @@./deep/er/pesto{}\n",
             "@./a\tb/c\td{2} then @&./a\tb/c\td{1}\n",
             "@.\\\\win\\\\style{1} @..\\\\up\\\\one{}\n",
             "@./\"{}\n", "@./\"/\"{}\n", "@../{}\n", "@.//{}\n", "@./a//b{}\n",
             "Mix @./crème/brûlée \"maison\"{3} in #./not/a/ref{}.\n"]
    out = list(fixed)
    for _ in range(n):
        items = []
        for _ in range(rng.randint(1, 4)):
            parts = [rng.choice(PATH_PARTS) for _ in range(rng.randint(1, 3))]
            sep = "/" if rng.random() < 0.85 else "\\\\"
            head = rng.choice(["./", "../", "./", ".\\\\" if sep != "/" else "./"])
            mods = rng.choice(["", "", "@", "?", "@-", "&"])
            q = rng.choice(["", "1%cup", "2", "1/2%l", "250%g", "a bit"])
            items.append("@%s%s%s{%s}" % (mods, head, sep.join(parts), q))
        if rng.random() < 0.3:
            items.append("@@%s{%s}" % (rng.choice(["pesto", "mom's \"best\"", "a b c"]), rng.choice(["", "1%cup"])))
        out.append("Combine " + " and ".join(items) + ".\n")
    return out


def mode_recipes(rng, n):
    """`>> [mode]` / `[define]` / `[duplicate]` blocks (Extensions::MODES): components declared up front
    (defined_in_step = false), steps mode (everything is a reference), text mode, duplicates as references"""
    fixed = [
        ">> [mode]: components\n@flour{500%g}\n@water{300%ml}\n#bowl{}\n>> [mode]: default\nMix @&flour{100%g} and @&water{} in #&bowl.\n",
        ">> [define]: ingredients\n@salt{1%tsp}\n@igr\n\n>> [define]: steps\nAdd @salt and @igr{}. ~{5%min}\n",
        ">> [define]: components\n@a{1%kg}\n#pan{2}\n>> [define]: all\n@b{2%g} with @&a{} in #&pan.\n",
        ">> [duplicate]: reference\n@flour{200%g} then more @flour{50%g} and @sugar{1%tbsp}, @sugar.\n\n#pot{} and again #pot.\n",
        ">> [duplicate]: ref\n@x{1}\n\n>> [duplicate]: new\n@x{2} @x{3}\n",
        ">> [mode]: text\nThis @is{not} a #component ~{1%min}.\n\n>> [mode]: default\nBut @this{1%g} is.\n",
        ">> [mode]: components\n@only{1%l}\n#declared{}\n",
        ">> [mode]: components\n@./sauces/base \"x\"{1%cup}\n>> [mode]: steps\nUse @./sauces/base \"x\"{}.\n",
        ">> [mode]: components\n@stock{3-2%l}\n@eggs{3}\n@salt{a pinch}\n>> [mode]: all\nBoil @&stock{1%l} with @&eggs{1}. ~{10%min}\n",
    ]
    out = list(fixed)
    names = ["flour", "water", "salt", "eggs", "oil", "olive oil", "brown sugar"]
    cws = ["bowl", "pan", "large pot"]
    for _ in range(n):
        blocks = []
        decl = rng.sample(names, rng.randint(1, 4))
        dcw = rng.sample(cws, rng.randint(0, 2))
        blocks.append(">> [%s]: %s" % (rng.choice(["mode", "define"]), rng.choice(["components", "ingredients"])))
        for nm in decl:
            blocks.append("@%s{%s}" % (nm, rng.choice(["", "500%g", "2", "1/2%cup", "1-2%tbsp", "some", "=3%l"])))
        for nm in dcw:
            blocks.append("#%s{%s}" % (nm, rng.choice(["", "2", "big"])))
        after = rng.choice(["default", "all", "steps", "text"])
        blocks.append(">> [%s]: %s" % (rng.choice(["mode", "define"]), after))
        if rng.random() < 0.4:
            blocks.append(">> [duplicate]: %s" % rng.choice(["reference", "ref", "new", "default"]))
        steps = []
        for _ in range(rng.randint(1, 3)):
            nm = rng.choice(decl + [rng.choice(names)])
            amp = rng.choice(["&", "", ""])
            st = "Add @%s%s{%s}" % (amp, nm, rng.choice(["", "", "100%g", "1"]))
            if dcw and rng.random() < 0.6:
                st += " to the #%s%s{}" % (rng.choice(["&", ""]), rng.choice(dcw))
            if rng.random() < 0.3:
                st += " for ~{%d%%min}" % rng.choice([5, 20])
            steps.append(st + ".")
        blocks.append("\n\n".join(steps))
        if rng.random() < 0.3:
            blocks.append(">> [mode]: text\n\nJust @words{} here.\n\n>> [mode]: default\n\nAnd @pepper{1%tsp}.")
        out.append("\n".join(blocks) + "\n")
    return out


def modifier_recipes():
    """every subset of the five modifier characters on an ingredient and on cookware"""
    out = []
    chars = "@&-?+"
    for m in range(32):
        mods = "".join(c for i, c in enumerate(chars) if m >> i & 1)
        out.append("@salt{2%%g} and #pot{1}\n\nThen @%ssalt{1%%g} in #%spot{}\n" % (mods, mods.replace("@", "")))
    return out


def gen_recipes(rng, n):
    """-> list of (text, ext bits, kind)"""
    out = []
    for text in CURATED + modifier_recipes():
        out.append((text, ALL_EXT, "curated"))
        out.append((front_matter(rng, False) + text, ALL_EXT, "curated+yaml"))
    for text in sparse_recipes():
        out.append((text, ALL_EXT, "sparse"))
    for text in edge_recipes(rng, max(40, n // 10)):
        out.append((text, ALL_EXT, "edge"))
    for text in ref_recipes(rng, max(50, n // 10)):
        out.append((text, ALL_EXT, "recipe-ref"))
    for text in mode_recipes(rng, max(50, n // 10)):
        out.append((text, ALL_EXT, "modes"))
    for text in amount_recipes(rng, max(40, n // 8)):
        out.append((text, ALL_EXT, "amounts"))
    for text in inter_ref_recipes(rng, max(60, n // 8)):
        out.append((text, ALL_EXT, "inter-ref"))
    for i in range(n):
        r = rng.random()
        profile = "extended" if rng.random() < 0.8 else "canonical"
        bits = ALL_EXT if profile == "extended" else 0
        if r < 0.2:
            g = grec.Gen(rng, profile)           # string metadata as grec writes it (>> or front matter)
            text, _, _ = g.recipe()
            out.append((text, bits, "grec"))
            continue
        g = grec.Gen(rng, profile, {"metadata": False, "frontmatter": False})
        text, _, _ = g.recipe()
        if rng.random() < 0.3:
            text += "\n\n" + rng.choice(CURATED[:6])
        unsafe = r > 0.9
        out.append((front_matter(rng, unsafe) + text, bits, "yaml-unsafe" if unsafe else "yaml"))
    return out


def variants(rng):
    f = rng.choice(["2", "0.5", "3", "2.5", "0.3333333333333333", "10", "0.001", "1000000", "7.77", "1.1",
                    "%r" % round(rng.uniform(0.01, 50), rng.randint(0, 5))])
    f2 = rng.choice(["2", "0.5", "3", "1.5", "0.25", "-1", "0", "-2.5", "%r" % round(rng.uniform(0.05, 20), 3)])
    return ["u", rng.choice(["d", "d+i", "d+m"]), "s" + f, "s%s+%s" % (f2, rng.choice("mi")),
            rng.choice(["t%d" % rng.choice([1, 3, 6, 12]), "s%s+%s" % (f, rng.choice("mi"))])]


# ----------------------------------------------------------------------------- mutations

ENUM_TAGS = ["step", "text", "ingredient", "cookware", "timer", "inlineQuantity", "definition", "reference",
             "number", "range", "regular", "fraction", "fixed", "linear", "Scaled", "DefaultScaling"]


def paths(t, p=()):
    """all (path, node) of a JSON tree"""
    yield p, t
    if isinstance(t, Obj):
        for i, (_, v) in enumerate(t):
            yield from paths(v, p + (i,))
    elif isinstance(t, list):
        for i, v in enumerate(t):
            yield from paths(v, p + (i,))


def replace_at(t, p, f):
    """copy of t with the node at path p replaced by f(node)"""
    if not p:
        return f(t)
    i = p[0]
    if isinstance(t, Obj):
        return Obj([(k, replace_at(v, p[1:], f) if j == i else v) for j, (k, v) in enumerate(t)])
    return [replace_at(v, p[1:], f) if j == i else v for j, v in enumerate(t)]


def under_metadata(p, tree):
    # everything below "metadata"."map" is free-form YAML: any JSON is accepted there
    return len(p) >= 1 and isinstance(tree, Obj) and tree[p[0]][0] == "metadata" and len(p) >= 2


def mutate(rng, tree):
    """-> (description, mutated tree) or None"""
    nodes = [(p, n) for p, n in paths(tree)]
    objs = [(p, n) for p, n in nodes if isinstance(n, Obj) and n and not under_metadata(p, tree)]
    kind = rng.choice(["drop", "drop", "tag", "tag", "variant", "shape", "shape", "extra", "swap", "flags", "outcome",
                       "uint", "null", "meta"])
    if kind == "drop":
        p, n = rng.choice(objs)
        i = rng.randrange(len(n))
        return "drop %s" % n[i][0], replace_at(tree, p, lambda o: Obj(o[:i] + o[i + 1:]))
    if kind in ("tag", "variant"):
        cands = [(p, n) for p, n in objs if n[0][0] == "type" or any(k == "type" for k, _ in n)]
        if not cands:
            return None
        p, n = rng.choice(cands)
        new = rng.choice(ENUM_TAGS) if kind == "variant" else rng.choice(["Step", "bogus", "", "TEXT", "scaled", "defaultScaling"])
        return "%s type=%s" % (kind, new), replace_at(tree, p, lambda o: Obj([(k, new if k == "type" else v) for k, v in o]))
    if kind == "shape":
        cands = [(p, n) for p, n in nodes if p and not under_metadata(p, tree)]
        p, n = rng.choice(cands)
        new = rng.choice([None, True, "s", [], Obj()])
        if type(new) == type(n) and new == n:
            return None
        return "shape %s" % jtext(new), replace_at(tree, p, lambda o: new)
    if kind == "extra":
        p, n = rng.choice(objs)
        if any(k == "zzz_unknown" for k, _ in n):
            return None
        i = rng.randrange(len(n) + 1)
        return "extra key", replace_at(tree, p, lambda o: Obj(o[:i] + [("zzz_unknown", Obj([("a", [None])]))] + o[i:]))
    if kind == "swap":
        cands = [(p, n) for p, n in objs if len(n) >= 2]
        p, n = rng.choice(cands)
        i, j = rng.sample(range(len(n)), 2)

        def sw(o):
            o = Obj(o)
            o[i], o[j] = o[j], o[i]
            return o
        return "swap keys", replace_at(tree, p, sw)
    if kind == "flags":
        cands = [(p, n) for p, n in objs if any(k == "modifiers" for k, _ in n)]
        if not cands:
            return None
        p, n = rng.choice(cands)
        new = rng.choice(["REF", "OPT|REF", " HIDDEN |  NEW ", "BOGUS", "REF | ", "|", "  ", "recipe", "RECIPE | RECIPE",
                          "NEW | OPT | HIDDEN | REF | RECIPE", "REF,OPT"])
        return "flags %r" % new, replace_at(tree, p, lambda o: Obj([(k, new if k == "modifiers" else v) for k, v in o]))
    if kind == "outcome":
        cands = [(p, n) for p, n in nodes if isinstance(n, str) and not isinstance(n, Num)
                 and n in ("scaled", "fixed", "noQuantity", "error")]
        if not cands:
            return None
        p, n = rng.choice(cands)
        new = rng.choice(["error", "fixed", "Error", "bogus", "noquantity"])
        return "outcome %s" % new, replace_at(tree, p, lambda o: new)
    if kind == "uint":
        cands = [(p, n) for p, n in nodes if isinstance(n, Num) and n.isdigit() and not under_metadata(p, tree)]
        if not cands:
            return None
        p, n = rng.choice(cands)
        new = Num(rng.choice(["-1", "1.5", "4294967296", "18446744073709551616", "0", "7"]))
        return "uint %s" % new, replace_at(tree, p, lambda o: new)
    if kind == "null":
        cands = [(p, n) for p, n in nodes if p and n is not None and not under_metadata(p, tree)]
        p, n = rng.choice(cands)
        return "null", replace_at(tree, p, lambda o: None)
    if kind == "meta":
        # anything is a YAML value: the metadata map accepts arbitrary JSON below "map"
        new = rng.choice([Obj([("k", [Num("1"), None, Obj([("z", "y")])])]), Obj(), [], Num("3"), "s", None])
        return "metadata.map := %s" % jtext(new), Obj([(k, Obj([("map", new)]) if k == "metadata" else v) for k, v in tree])
    return None


# ----------------------------------------------------------------------------- run

def dump_index_of_data(t):
    """position of the recipe's last field (`data`) in a dump token list"""
    for i in range(len(t) - 1, -1, -1):
        if t[i] == "data":
            return i
    return len(t)


def stats_of(dump, c):
    t = dump.split(" ")
    i_data = dump_index_of_data(t)
    if t[i_data + 1:i_data + 3] == ["s", "L0"]:
        c["servings_some_empty"] += 1
    elif t[i_data + 1:i_data + 2] == ["s"]:
        c["servings_some"] += 1
    for i, x in enumerate(t):
        if x == "VRange" and t[i + 3] == "VRegular" and t[i + 6] == "VRegular":
            try:
                a, b = float(t[i + 4][1:]), float(t[i + 7][1:])
                c["range_descending" if a > b else "range_flat" if a == b else "range_ascending"] += 1
            except ValueError:
                pass
    # intermediate references whose target index is not an ingredient index
    try:
        i0 = t.index("ingredients")
        ningr = int(t[i0 + 1][1:])
        for i, x in enumerate(t):
            if x == "references_to" and t[i + 3:i + 5] in (["s", "VStep"], ["s", "VSection"]) and int(t[i + 1][1:]) >= ningr:
                c["inter_ref_target_ge_ningredients"] += 1
    except (ValueError, IndexError):
        pass
    for i, x in enumerate(t):
        if x in ("VFraction", "VRange", "VText", "VRegular", "VError", "VStep", "VSection", "VReference", "VLinear",
                 "VFixed", "VScaled", "VDefaultScaling", "VInlineQuantity", "VNoQuantity"):
            c[x] += 1
        elif x == "err" and t[i + 1] not in ("N0.0", "N-0.0"):
            c["fraction_err_nonzero"] += 1
            try:
                if abs(float(t[i + 1][1:])) < 5e-4:
                    c["fraction_err_nonzero_below_5e-4"] += 1
            except ValueError:
                pass
        elif x in ("ingredients", "cookware", "timers") and t[i + 1] == "L0" and "VScaled R4" in dump \
                and i > dump_index_of_data(t):
            c["scaled_outcome_list_empty"] += 1
        elif x == "reference" and t[i + 1] == "s":
            c["recipe_reference"] += 1
            # R2 name S.. components Lk S..*
            try:
                k = int(t[i + 6][1:])
                strs = [t[i + 4]] + t[i + 7:i + 7 + k]
                raw = b"".join(bytes.fromhex(x[2:]) for x in strs)
                if any(b < 0x20 or b in (0x22, 0x5c) for b in raw):
                    c["recipe_reference_needing_json_escape"] += 1
                if any(b >= 0x80 for b in raw):
                    c["recipe_reference_non_ascii"] += 1
            except (ValueError, IndexError):
                pass
        elif x == "defined_in_step":
            c["defined_in_step_" + ("true" if t[i + 1] == "B1" else "false")] += 1
        elif x.startswith("F") and x[1:].isdigit():
            c["flags:" + "|".join(t[i + 1:i + 1 + int(x[1:])])] += 1
        elif x[:2] in ("yn", "yb", "yN", "yS", "yL", "yM", "yT"):
            c["yaml:" + x[:2]] += 1
        elif x == "inline_quantities" and t[i + 1] != "L0":
            c["inline_quantities_nonempty"] += 1


def run(rep, tier, seed):
    rng = random.Random(seed)
    # The model side may be unavailable: the translator refuses a serde attribute the generic model does
    # not cover, the regenerated descriptors do not compile, or a proof obligation breaks.  None of that
    # stops the search: the monitor on the implementation needs no descriptor, so the generated recipes
    # are still run and a failing input is reported if there is one (no-failing-input-found otherwise).
    model_broken = None
    gen_info = {"changed": False, "types": [], "notes": []}
    try:
        gen_info = gen_serde.regenerate()
    except common.Broken as e:
        model_broken = "descriptor translation: %s" % str(e)[:1500]
    bindir = common.build_harness(["serde"])
    exe = os.path.join(bindir, "serde")
    if model_broken is None:
        audit = common.audit_property_file("C15")
    else:
        # coq/Gen/SerdeDesc.v is stale (last translatable state): its theorems say nothing about this tree
        audit = {"theorems": [], "obligations": 1, "discharged": 0, "axioms": {}, "ok": False,
                 "failed": ["C15_descriptors_wf cannot be stated: " + model_broken], "log": model_broken}
    runner = None
    if model_broken is None:
        try:
            runner = common.build_runner("serde", DEPS)
        except common.Broken as e:
            model_broken = "model runner: %s" % str(e)[:1500]
            audit["ok"] = False
            audit["failed"] = audit.get("failed", []) + [model_broken]
    findings = {c: next((f for f in rep.findings if f.get("class") == c), None) for c in (CLASS_META, CLASS_FLOAT)}

    n_rec = 700 if tier == "quick" else 14000
    recipes = [(unhx(c.split(" ")[0]), int(c.split(" ")[1]), "corpus") for c in common.load_corpus("C15")]
    recipes += [(WITNESS, ALL_EXT, "witness")] + gen_recipes(rng, n_rec)
    cases = []
    for text, bits, kind in recipes:
        if kind in ("corpus", "witness"):
            vs = ["u", "d", "d+i", "s1.5+i"]
        elif kind == "amounts":
            vs = ["d+i", "d+m", "s%s+i" % rng.choice(["2", "0.5", "3", "1.5", "0.25", "4"]), "u"]
        elif kind == "sparse":
            vs = ["u", "d", "s2", "s0.5+i", "t3"]
        elif kind == "edge":
            # "arbitrary factors": any finite f64, so zero and negative ones too
            vs = ["u", "d", "d+i", "s%s" % rng.choice(["-1", "-2.5", "0", "-0.0", "1e-300", "1e300", "3"]),
                  "s%s+%s" % (rng.choice(["-1", "0", "-0.5", "2"]), rng.choice("mi")), "t%d" % rng.choice([0, 1, 4])]
        else:
            vs = variants(rng)
        for v in vs:
            cases.append((text, bits, v, kind))
    lines = ["R %s %d %s" % (hx(t), b, v) for t, b, v, _ in cases]
    impl = common.run_lines(exe, lines, tag="impl")

    monitor_hits, disagreements = [], []
    known_hits = {CLASS_META: [], CLASS_FLOAT: []}
    st = Counter()
    kinds = Counter()
    model_cases, model_idx = [], []
    parsed = []
    for idx, ((text, bits, v, kind), li) in enumerate(zip(cases, impl)):
        if li == "noparse":
            st["noparse"] += 1
            parsed.append(None)
            continue
        f = fields(li)
        parsed.append(f)
        kinds[kind] += 1
        st["variant:" + v.split("+")[0][0] + ("+" + v.split("+")[1] if "+" in v else "")] += 1
        stats_of(f["D"], st)
        tree = jparse(unhx(f["J"])) if f["J"] != "-" else None
        f["tree"] = tree
        model_cases.append("R %s %s %s" % (f["T"], f["D"], jtok(tree) if tree is not None else "-"))
        model_idx.append(idx)
    if runner is not None:
        model = common.run_lines(runner, model_cases, tag="model")
    else:
        model = ["W skipped ;; S - ;; D - ;; N - ;; R -"] * len(model_cases)

    evaluated = 0
    distinct = set()
    for idx, lm in zip(model_idx, model):
        text, bits, v, kind = cases[idx]
        f = parsed[idx]
        m = fields(lm)
        K = set(f["K"].split(",")) - {"-"}
        rp = {"input": text, "input_hex": hx(text), "ext": bits, "variant": v, "impl": {k: f[k] for k in ("T", "M", "K", "M2")}}
        if "nf" in K:
            st["nonfinite_skipped"] += 1     # outside "finite numbers"; never generated on purpose
            continue
        evaluated += 1
        distinct.add(f["D"])
        in_class = bool(K & {"nsk", "tag"})
        # ---- monitor
        is_float = "fp" in K
        if f["M"] == "ok" and (not in_class or f["M2"] == "ok"):
            pass
        elif is_float and f["M"] == "neq_float" and f["M2"] in ("-", "neq_float"):
            # the only differences are f64 values that serde_json itself does not parse back from its own text
            known_hits[CLASS_FLOAT].append((text, f["M"], rp))
            st["class_hits:float"] += 1
        elif in_class and f["M"] in ("neq_partialeq", "neq_dump", "de_err", "ser_err") and \
                (f["M2"] == "ok" or (is_float and f["M2"] == "neq_float")):
            # without its metadata the recipe round-trips (up to the float class)
            known_hits[CLASS_META].append((text, f["M"], rp))
            st["class_hits:metadata:" + f["M"]] += 1
            if f["M2"] == "neq_float":
                known_hits[CLASS_FLOAT].append((text, f["M2"], rp))
                st["class_hits:float"] += 1
        elif f["M"] != "ok":
            monitor_hits.append((text, "round trip fails: %s (variant %s)" % (f["M"], v), rp))
        else:
            monitor_hits.append((text, "round trip fails without the metadata: %s (variant %s)" % (f["M2"], v), rp))
        # ---- correspondence
        if runner is None:
            continue
        if m["W"].startswith("unres"):
            disagreements.append((text, dict(rp, model=lm[:300], why="dump does not fit the regenerated descriptor: " + m["W"])))
            continue
        if (m["W"] == "1") != (not in_class):
            disagreements.append((text, dict(rp, model=lm[:300], why="typedb %s but class %s" % (m["W"], f["K"]))))
        exp_s = jtok(f["tree"]) if f["tree"] is not None else "-"
        if m["S"] != exp_s:
            disagreements.append((text, dict(rp, why="ser(descriptor, dump) differs from serde_json's output",
                                             model_json=m["S"][:2000], impl_json=exp_s[:2000])))
            continue
        # neq_float: the model treats numbers as opaque atoms (oracle hypothesis: print and parse are
        # inverse), so it predicts a clean round trip; the hypothesis failed on this input - counted above
        impl_sum = {"ok": ("acc", "1", "1"), "de_err": ("rej", "-", "-"), "reser_diff": ("acc", "1", "0"),
                    "ser_err": ("-", "-", "-"), "neq_float": ("acc", "1", "1")}.get(f["M"])
        got = (m["D"], m["N"], m["R"])
        if impl_sum is None:        # neq_*: the model must also see an unequal value
            ok = got[0] == "acc" and got[1] == "0"
        else:
            ok = got == impl_sum
        if not ok:
            disagreements.append((text, dict(rp, why="de/round trip: model %s, implementation %s" % (got, f["M"]))))

    # ---- mutated JSON: accept / reject and re-serialisation
    pool = [i for i in model_idx if parsed[i]["tree"] is not None and parsed[i]["M"] == "ok" and "fp" not in parsed[i]["K"]]
    rng.shuffle(pool)
    n_mut = 400 if tier == "quick" else 6000
    mut = []
    for i in pool[:n_mut]:
        f = parsed[i]
        for _ in range(4):
            mm = mutate(rng, f["tree"])
            if mm is not None:
                mut.append((i, f["T"], mm[0], mm[1]))
    if runner is None:
        mut = []
    if mut:
        mi = common.run_lines(exe, ["M %s %s" % (t, hx(jtext(tr))) for _, t, _, tr in mut], tag="impl-mut")
        mo = common.run_lines(runner, ["M %s %s" % (t, jtok(tr)) for _, t, _, tr in mut], tag="model-mut")
        for (i, t, what, tr), a, b in zip(mut, mi, mo):
            ai = a.split(" ")[0]
            bi = b.split(" ")[0]
            st["mut:%s:%s" % (what.split(" ")[0], ai)] += 1
            same = ai == bi
            if same and ai == "acc":
                same = jtok(jparse(unhx(a.split(" ")[1]))) == b.partition(" ")[2]
            if not same:
                text = cases[i][0]
                disagreements.append((text, {"input": text, "input_hex": hx(text), "variant": cases[i][2],
                                             "mutation": what, "mutated_json": jtext(tr)[:3000], "impl": a[:200],
                                             "model": b[:200], "why": "from_str and de disagree on a mutated document"}))

    # ---- known findings: a class is quiet only while its entry is listed in known_findings.json
    for cls, default in ((CLASS_META, "metadata with a non-string key or a YAML tag does not survive JSON"),
                         (CLASS_FLOAT, "serde_json (default features) does not parse some f64 back from its own text")):
        hits = known_hits[cls]
        if not hits:
            continue
        if findings[cls] is not None:
            text, mcode, rp = min(hits, key=lambda t: len(t[0]))
            rep.known(findings[cls].get("id", cls), findings[cls].get("what", default)
                      + " [%d generated cases of that class, e.g. %r variant %s: %s]" % (len(hits), text[:60], rp["variant"], mcode))
        else:
            monitor_hits += [(t, "round trip fails (%s): %s; no entry of class %s in known_findings.json" % (mc, default, cls), rp)
                             for t, mc, rp in hits]
    finding = findings[CLASS_META]
    witness_rows = [parsed[i] for i in model_idx if cases[i][3] == "witness" and parsed[i] is not None]
    if finding is not None and witness_rows and all(w["M"] == "ok" for w in witness_rows):
        disagreements.append((WITNESS, {"input": WITNESS, "why": "known_findings.json lists %s but the witness now round-trips: "
                                        "the entry is stale" % CLASS_META}))

    common.decide(rep, "C15", "L-serde", audit, monitor_hits, disagreements, tier,
                  "correspondence Model/Serde.v + Gen/SerdeDesc.v <-> serde_derive/serde_json on the recipe types")
    common.proof_coverage(rep, "C15", audit, tier,
                          "serde_derive's expansion, serde_json (number text, escaping, map keys), bitflags' parser and "
                          "serde_yaml's Value/Mapping impls are modelled generically in Model/Serde.v; "
                          "gen/gen_serde.py (reader of struct/enum/#[serde] declarations) is trusted")
    sample_idx = [i for i in model_idx if cases[i][3] in ("yaml", "grec")][:2] + \
                 [i for i in model_idx if cases[i][3] == "yaml-unsafe"][:1]
    rep.coverage.update({
        "evaluations": evaluated + len(mut), "distinct_nontrivial": len(distinct),
        "rule": "%d seeded recipes (grec G_rec bodies: all value kinds, references, intermediate references, modifiers; "
                "curated: every subset of the 5 modifiers on ingredient and cookware, recipe references, inline "
                "quantities, fractions, ranges; YAML front matter with nested strings/ints/floats/bools/nulls/sequences/maps, "
                "10%% with non-string keys or tags) x 5 variants (as parsed, default_scale, scale by a random factor, "
                "scale_to_servings, then convert to metric/imperial); %d mutated JSON documents; distinct_nontrivial = "
                "number of distinct recipe dumps" % (len(recipes), len(mut)),
        "recipes": len(recipes), "recipe_kinds": dict(kinds), "cases_round_tripped": evaluated,
        "mutations": len(mut), "known_class_hits": {c: len(h) for c, h in known_hits.items()},
        "oracle_hypothesis_failures": len(known_hits[CLASS_FLOAT]),
        "monitor_violations": len(monitor_hits), "correspondence_disagreements": len(disagreements),
        "distribution": dict(sorted(st.items())),
        "model_side": "ok" if model_broken is None else "unavailable (monitor only): " + model_broken[:400],
        "descriptor_types": gen_info["types"], "descriptor_notes": gen_info["notes"],
        "descriptors_changed_this_run": gen_info["changed"],
        "samples": [{"input": cases[i][0], "variant": cases[i][2], "monitor": parsed[i]["M"], "class": parsed[i]["K"],
                     "json": unhx(parsed[i]["J"])[:600] if parsed[i]["J"] != "-" else None} for i in sample_idx],
    })
    rep.assumptions = [
        "numbers are opaque atoms: serde_json's printing and parsing of a finite f64/u64/i64 are inverse on what it prints "
        "(oracle hypothesis, checked on every number of every case by the harness: class flag fp, monitor code neq_float; "
        "failures are counted in oracle_hypothesis_failures and reported unless listed as a known finding)",
        "NaN and infinities are excluded by the statement ('finite numbers') and never generated; a case that contains one is "
        "counted under nonfinite_skipped",
        "de is defined on canonical number atoms only (an f64 field given as an integer literal is accepted by serde_json "
        "and rejected by the model); mutations never produce that",
    ]


def setup():
    gen_serde.regenerate()
    common.build_harness(["serde"])
    common.build_runner("serde", DEPS)


def replay(rp):
    bindir = common.build_harness(["serde"])
    r = rp["replay"]
    if "input_hex" not in r:
        print(json.dumps(r)[:2000])
        return 1
    line = "R %s %d %s\n" % (r["input_hex"], r.get("ext", ALL_EXT), r.get("variant", "u"))
    p = subprocess.run([os.path.join(bindir, "serde"), "-"], input=line, text=True, stdout=subprocess.PIPE)
    out = p.stdout.strip()
    f = fields(out) if out != "noparse" else {"M": "noparse", "K": "-", "M2": "-"}
    print("monitor=%s class=%s without_metadata=%s" % (f["M"], f["K"], f.get("M2")))
    if "mutation" in r:
        q = subprocess.run([os.path.join(bindir, "serde"), "-"], input="M %s %s\n" % (
            "S" if r.get("variant", "u") == "u" else "C", hx(r["mutated_json"])), text=True, stdout=subprocess.PIPE)
        print("mutation %s: implementation %s, model said %s" % (r["mutation"], q.stdout.strip()[:80], r.get("model")))
        return 1
    return 0 if f["M"] == "ok" else 1
