"""C17: the five source edits and the choice of their legal insertion points.

The edit points are chosen from the *text alone* (a small tokenizer written for this purpose and
a line/block/component scan that follows the documented syntax), never from what the parser under
test reports.  `points(text, profile)` returns every legal point by category; an edit applies a
subset of them chosen by a seeded tape.

Where the statement of C17 does not claim invariance no *claimed* point is placed; a few of those
places are kept as *probe* categories (reported, never judged):
  - inside a component's braces `{...}` after a WORD (text values, units)              probe: brace
    (between the NUMBER tokens of a quantity and directly after `{` the edit qty_comment is judged: the
    parser's own comments say "remove spaces and comments in between other tokens" (quantity.rs) and the
    scaling lock is preceded by ws_comments; the unchanged code is invariant there)
  - inside the `>>` marker                                                               (excluded)
  - inside the YAML front matter, before it, and on its fence lines for comments         (excluded)
  - directly after a backslash (the next character is escaped, a comment cannot start)   (excluded)
  - inside an existing comment                                                          (excluded)
  - between the lines of a multi-line step or paragraph for extra_lines (a blank line there
    *is* a block separator)                                                             (excluded)
  - the blank-on-both-sides comment variant inside a metadata VALUE (the value keeps both
    blanks: "A [- c -] b" reads "A  b")                                    probe: value_spaced
The blank-on-both-sides variant between the words of component names, aliases, notes, section names and
metadata keys IS judged (edit name_comment_spaced): those are words, and the result must be equal exactly.
Both judged padded edits (mid_comment_spaced, name_comment_spaced) are the edit of the theorems
C17_padded_comment_events / _recipe of Properties/C17.v (x1 = "", x2 = " "); the metadata-value probe is the
place of C17_padded_meta_value_refuted, probe_brace is not claimed (C17_padded_brace_refuted: the glued
spelling inside braces changes an ADVANCED_UNITS quantity).
"""
import re
import unicodedata

WORD_BREAK = set(" \n\r\t0123456789.>:@#~?+-/*&|=%{}()")
SINGLE = {":": "colon", "@": "at", "#": "hash", "~": "tilde", "?": "question", "+": "plus", "/": "slash",
          "*": "star", "&": "and", "|": "or", "%": "percent", "=": "eq", "{": "obrace", "}": "cbrace",
          "(": "oparen", ")": "cparen", ".": "dot"}


def _is_ws(c):
    return c == "\t" or unicodedata.category(c) == "Zs"


def _is_punct(c):
    return unicodedata.category(c).startswith("P")


def _is_word_char(c):
    if c.isalpha():
        return True
    if c in WORD_BREAK:
        return False
    if unicodedata.category(c) == "Zs" or _is_punct(c):
        return False
    return True


def tokenize(s, base=0):
    """list of (kind, text, start, end) with character offsets into the whole source (base added)"""
    out = []
    i, n = 0, len(s)
    while i < n:
        c = s[i]
        j = i + 1
        if c == "\\":
            j = min(n, i + 2)
            k = "escaped"
        elif c == ">":
            if s.startswith(">>", i):
                j, k = i + 2, "meta"
            else:
                k = "textstep"
        elif c == "-" and s.startswith("--", i):
            j = s.find("\n", i)
            j = n if j < 0 else j
            k = "lcomment"
        elif c == "-":
            k = "minus"
        elif c == "[" and s.startswith("[-", i):
            e = s.find("-]", i + 2)
            j = n if e < 0 else e + 2
            k = "bcomment"
        elif c == "\n":
            k = "newline"
        elif c == "\r" and s.startswith("\r\n", i):
            j, k = i + 2, "newline"
        elif c.isdigit() and c.isascii():
            while j < n and s[j].isdigit() and s[j].isascii():
                j += 1
            k = "int"
        elif c in SINGLE:
            k = SINGLE[c]
        elif _is_ws(c):
            while j < n and _is_ws(s[j]):
                j += 1
            k = "ws"
        elif _is_punct(c):
            k = "punct"
        else:
            while j < n and _is_word_char(s[j]):
                j += 1
            k = "word"
        out.append((k, s[i:j], base + i, base + j))
        i = j
    return out


def split_frontmatter(text):
    """(yaml fence region end, i.e. offset where the cooklang body starts; list of fence line (start,end))
    following the documented rule: first line that is `---` (after trimming its end) with only blank space
    before it, up to the next such line."""
    off = 0
    fences = []
    for line in re.findall(r"[^\n]*\n|[^\n]+$", text):
        if line.rstrip() == "---":
            fences.append((off, off + len(line)))
        off += len(line)
    if len(fences) >= 2 and text[:fences[0][0]].strip() == "":
        return fences[1][1], fences[:2]
    return 0, []


EMPTY = {"ws", "lcomment", "bcomment", "newline"}
WORDLIKE = {"word", "int"}


def _lines(toks):
    lines, cur = [], []
    for t in toks:
        cur.append(t)
        if t[0] == "newline":
            lines.append(cur)
            cur = []
    if cur:
        lines.append(cur)
    return lines


def _blocks(lines):
    """the documented block structure: blank/comment-only lines separate blocks, a line whose first
    token is `>>` or `=` is a block of its own.  Returns list of (kind, [line indices])."""
    blocks = []
    i = 0
    while i < len(lines):
        ln = lines[i]
        if all(t[0] in EMPTY for t in ln):
            i += 1
            continue
        first = ln[0][0]
        idx = [i]
        i += 1
        if first in ("meta", "eq"):
            blocks.append(("meta" if first == "meta" else "section", idx))
            continue
        while i < len(lines):
            if lines[i][0][0] in ("meta", "eq"):
                break
            if all(t[0] in EMPTY for t in lines[i]):
                break
            idx.append(i)
            i += 1
        blocks.append(("textblock" if first == "textstep" else "step", idx))
    return blocks


class Points:
    def __init__(self):
        self.line_end = []      # (offset, category): end of a logical line, before its newline token
        self.fence_end = []     # end of a front matter fence line (trail_space only)
        self.after_word = {}    # category -> [offset]: directly after a word that is followed by a blank
        self.at_blank = {}      # category -> [offset]: directly after a blank between words (spaced variant)
        self.line_start = []    # offsets where a whole extra line may be inserted (between blocks)
        self.qty_num = []       # (after-number offset, after-blank offset): between the number tokens of a quantity
        self.qty_lead = []      # directly after the `{` of a component
        self.num_unit = []      # (after-number offset, after-blank offset): `180 °C` in step text - number, blank, word
        self.excluded = {}      # reason -> count of candidate places not used

    def add(self, d, cat, off):
        d.setdefault(cat, []).append(off)

    def excl(self, reason, n=1):
        self.excluded[reason] = self.excluded.get(reason, 0) + n


def _scan_words(P, toks, cat, spaced_cat, nl_ok=False):
    """toks: a run of tokens that is plain text of category `cat`"""
    for a, b in zip(toks, toks[1:]):
        if a[0] in WORDLIKE and (b[0] == "ws" or (nl_ok and b[0] == "newline")):
            P.add(P.after_word, cat, a[3])
        if a[0] == "escaped" and len(a[1]) == 1:
            P.excl("after_backslash")
    for a, b, c in zip(toks, toks[1:], toks[2:]):
        if a[0] in WORDLIKE and b[0] == "ws" and c[0] not in ("newline",):
            P.add(P.at_blank, spaced_cat, b[3])
        # a number and the word after it: where an inline quantity (`180 °C`, `20 minutes`) has its value and its unit
        if cat == "step_text" and a[0] == "int" and b[0] == "ws" and c[0] == "word":
            P.num_unit.append((a[3], b[3]))


def _scan_step(P, toks, ext):
    """component regions of a step; everything else is step text"""
    n = len(toks)
    i = 0
    text_run = []

    def flush():
        nonlocal text_run
        if text_run:
            _scan_words(P, text_run, "step_text", "step_text", nl_ok=True)
        text_run = []

    while i < n:
        k = toks[i][0]
        if k not in ("at", "hash", "tilde"):
            text_run.append(toks[i])
            i += 1
            continue
        j = i + 1
        if ext:
            while j < n and toks[j][0] in ("at", "question", "plus", "minus", "and"):
                if toks[j][0] == "and" and j + 1 < n and toks[j + 1][0] == "oparen":
                    e = next((x for x in range(j + 2, n) if toks[x][0] == "cparen"), None)
                    if e is not None:
                        j = e
                j += 1
        # name: up to the first `{` unless a marker comes first
        stop = next((x for x in range(j, n) if toks[x][0] in ("obrace", "at", "hash", "tilde")), None)
        end = None
        if stop is not None and toks[stop][0] == "obrace":
            close = next((x for x in range(stop + 1, n) if toks[x][0] == "cbrace"), None)
            if close is not None:
                name = toks[j:stop]
                for a, b, c in zip(name, name[1:], name[2:]):
                    if a[0] in WORDLIKE and b[0] == "ws" and c[0] in WORDLIKE:
                        P.add(P.after_word, "comp_name", a[3])
                        P.add(P.at_blank, "comp_name", b[3])
                inner = toks[stop + 1:close]
                P.qty_lead.append(toks[stop][3])
                for a, b in zip(inner, inner[1:]):
                    if a[0] in WORDLIKE and b[0] == "ws":
                        P.add(P.after_word, "probe_brace", a[3])
                for a, b, c in zip(inner, inner[1:], inner[2:]):
                    # the number goes on after the blank: mixed number `1 1/2`, fraction `1 / 2`, range `2 - 5`
                    if a[0] in ("int", "slash", "minus") and b[0] == "ws" and c[0] in ("int", "slash", "minus"):
                        P.qty_num.append((a[3], b[3]))
                P.excl("inside_braces", max(0, len(inner) - 1))
                end = close + 1
        if end is None:
            w = j
            while w < n and toks[w][0] in WORDLIKE:
                w += 1
            if w == j:
                text_run.append(toks[i])      # a lone marker is text
                i += 1
                continue
            end = w
            # directly after a one-word component, before the blank that ends it anyway
            if end < n and toks[end][0] in ("ws", "newline"):
                P.add(P.after_word, "after_single_comp", toks[end - 1][3])
        # note
        if k != "tilde" and end < n and toks[end][0] == "oparen":
            close = next((x for x in range(end + 1, n) if toks[x][0] == "cparen"), None)
            if close is not None:
                note = toks[end + 1:close]
                for a, b, c in zip(note, note[1:], note[2:]):
                    if a[0] in WORDLIKE and b[0] == "ws" and c[0] in WORDLIKE:
                        P.add(P.after_word, "note", a[3])
                        P.add(P.at_blank, "note", b[3])
                end = close + 1
        flush()
        i = end
    flush()


def points(text, ext):
    """all legal edit points of `text` (ext: extensions on, i.e. modifiers are syntax)"""
    P = Points()
    body_start, fences = split_frontmatter(text)
    for (s, e) in fences:
        line = text[s:e]
        P.fence_end.append(s + len(line.rstrip("\r\n")))
    if fences:
        P.excl("yaml_lines", text[fences[0][1]:fences[1][0]].count("\n"))
        P.excl("before_front_matter")
    toks = tokenize(text[body_start:], body_start)
    lines = _lines(toks)
    blocks = _blocks(lines)
    in_block = {}
    for bi, (kind, idx) in enumerate(blocks):
        for li in idx:
            in_block[li] = (bi, kind)
    # ---- line ends (trail_comment / trail_space)
    for li, ln in enumerate(lines):
        last = ln[-1]
        content = ln[:-1] if last[0] == "newline" else ln
        off = last[2] if last[0] == "newline" else last[3]
        if content and content[-1][0] == "escaped" and len(content[-1][1]) == 1:
            P.excl("after_backslash")
            continue
        if content and content[-1][0] == "bcomment" and not content[-1][1].endswith("-]"):
            P.excl("inside_comment")
            continue
        P.line_end.append((off, in_block.get(li, (None, "empty"))[1]))
    # ---- whole extra lines: at a line start that is a block boundary
    first_of = {idx[0]: kind for kind, idx in blocks}
    last_of = {idx[-1]: kind for kind, idx in blocks}
    for li, ln in enumerate(lines):
        start = ln[0][2]
        prev_ends_nl = li == 0 or lines[li - 1][-1][0] == "newline"
        if not prev_ends_nl:
            continue
        empty_here = li not in in_block
        empty_prev = li > 0 and (li - 1) not in in_block
        single_here = first_of.get(li) in ("meta", "section")
        single_prev = li > 0 and last_of.get(li - 1) in ("meta", "section")
        if li == 0 or empty_here or empty_prev or single_here or single_prev:
            P.line_start.append(start)
        else:
            P.excl("between_lines_of_a_block")
    if lines and lines[-1][-1][0] == "newline":
        P.line_start.append(lines[-1][-1][3])
    elif not lines:
        P.line_start.append(body_start)
    # ---- words
    for kind, idx in blocks:
        btoks = [t for li in idx for t in lines[li]]
        if kind == "meta":
            if fences:
                P.excl("meta_line_under_front_matter")
                continue
            colon = next((x for x, t in enumerate(btoks) if t[0] == "colon"), None)
            if colon is None:
                P.excl("meta_without_colon")
                continue
            key = btoks[1:colon]
            for a, b, c in zip(key, key[1:], key[2:]):
                if a[0] in WORDLIKE and b[0] == "ws" and c[0] in WORDLIKE:
                    P.add(P.after_word, "meta_key", a[3])
                    P.add(P.at_blank, "meta_key", b[3])
            val = btoks[colon + 1:]
            for a, b, c in zip(val, val[1:], val[2:]):
                if a[0] in WORDLIKE and b[0] == "ws" and c[0] in WORDLIKE:
                    P.add(P.after_word, "meta_value", a[3])
                    P.add(P.at_blank, "probe_value_spaced", b[3])
        elif kind == "section":
            name = [t for t in btoks if t[0] != "eq"]
            for a, b, c in zip(name, name[1:], name[2:]):
                if a[0] in WORDLIKE and b[0] == "ws" and c[0] in WORDLIKE:
                    P.add(P.after_word, "section_name", a[3])
                    P.add(P.at_blank, "section_name", b[3])
        elif kind == "textblock":
            _scan_words(P, btoks, "paragraph_text", "paragraph_text", nl_ok=True)
        else:
            _scan_step(P, btoks, ext)
    return P


# ------------------------------------------------------------------ the edits

LINE_COMMENTS = [" c", "c", " note @x{1%g} #p ~{1%min}", " >> a: b", " = s =", "- -", " [- open", "", " é 名"]
BLOCK_COMMENTS = [" c ", "c", "", " @x{1%g} ", " >> a: b ", " - ] ", " [- ", " -- l ", "\n", " a\nb ", "-"]
# the judged trailing-blank edit appends U+0020 only: the statement says "trailing spaces".  A trailing TAB at a line
# end inside a component that wraps ("@extra virgin\t\nolive oil{}") stays in the name - Text::text_trimmed collapses
# runs of ' ' only (Properties/C17.v [C17_trailing_tab_refuted]) - so TAB / mixed blanks are a probe (probe_trail_tab),
# reported and never judged; on the fence lines of a front matter any blank space may follow ([C17_fence_blind])
BLANKS = [" ", "  ", "   ", "      "]
BLANKS_TAB = ["\t", " \t ", "\t ", " \t"]
EXTRA_LINES = ["", " ", "\t", "-- c", "  -- c ", "[- c -]", " [- a\nb -] ", "-- >> k: v", "-- = s", "[- @a{} -] -- x"]


def crlf(text):
    return re.sub(r"(?<!\r)\n", "\r\n", text)


def crlf_applicable(text):
    return "\\" not in text and re.search(r"\r(?!\n)", text) is None


def _choose(rng, cands, mode):
    """the tape: which of the candidate points are used.  mode: 'one' | 'few' | 'all'"""
    cands = sorted(set(cands))
    if not cands:
        return []
    if mode == "all":
        return cands
    k = 1 if mode == "one" else rng.randint(1, min(4, len(cands)))
    return sorted(rng.sample(cands, k))


def _apply(text, inserts):
    """inserts: list of (offset, string); applied right to left"""
    for off, s in sorted(inserts, key=lambda t: -t[0]):
        text = text[:off] + s + text[off:]
    return text


def trail_comment(text, P, rng, mode):
    pts = _choose(rng, [o for o, _ in P.line_end], mode)
    return _apply(text, [(o, " --" + rng.choice(LINE_COMMENTS)) for o in pts]), len(pts)


def trail_space(text, P, rng, mode):
    fence = set(P.fence_end)
    pts = _choose(rng, [o for o, _ in P.line_end] + P.fence_end, mode)
    return _apply(text, [(o, rng.choice(BLANKS + BLANKS_TAB if o in fence else BLANKS)) for o in pts]), len(pts)


def trail_tab(text, P, rng, mode):
    """probe: TAB / mixed blanks at a line end (outside what the statement says)"""
    pts = _choose(rng, [o for o, _ in P.line_end], mode)
    return _apply(text, [(o, rng.choice(BLANKS_TAB)) for o in pts]), len(pts)


def wrapped_variant(text, P, rng):
    """a SOURCE, not an edit: the same recipe with some components wrapped over a line end - a blank between the
    words of a component name, alias or note replaced by a newline (a line break inside a step reads as a blank).
    The line ends of the judged edits then lie inside a component."""
    pairs = []
    for cat in ("comp_name", "note"):
        pairs += list(zip(P.after_word.get(cat, []), P.at_blank.get(cat, [])))
    pairs = sorted(set(p for p in pairs if p[0] < p[1] and text[p[0]:p[1]].strip(" \t") == ""))
    if not pairs:
        return None
    chosen = rng.sample(pairs, min(len(pairs), rng.randint(1, 3)))
    for a, b in sorted(chosen, reverse=True):
        text = text[:a] + "\n" + text[b:]
    return text


CLAIMED_AFTER = ("step_text", "paragraph_text", "meta_value", "meta_key", "section_name", "comp_name", "note",
                 "after_single_comp")
# the blank-on-both-sides variant between the words of a name: component names and aliases, notes, section
# names, metadata keys are read through Text::text_trimmed, which collapses the double blank, so the recipe is
# unchanged exactly (metadata VALUES keep both blanks and stay a probe)
NAME_SPACED = ("comp_name", "note", "section_name", "meta_key")


def mid_comment(text, P, rng, mode, cats=CLAIMED_AFTER):
    cands = [o for c in cats for o in P.after_word.get(c, [])]
    pts = _choose(rng, cands, mode)
    return _apply(text, [(o, "[-" + rng.choice(BLOCK_COMMENTS) + "-]") for o in pts]), len(pts)


def mid_comment_spaced(text, P, rng, mode, cats=("step_text", "paragraph_text")):
    # the padded edit `word [- c -] next`: "[-c-] " goes directly after the blank run that is there.  The run must end
    # with U+0020 - the blank that is added then lengthens a run of U+0020, which Text::text_trimmed and the
    # normalisation of step text collapse; after a TAB or a non-ASCII blank it would not (Properties/C17.v
    # [C17_padded_comment_events] and its counterpart [C17_padded_tab_refuted])
    cands = [o for c in cats for o in P.at_blank.get(c, []) if text[o - 1:o] == " "]
    pts = _choose(rng, cands, mode)
    return _apply(text, [(o, "[-" + rng.choice(BLOCK_COMMENTS) + "-] ") for o in pts]), len(pts)


def extra_lines(text, P, rng, mode):
    pts = _choose(rng, P.line_start, mode)
    ins = []
    for o in pts:
        ins.append((o, "".join(rng.choice(EXTRA_LINES) + "\n" for _ in range(rng.randint(1, 2)))))
    return _apply(text, ins), len(pts)


def name_comment_spaced(text, P, rng, mode):
    return mid_comment_spaced(text, P, rng, mode, cats=NAME_SPACED)


TRAIL_MULTI = [" [- day one -] -- takes long", " [- a -] [- b -]", " [- a -]  ", "[- a -][- b -]", " [- a -]  -- c",
               " [- a -] [- b -] -- c", " [- a -]"]


def trail_multi(text, P, rng, mode):
    """a line that ends with a block comment, plus a trailing comment / blanks / a second block comment"""
    pts = _choose(rng, [o for o, _ in P.line_end], mode)
    return _apply(text, [(o, rng.choice(TRAIL_MULTI)) for o in pts]), len(pts)


def mid_comment_double(text, P, rng, mode):
    """two adjacent block comments after a word (the unspaced edit next to an existing comment)"""
    cands = [o for c in CLAIMED_AFTER for o in P.after_word.get(c, [])]
    pts = _choose(rng, cands, mode)
    return _apply(text, [(o, "[-" + rng.choice(BLOCK_COMMENTS) + "-][-" + rng.choice(BLOCK_COMMENTS) + "-]") for o in pts]), len(pts)


def qty_comment(text, P, rng, mode):
    """block comments between the number tokens of a quantity (`1 [- heaped -] 1/2`, `1 [-c-]/ 2`, `2[-c-] - 5`) and
    directly after the `{` (before the value or the scaling lock), one or two of them, with or without blanks"""
    cands = [("n", p) for p in P.qty_num] + [("l", o) for o in P.qty_lead]
    if not cands:
        return text, 0
    cands.sort(key=lambda t: str(t))
    if mode == "all":
        chosen = cands
    else:
        chosen = rng.sample(cands, 1 if mode == "one" else rng.randint(1, min(4, len(cands))))
    ins = []
    for kind, p in chosen:
        c = "[-" + rng.choice([" heaped ", "c", " a -][- b ", ""]) + "-]"
        if kind == "n":
            after_num, after_blank = p
            ins.append((after_num, c) if rng.random() < 0.5 else (after_blank, c + " "))
        else:
            ins.append((p, rng.choice([c, " " + c + " ", c + " " + "[- b -]"])))
    return _apply(text, ins), len(ins)


def unit_comment(text, P, rng, mode):
    """a block comment between a number and the word after it in step text - between the value and the unit of an
    inline quantity (`180[- fan: 160 -] °C`, `180 [- c -] °C`, `180 [- c -]°C`): "comments removed when text is
    assembled", so the INLINE_QUANTITIES search sees `180 °C` (`180  °C`) either way"""
    pts = _choose(rng, P.num_unit, mode)
    ins = []
    for after_num, after_blank in pts:
        c = "[-" + rng.choice([" fan: 160 ", "c", " c ", "", " 2 kg "]) + "-]"
        ins.append(rng.choice([(after_num, c), (after_blank, c + " "), (after_blank, c)]))
    return _apply(text, ins), len(ins)


# step text with inline quantities the bundled converter knows (temperatures, times, weights): appended as a block of
# its own, so that every source has numbers followed by unit words in step text
INLINE_STEPS = ["Preheat the oven to 180 °C for 20 minutes.", "Bake at 350 F then cool to 4 °C", "Heat 2 l of water to 90 ºC and keep 10 min",
                "Roast at 200°C or 180 C fan for 1 hour", "Keep at 65 °C\nfor 45 minutes then chill to 5 °C"]


def with_inline_quantities(text, rng):
    """a SOURCE, not an edit: the recipe plus one more step whose text holds inline quantities"""
    sep = "" if text.endswith("\n\n") or text == "" else ("\n" if text.endswith("\n") else "\n\n")
    return text + sep + rng.choice(INLINE_STEPS) + "\n"


EDITS = {"trail_comment": trail_comment, "unit_comment": unit_comment, "trail_space": trail_space, "trail_multi": trail_multi,
         "mid_comment": mid_comment, "mid_comment_double": mid_comment_double,
         "mid_comment_spaced": mid_comment_spaced, "name_comment_spaced": name_comment_spaced,
         "qty_comment": qty_comment, "extra_lines": extra_lines}
PROBES = {"probe_brace": ("after", "probe_brace"), "probe_value_spaced": ("blank", "probe_value_spaced"),
          "probe_trail_tab": ("trail_tab", None)}

# ------------------------------------------------------------------ text mode
# `>> [mode]: text` / `>> [define]: text` (MODES extension): every block below is a paragraph and a component is kept
# as written (event_consumer.rs in_text), so edit points inside a component - between the words of its name, alias or
# note, at a line end inside a component that wraps - now lie inside paragraph text.
TEXT_MODE_LINES = [">> [mode]: text\n", ">> [define]: text\n", ">>   [mode]  :   text  \n"]
# qty_comment may put a blank where there was none (`{ [-c-] 1}`): inside kept source text that is a difference in
# blank space the statement does not allow for, and not a comment "between words"
TEXT_MODE_SKIP = ("qty_comment",)


def text_mode_variant(text, rng):
    """the same source read in text mode: the mode line goes to the top of the Cooklang part"""
    body_start, _ = split_frontmatter(text)
    return text[:body_start] + rng.choice(TEXT_MODE_LINES) + text[body_start:]


def probe(text, P, rng, name):
    how, cat = PROBES[name]
    if how == "trail_tab":
        return trail_tab(text, P, rng, rng.choice(["one", "few"]))
    if how == "after":
        return mid_comment(text, P, rng, "one", cats=(cat,))
    return mid_comment_spaced(text, P, rng, "one", cats=(cat,))


# ------------------------------------------------------------------ the relation on results

_WS = re.compile(r"[ \t]+")
# paragraph text: line ends count as blank space too.  A paragraph built from Text events never holds one (a line
# break inside a block is rendered as a blank); in text mode (`>> [mode]: text`) the source of a component is kept
# as written, and a component may wrap: "@sea\nsalt{}" / "@sea\r\nsalt{}" / "@sea -- c\nsalt{}"
_WS_NL = re.compile(r"[ \t\r\n]+")


def _collapse(s):
    return _WS.sub(" ", s)


def _collapse_nl(s):
    return _WS_NL.sub(" ", s)


def normalise(recipe):
    """the projection compared by C17: everything exactly, except step and paragraph text, which is
    compared up to blank space (adjacent text items merged, runs of blanks collapsed, text at the
    start/end of a step trimmed, text items that become empty dropped)"""
    if recipe is None:
        return None
    if not isinstance(recipe, dict):
        # harness/src/bin/recipe.rs prints "unserializable" when serde_json refuses the recipe (a front matter with a
        # non-string key, DESIGN.md 12.4): compared as it is
        return recipe
    out = dict(recipe)
    secs = []
    for s in recipe["sections"]:
        content = []
        for b in s["content"]:
            if b["type"] == "text":
                content.append({"type": "text", "value": _collapse_nl(b["value"]).strip(" ")})
            else:
                items = []
                for it in b["value"]["items"]:
                    if it["type"] == "text":
                        if items and items[-1][0] == "text":
                            items[-1] = ("text", items[-1][1] + it["value"])
                        else:
                            items.append(("text", it["value"]))
                    else:
                        items.append((it["type"], it["index"]))
                items = [(k, _collapse(v)) if k == "text" else (k, v) for k, v in items]
                if items and items[0][0] == "text":
                    items[0] = ("text", items[0][1].lstrip(" "))
                if items and items[-1][0] == "text":
                    items[-1] = ("text", items[-1][1].rstrip(" "))
                items = [list(it) for it in items if not (it[0] == "text" and it[1] == "")]
                content.append({"type": "step", "number": b["value"]["number"], "items": items})
        secs.append({"name": s["name"], "content": content})
    out["sections"] = secs
    return out


def observe(o):
    """what C17 compares of one parse result (the JSON object printed by harness/src/bin/recipe.rs)"""
    if o.get("panic"):
        return {"panic": o["panic"]}
    return {"panic": None, "valid": o["valid"], "out": o["out"],
            # the statement speaks of the recipe and its validity: only whether there is an error is compared
            # (a warning may come and go with blank space, e.g. the "invalid single word name" warning of a lone
            # marker at a line end disappears when a blank or a comment follows it; recipe and validity are the same)
            "has_error": any(d[0] == "e" for d in o["diags"]),
            "recipe": normalise(o["recipe"])}


def first_diff(a, b, path=""):
    if type(a) != type(b):
        return "%s: %r != %r" % (path, a, b)
    if isinstance(a, dict):
        for k in sorted(set(a) | set(b)):
            if k not in a or k not in b:
                return "%s.%s: on one side only" % (path, k)
            d = first_diff(a[k], b[k], path + "." + k)
            if d:
                return d
        return None
    if isinstance(a, list):
        if len(a) != len(b):
            return "%s: length %d != %d (%r / %r)" % (path, len(a), len(b), a[:6], b[:6])
        for i, (x, y) in enumerate(zip(a, b)):
            d = first_diff(x, y, "%s[%d]" % (path, i))
            if d:
                return d
        return None
    return None if a == b else "%s: %r != %r" % (path, a, b)
