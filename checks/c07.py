"""C07 - diagnostics are sound, complete and placed on the offending construct.

monitor (on the implementation, through harness/src/bin/recipe.rs; the property stated independently)
  (a) soundness     every generated well-formed recipe (canonical profile under no extensions and the
                    empty converter; extended profile under all extensions / COMPAT and the bundled
                    converter; canonical recipes under subsets of the extensions that keep them
                    well-formed) is valid, has no error, and no warning other than the `>>`
                    deprecation notice (recognised structurally: Analysis stage, every label inside a
                    `>>` line; allowed only when the generator wrote `>>` metadata lines).  The marked
                    base recipe of every catalogue case is checked the same way, and so are recipes
                    with a reference that repeats the inheritable modifiers of its definition
                    (RECIPE/HIDDEN/OPT on ingredients, HIDDEN/OPT on cookware), written with `&` or
                    implicit in `[duplicate]: ref` mode.
  (b) completeness  each construct of checks/c07_catalog.py, spliced at many placements into an
      + placement   otherwise well-formed recipe, under each enabling configuration: a diagnostic of the
                    documented severity whose first label intersects (zero-width: is adjacent to) the
                    byte range of the construct.
  (c) validity      is_valid == has_output && no error diagnostic; a Parse-stage error => no output
                    and every diagnostic has stage Parse; no Parse-stage error => output present (an
                    analysis error keeps it); and the report is made of the parser's own diagnostics:
                    with a parse error it IS the parser's diagnostic list (severity, labels, in order),
                    otherwise its Parse-stage part is.  Evaluated on every case, including double
                    splices: an analysis-stage invalid construct EARLIER in the recipe than a
                    parse-stage one (and the converse order as control) - the parse error must
                    suppress the output and every analysis diagnostic collected before it.
correspondence      L-ev projected on diagnostics (severity, label spans, order) between Model/Parser.v
                    and the PullParser, full and metadata-only streams, on every spliced and every
                    well-formed text under its extension set (pc.run_both).
                    L-diag: the Analysis-stage diagnostics of CooklangParser::parse (severity, every label
                    span, in report order; harness/src/bin/adiag.rs) against the parser model followed by
                    the decorated collector of Model/AnalysisDiag.v (Extract/AdiagX.v, runner/adiag_main.ml)
                    on every case of (a), (b), (c) under its extension set and converter; the answers of
                    unicase, serde_yaml, the converter and char::is_alphanumeric are shipped with the case.
                    Cases whose report holds a parser error are compared on that fact only (the analysis
                    diagnostics are discarded then).
inventory           every run REGENERATES coq/Gen/DiagSites.v from the non-test code of /repo/src/{parser,analysis,
                    lexer}/*.rs, metadata.rs, lib.rs and error.rs (gen/gen_diags.py): every place where a diagnostic
                    is made or pushed, as (stage, file, fn, how, severity of the macro, push methods, ordinal in the
                    fn, constructor of the models, message) without line numbers; the constructor is named from the
                    dictionary of Model/DiagMap.v (key and message, else message, else key, else position).  PINNED
                    (C07_diag_inventory) is, per (stage, file), the set of (severity, constructor); proved about the
                    regenerated sites: each agrees in stage and severity with its constructor in the models and
                    with the push method, every constructor has a site (C07_diag_*).  A diagnostic nobody can name
                    (a new one), a constructor that loses its last site in a file, a changed severity break the
                    obligations (the build of Properties/C07.vo fails) and are reported with the sites and their
                    messages; moving, reordering, regrouping, rewording, building or pushing another way do not.
                    The severity and stage the catalogue expects of each construct are held against the PINNED
                    rows (cat.inventory_cross_check), never against the tree being judged."""
import json
import os
import random
import subprocess
import sys

from vlib import common
from vlib.common import hx
from checks import parser_common as pc
from checks import c07_catalog as cat

sys.path.insert(0, os.path.join(common.VERIF, "gen"))
import gen_diags  # noqa: E402

PID = "C07"
LAYER = "L-ev (diagnostics) + L-diag (analysis diagnostics) + L-rec report monitor"
WANTS_STEP = ["first", "middle", "last", "after-section"]
WANTS_LINE = ["top", "between-blocks", "after-section", "splits-a-step", "block-end", "end"]
# extension subsets that only add syntax a canonical recipe does not use
SYNTAX_ONLY = [cat.X_MOD, cat.X_ALIAS, cat.X_MODES, cat.X_INLINE, cat.X_RANGE, cat.X_INTER,
               cat.X_MOD | cat.X_ALIAS | cat.X_RANGE, cat.X_MODES | cat.X_INLINE | cat.X_INTER,
               cat.X_COMPAT & ~cat.X_ADV]


# ------------------------------------------------------------------ the monitor (pure functions of
# what the implementation returned)

def line_bounds(tb, pos):
    ls = tb.rfind(b"\n", 0, pos) + 1
    le = tb.find(b"\n", pos)
    return ls, (len(tb) if le < 0 else le)


def is_notice(d, tb):
    """the `>>` deprecation notice, recognised by its shape (never by its wording): a warning of the
    analysis stage all of whose labels lie on `>>` lines, from after the `>>` to at most the line end"""
    if d[0] != "w" or d[1] != "Analysis" or not d[2]:
        return False
    for s, e in d[2]:
        if s > e or e > len(tb):
            return False
        ls, le = line_bounds(tb, s)
        if tb[ls:ls + 2] != b">>" or s < ls + 2 or e > le:
            return False
    return True


def mon_validity(j):
    """(c) on one result; returns the list of violated equations"""
    bad = []
    diags = j["diags"]
    errs = [d for d in diags if d[0] == "e"]
    perrs = [d for d in errs if d[1] == "Parse"]
    if j["valid"] != (j["out"] and not errs):
        bad.append("is_valid != has_output && no error")
    if perrs:
        if j["out"]:
            bad.append("parse error but output kept")
        if any(d[1] != "Parse" for d in diags):
            bad.append("parse error but a non-Parse diagnostic is reported")
    elif not j["out"]:
        bad.append("no parse error but no output")
    return bad


def mon_sound(j, tb, old_style):
    """(a) on one result of a well-formed recipe"""
    bad = []
    notices = 0
    for d in j["diags"]:
        if d[0] == "e":
            bad.append("error on a well-formed recipe (%s stage, labels %s)" % (d[1], d[2]))
        elif is_notice(d, tb) and old_style:
            notices += 1
        else:
            bad.append("warning on a well-formed recipe (%s stage, labels %s)" % (d[1], d[2]))
    if notices > 1:
        bad.append("deprecation notice reported %d times" % notices)
    if not j["valid"]:
        bad.append("well-formed recipe is not valid")
    return bad


def mon_complete(j, sev, a, b, tb=None, stage=None):
    """(b): None if a diagnostic of severity `sev` has its first label on [a, b), else what is wrong.
    The `>>` deprecation notice (recognised by shape when the text `tb` is given) is never the
    diagnostic of an invalid construct; `stage`: the diagnostic must also come from that stage."""
    same = [d for d in j["diags"] if d[0] == sev and not (tb is not None and is_notice(d, tb))
            and (stage is None or d[1] == stage)]
    what = ("" if stage is None else "%s-stage " % stage) + ("error" if sev == "e" else "warning")
    if not same:
        return "silently accepted: no %s diagnostic at all" % what
    for d in same:
        if d[2] and cat.touches(d[2][0], a, b):
            return None
    return "misplaced: the %s diagnostics have primary labels %s, the construct is at bytes %d..%d" % (
        what, [d[2][0] if d[2] else None for d in same], a, b)


def ev_diags(part):
    """the diagnostics of a canonical event line part, in order: [(sev, [[s, e]..])]"""
    if part in ("-", "", None):
        return []
    if part == "panic":
        return None
    out = []
    for it in part.split(" | "):
        if it.startswith("D "):
            f = it.split(" ")
            labels = []
            if len(f) > 2 and f[2]:
                for sp in f[2].split(","):
                    s, e = sp.split("-")
                    labels.append([int(s), int(e)])
            out.append((f[1], labels))
    return out


def mon_glue(j, evd):
    """(c), report part: the report against the parser's own diagnostic list"""
    rep = [(d[0], d[2]) for d in j["diags"]]
    if any(s == "e" for s, _ in evd):
        if rep != [(s, l) for s, l in evd]:
            return "with a parse error the report is not the parser's diagnostic list"
    else:
        if [(d[0], d[2]) for d in j["diags"] if d[1] == "Parse"] != [(s, l) for s, l in evd]:
            return "the Parse-stage part of the report is not the parser's diagnostic list"
    return None


# ------------------------------------------------------------------ case construction

def sound_cases(rng, n):
    out = []
    profs = [("canonical", 0, "e"), ("extended", cat.X_ALL, "b"), ("extended", cat.X_COMPAT, "b")]
    for i in range(n):
        prof, ext, conv = profs[i % 3]
        g = cat.SpliceGen(rng, prof)
        text, exp, info = g.recipe()
        text = cat.strip_marks(text)
        out.append({"kind": "sound", "text": text, "ext": ext, "conv": conv, "old_style": info["old_style_meta"],
                    "profile": prof})
        if prof == "canonical":
            # the COMPAT-like mixes: the same canonical recipe under extension subsets that keep it well-formed
            e2 = rng.choice(SYNTAX_ONLY)
            out.append({"kind": "sound", "text": text, "ext": e2, "conv": "e", "old_style": info["old_style_meta"],
                        "profile": "canonical-under-%d" % e2})
            for e3, c3 in ((cat.X_ADV, "b"), (cat.X_TRT, "e"), (cat.X_COMPAT, "b"), (cat.X_ALL, "b")):
                if i % 12 == 0 and cat.base_ok(exp, e3):
                    out.append({"kind": "sound", "text": text, "ext": e3, "conv": c3,
                                "old_style": info["old_style_meta"], "profile": "canonical-under-%d" % e3})
    return out


def sound_ref_cases(rng, n):
    """well-formed references that repeat modifiers of their definition (RECIPE/HIDDEN/OPT on
    ingredients, HIDDEN/OPT on cookware: what resolve_reference inherits), explicit and - in
    `[duplicate]: ref` mode - implicit"""
    out = []
    exp_cfg = [(cat.X_MOD, "e"), (cat.X_COMPAT, "b"), (cat.X_ALL, "b"), (cat.X_MOD | cat.X_ALIAS | cat.X_RANGE, "e")]
    imp_cfg = [(cat.X_MOD | cat.X_MODES, "e"), (cat.X_COMPAT, "b"), (cat.X_ALL, "b")]
    comp_cfg = [(cat.X_MODES, "e"), (cat.X_MODES | cat.X_MOD, "e"), (cat.X_COMPAT, "b"), (cat.X_ALL, "b"),
                (cat.X_MODES | cat.X_ALIAS | cat.X_INLINE, "e")]
    for i in range(n):
        if i % 4 == 3:
            ext, conv = comp_cfg[(i // 4) % len(comp_cfg)]
            sp = cat.wf_components_block(rng, ext)
            prof = "components-mode-list"
        elif i % 3 == 2:
            ext, conv = imp_cfg[(i // 3) % len(imp_cfg)]
            sp = cat.wf_implicit_reference(rng, ext)
            prof = "implicit-reference-repeating-modifiers"
        else:
            ext, conv = exp_cfg[(i // 3) % len(exp_cfg)]
            sp = cat.wf_reference(rng, ext)
            prof = "reference-repeating-modifiers"
        if sp is None:
            continue
        out.append({"kind": "sound", "text": sp["text"], "ext": ext, "conv": conv, "old_style": sp["old_style"],
                    "profile": prof, "pair": sp["pair"], "tags": sp["tags"]})
    return out


def double_cases(rng, n):
    """an analysis-stage and a parse-stage invalid construct in one recipe, in both orders"""
    out = []
    for i in range(n):
        ea = cat.BY_ID[cat.DOUBLE_ANALYSIS[i % len(cat.DOUBLE_ANALYSIS)]]
        ep = cat.BY_ID[rng.choice(cat.DOUBLE_PARSE)]
        cfgs = cat.double_configs(ea, ep)
        ext, conv = cfgs[(i // len(cat.DOUBLE_ANALYSIS)) % len(cfgs)]
        analysis_first = i % 4 != 3          # the converse order is the control
        sp = cat.double_splice(rng, ea, ep, ext, analysis_first)
        if sp is None:
            continue
        sp.update({"kind": "double", "entry": ep.id, "analysis_entry": ea.id, "ext": ext, "conv": conv, "sev": "e"})
        out.append(sp)
    return out


def inter_cases(rng, n):
    """intermediate references one past / far past the last valid target (errors, catalogue stream) and on
    the last valid target (well-formed, soundness stream), in sections that also hold `> text` blocks"""
    bad, good = [], []
    cfgs = [(cat.X_INTER, "e"), (cat.X_COMPAT, "b"), (cat.X_ALL, "b")]
    kinds = list(cat.INTER_KINDS)
    for i in range(n):
        kind = kinds[i % 4]
        how = ["boundary", "boundary", "far", "valid"][(i // 4) % 4]
        ext, conv = cfgs[i % 3]
        sp = cat.inter_boundary_splice(rng, ext, kind, how)
        if sp is None:
            continue
        if how == "valid":
            good.append({"kind": "sound", "text": sp["text"], "ext": ext, "conv": conv, "old_style": sp["old_style"],
                         "profile": "intermediate-reference-last-valid-target", "tags": sp["tags"]})
        else:
            sp.update({"kind": "catalog", "entry": "inter_%s_%s" % (how, kind), "ext": ext, "conv": conv, "sev": "e"})
            bad.append(sp)
    return bad, good


def catalog_cases(rng, per):
    out = []
    for en in cat.CATALOG:
        wants = WANTS_LINE if en.level == "line" else WANTS_STEP
        for ext, conv in en.configs():
            for k in range(per):
                sp = cat.splice(rng, en, ext, want=wants[k % len(wants)])
                if sp is None:
                    continue
                sp.update({"kind": "catalog", "entry": en.id, "ext": ext, "conv": conv, "sev": en.sev})
                out.append(sp)
    return out


def corpus_cases():
    """corpus/C07.cases: `<hex> <ext> <conv> sound <old_style 0|1>` | `<hex> <ext> <conv> catalog <sev> <a> <b>`"""
    out = []
    for l in common.load_corpus(PID):
        f = l.split()
        c = {"text": common.unhx(f[0]), "ext": int(f[1]), "conv": f[2], "kind": f[3], "corpus": True}
        if f[3] == "sound":
            c["old_style"] = f[4] == "1"
            c["profile"] = "corpus"
        else:
            c.update({"sev": f[4], "a": int(f[5]), "b": int(f[6]), "entry": "corpus", "tags": ["corpus"]})
        out.append(c)
    return out


def run_recipe(bindir, triples):
    """triples: list of (text, ext, conv) -> dict triple -> parsed JSON"""
    uniq = list(dict.fromkeys(triples))
    # the harness caches one parser per configuration: keep configurations together
    uniq.sort(key=lambda t: (t[1], t[2]))
    lines = ["%s %d %s" % (hx(t), e, c) for t, e, c in uniq]
    outl = common.run_lines(os.path.join(bindir, "recipe"), lines, tag="c07")
    return {k: json.loads(o) for k, o in zip(uniq, outl)}


ADIAG_DEPS = pc.MODEL_DEPS + ["Model/Events.v", "Model/Analysis.v", "Model/Diag.v", "Model/EventBridge.v",
                              "Model/AnalysisLabels.v", "Model/AnalysisDiag.v"]


def build_adiag():
    return common.build_runner("adiag", ADIAG_DEPS, commons=("common_n.ml",))


def run_ldiag(bindir, runner, triples):
    """L-diag on the distinct (text, ext, conv): returns (counts, disagreements)"""
    uniq = list(dict.fromkeys(triples))
    uniq.sort(key=lambda t: (t[1], t[2]))
    outl = common.run_lines(os.path.join(bindir, "adiag"), ["%s %d %s" % (hx(t), e, c) for t, e, c in uniq], tag="c07d")
    cnt = {"cases": len(uniq), "compared": 0, "with_analysis_diagnostics": 0, "parse_error_cases": 0,
           "impl_panics": 0, "labels_compared": 0}
    mcases, keep = [], []
    for k, o in zip(uniq, outl):
        if o == "panic":
            cnt["impl_panics"] += 1       # C03's subject
            continue
        d, p, orc = o.split(" ;; ")
        mcases.append("%s %d %s" % (hx(k[0]), k[1], orc[3:]))
        keep.append((k, d, p))
    mout = common.run_lines(runner, mcases, tag="c07dm")
    dis = []
    for (k, d, p), m in zip(keep, mout):
        rp = {"input": k[0], "input_hex": hx(k[0]), "ext": k[1], "conv": k[2], "part": "L-diag (analysis diagnostics)",
              "impl": (d + " ;; " + p)[:1200], "model": m[:1200], "ldiag": True}
        if m == "panic":
            dis.append((k[0], rp))
            continue
        md, mp = m.split(" ;; ")
        if mp != p:
            dis.append((k[0], rp))
        elif p == "P 1":
            cnt["parse_error_cases"] += 1
        elif md != d:
            dis.append((k[0], rp))
        else:
            cnt["compared"] += 1
            if d != "D -":
                cnt["with_analysis_diagnostics"] += 1
                cnt["labels_compared"] += d.count("-")
    return cnt, dis


def replay_of(c, extra=None):
    d = {"input": c["text"], "input_hex": hx(c["text"]), "ext": c["ext"], "conv": c["conv"], "case_kind": c["kind"]}
    for k in ("entry", "analysis_entry", "a", "b", "aa", "ab", "sev", "tags", "old_style", "profile", "pair"):
        if k in c:
            d[k] = c[k]
    if extra:
        d.update(extra)
    return d


# ------------------------------------------------------------------ the inventory of diagnostics

def inventory():
    """regenerate Gen/DiagSites.v; -> (stats for the evidence, what is wrong: list of (what, replay dict))"""
    inv = gen_diags.regenerate()
    items = inv["items"]
    expected = gen_diags.expected_summary()
    lines, unknown = gen_diags.summary_diff(items, expected)
    held, cat_bad = cat.inventory_cross_check(expected)
    st = {"sites": len(items), "pinned_rows": None if expected is None else len(expected),
          "rows": len(gen_diags.summary_of(items)), "file_rewritten": inv["changed"], "differences": lines, "unnamed_sites": unknown,
          "by_stage": {k: sum(1 for it in items if it["stage"] == k) for k in ("Parse", "Analysis", "AnyStage")},
          "by_how": {k: sum(1 for it in items if it["how"] == k) for k in sorted(set(it["how"] for it in items))},
          "constructor_named_by": {k: sum(1 for it in items if it["via"] == k) for k in sorted(set(it["via"] for it in items))},
          "catalogue_entries_held_against_pinned_rows": held, "catalogue_disagreements": cat_bad,
          "samples": ["%s:%d %s -> %s" % (it["path"], it["line"], gen_diags.show_key(gen_diags.key_of(it), it["msg"])[:200], it["ctor"])
                      for it in items[8:9] + items[40:41] + items[-1:]]}
    bad = []
    if expected is None:
        bad.append(("Properties/C07.v has no theorem C07_diag_inventory", {}))
    elif lines or unknown:
        what = ("the diagnostics made by the code (%s) are not those pinned by C07_diag_inventory (per stage and file: "
                "the set of (severity, constructor of the models)):\n    %s" % (
                    common.REPO, "\n    ".join(lines + ["no constructor of the models could be named for: " + u for u in unknown])))
        bad.append((what, {"differences": lines, "unnamed_sites": unknown,
                           "unchecked": "which constructor of the models stands for each diagnostic of the code, and "
                                        "its severity (Model/DiagMap.v) <-> src/parser, src/analysis, src/error.rs"}))
    if cat_bad:
        bad.append(("the catalogue of checks/c07_catalog.py and the rows of C07_diag_inventory disagree:\n    %s"
                    % "\n    ".join(cat_bad), {"catalogue_disagreements": cat_bad}))
    for what, _ in bad:
        common.log("  " + what)
    return st, bad


# ------------------------------------------------------------------ the check

def run(rep, tier, seed):
    rng = random.Random(seed)
    quick = tier == "quick"
    inv_stats, inv_bad = inventory()      # before the audit: Properties/C07.vo depends on the regenerated file
    paths = pc.prepare(need_release=False)
    bindir = common.build_harness(["recipe", "adiag"])
    adiag_runner = build_adiag()
    audit = common.audit_property_file(PID)

    corpus = corpus_cases()
    sound = [c for c in corpus if c["kind"] == "sound"] + sound_cases(rng, 6000 if quick else 60000)
    sound += sound_ref_cases(rng, 2400 if quick else 20000)
    catalog = [c for c in corpus if c["kind"] == "catalog"] + catalog_cases(rng, 30 if quick else 220)
    ibad, igood = inter_cases(rng, 2400 if quick else 24000)
    catalog += ibad
    sound += igood
    doubles = double_cases(rng, 1600 if quick else 16000)
    bases = []
    seen_base = set()
    for c in catalog:
        if "base" in c and (c["base"], c["ext"], c["conv"]) not in seen_base and not cat.BY_ID[c["entry"]].prefix:
            seen_base.add((c["base"], c["ext"], c["conv"]))
            bases.append({"kind": "base", "text": c["base"], "ext": c["ext"], "conv": c["conv"],
                          "old_style": c["old_style"], "profile": "base-of-" + c["entry"]})
    allc = sound + bases + catalog + doubles
    res = run_recipe(bindir, [(c["text"], c["ext"], c["conv"]) for c in allc])

    hits = []
    panics = 0
    counts = {"sound_cases": 0, "sound_with_notice": 0, "base_cases": 0, "catalog_cases": 0, "catalog_found": 0,
              "sound_ref_cases": 0, "sound_components_cases": 0, "double_cases": 0, "double_analysis_first": 0, "double_parse_first": 0,
              "double_parse_error_found": 0}
    double_pairs = set()
    per_entry = {}
    per_class = {}
    placements = {}
    for c in allc:
        j = res[(c["text"], c["ext"], c["conv"])]
        if j.get("panic"):
            panics += 1           # C03's subject; nothing of C07 can be evaluated on this case
            continue
        tb = c["text"].encode("utf-8")
        for v in mon_validity(j):
            hits.append((c["text"], "validity equation broken: " + v, replay_of(c, {"diags": j["diags"]})))
        if c["kind"] == "double":
            # two invalid constructs: the parse-stage one must be diagnosed on its bytes, and - by the
            # validity equations evaluated above - there is no output and nothing but Parse-stage
            # diagnostics, wherever the analysis-stage construct sits
            counts["double_cases"] += 1
            counts["double_analysis_first" if "analysis-first" in c["tags"] else "double_parse_first"] += 1
            double_pairs.add((c["analysis_entry"], c["entry"]))
            v = mon_complete(j, "e", c["a"], c["b"])
            if v is None and not any(d[0] == "e" and d[1] == "Parse" for d in j["diags"]):
                v = "the error on the parse-stage construct is not of the Parse stage"
            if v is None:
                counts["double_parse_error_found"] += 1
            else:
                hits.append((c["text"], "double splice %s + %s under extensions %d: %s" % (
                    c["analysis_entry"], c["entry"], c["ext"], v), replay_of(c, {"diags": j["diags"]})))
            continue
        if c["kind"] in ("sound", "base"):
            counts["sound_cases" if c["kind"] == "sound" else "base_cases"] += 1
            if c.get("pair"):
                counts["sound_ref_cases" if c["profile"] != "components-mode-list" else "sound_components_cases"] += 1
            if any(is_notice(d, tb) for d in j["diags"]):
                counts["sound_with_notice"] += 1
            for v in mon_sound(j, tb, c["old_style"]):
                hits.append((c["text"], v, replay_of(c, {"diags": j["diags"]})))
        else:
            counts["catalog_cases"] += 1
            en = cat.BY_ID.get(c["entry"])
            pe = per_entry.setdefault(c["entry"], {"cases": 0, "found": 0, "configs": set(), "placements": set()})
            pe["cases"] += 1
            pe["configs"].add("%d/%s" % (c["ext"], c["conv"]))
            for t in c["tags"]:
                if not t.startswith(("lead=", "text-blocks-before=", "steps-before=", "sections-before=")):
                    pe["placements"].add(t)
                    placements[t] = placements.get(t, 0) + 1
            v = mon_complete(j, c["sev"], c["a"], c["b"], tb,
                             en.stage if (en is not None and en.strict_stage) else None)
            if v is None:
                pe["found"] += 1
                counts["catalog_found"] += 1
                if en is not None:
                    per_class[en.cls] = per_class.get(en.cls, 0) + 1
            else:
                hits.append((c["text"], "construct %s (%s, %s) under extensions %d: %s" % (
                    c["entry"], en.cls if en else "corpus", en.src if en else "-", c["ext"], v),
                             replay_of(c, {"diags": j["diags"]})))

    # ---- correspondence L-ev on diagnostics, and the report against the parser's diagnostic list
    by_ext = {}
    for c in sound + catalog + doubles:
        by_ext.setdefault(c["ext"], []).append(c)
    dis = []
    lev_cases = 0
    glue_cases = 0
    model_diag_cases = 0
    for ext, cs in sorted(by_ext.items()):
        texts = list(dict.fromkeys(c["text"] for c in cs))
        conv_of = {}
        for c in cs:
            conv_of.setdefault(c["text"], c)
        for s, e, a, b in pc.run_both(paths, texts, [ext]):
            lev_cases += 1
            da, db = pc.split3(a), pc.split3(b)
            for part in ("E", "M"):
                ia, ib = ev_diags(da.get(part)), ev_diags(db.get(part))
                if ia != ib:
                    dis.append((s, {"input": s, "input_hex": hx(s), "ext": e, "part": part + " (diagnostics)",
                                    "impl": str(ia)[:1200], "model": str(ib)[:1200]}))
                    break
            else:
                if ev_diags(db.get("E")):
                    model_diag_cases += 1
            ia = ev_diags(da.get("E"))
            c = conv_of[s]
            j = res[(s, c["ext"], c["conv"])]
            if ia is not None and not j.get("panic"):
                glue_cases += 1
                v = mon_glue(j, ia)
                if v:
                    hits.append((s, v, replay_of(c, {"diags": j["diags"], "parser_diags": ia})))

    # ---- correspondence L-diag: the analysis diagnostics of the implementation against Model/AnalysisDiag.v
    ldiag, ldis = run_ldiag(bindir, adiag_runner, [(c["text"], c["ext"], c["conv"]) for c in allc])
    dis += ldis

    common.decide(rep, PID, LAYER, audit, hits, dis, tier,
                  "correspondence Model/Parser.v <-> src/parser on diagnostics (severity, labels, order) and "
                  "Model/AnalysisDiag.v <-> src/analysis/event_consumer.rs on the analysis diagnostics")
    if not hits:
        # a changed inventory without an input on which the property fails (with one, the input is the report and
        # the difference is in the log and in the evidence)
        for what, rp in inv_bad:
            rep.violation(what, dict(rp, layer="inventory of diagnostics (gen/gen_diags.py -> Gen/DiagSites.v)"),
                          found_input=False)
    common.proof_coverage(rep, PID, audit, tier,
                          "the diagnostics of the pull parser (Model/Parser.v: code, severity, label spans - message "
                          "wording is not modelled) and the way parse_events/PassResult combine the stages "
                          "(Model/Diag.v); the analysis pass (Model/Analysis.v, L-rec of C06) decorated with its 24 "
                          "diagnostics, their severity and ordered labels (Model/AnalysisDiag.v, L-diag here); "
                          "custom validators of ParseOptions are not modelled (default options); which place of the "
                          "code each constructor stands for is a hand table (Model/DiagMap.v) over the inventory that "
                          "gen/gen_diags.py reads from the source on every run (token level)")
    missing = sorted(k for k in cat.CLASSES if not per_class.get(k))
    distinct = set(c["text"] for c in catalog + doubles) | set(c["text"] for c in sound if any(ch in c["text"] for ch in "@#~"))
    samples = []
    for c in (catalog[len(corpus):len(corpus) + 1] + catalog[len(catalog) // 2:len(catalog) // 2 + 2] + catalog[-1:]):
        j = res[(c["text"], c["ext"], c["conv"])]
        samples.append({"entry": c["entry"], "ext": c["ext"], "conv": c["conv"], "input": c["text"],
                        "construct_bytes": [c["a"], c["b"]], "placement": c["tags"], "expected_severity": c["sev"],
                        "diags": [[d[0], d[1], d[2]] for d in j.get("diags", [])]})
    for c in doubles[:2]:
        j = res[(c["text"], c["ext"], c["conv"])]
        samples.append({"double_splice": [c["analysis_entry"], c["entry"]], "ext": c["ext"], "conv": c["conv"],
                        "input": c["text"], "parse_construct_bytes": [c["a"], c["b"]],
                        "analysis_construct_bytes": [c["aa"], c["ab"]], "placement": c["tags"],
                        "diags": [[d[0], d[1], d[2]] for d in j.get("diags", [])]})
    for c in sound[len(corpus):len(corpus) + 2] + [c for c in sound if c.get("pair")][:2] + \
            [c for c in sound if c.get("profile") == "components-mode-list"][:1]:
        j = res[(c["text"], c["ext"], c["conv"])]
        samples.append({"well_formed": c["profile"], "reference_pair": c.get("pair"), "ext": c["ext"],
                        "conv": c["conv"], "input": c["text"],
                        "diags": [[d[0], d[1], d[2]] for d in j.get("diags", [])]})
    rep.coverage.update({
        "evaluations": len(res) + lev_cases + ldiag["cases"], "distinct_nontrivial": len(distinct),
        "rule": "well-formed recipes of gen/grec.py (canonical under no extensions / extension subsets that keep "
                "them well-formed, extended under all extensions and COMPAT, bundled converter) must be "
                "diagnostic-free up to the `>>` notice; every construct of checks/c07_catalog.py (%d entries in %d "
                "classes of the statement, severity and source line recorded there) is spliced at a marker the "
                "generator leaves between two pieces of a step (first/middle/last step, first step after a section, "
                "optionally on a wrapped line, glued to a multi-byte character, set-up in an earlier step), at a "
                "safe line start (blocks) or as the front matter, under each enabling configuration; the base "
                "recipe of each splice is itself checked to be diagnostic-free; well-formed references that repeat "
                "the inheritable modifiers of their definition (explicit, and implicit in `[duplicate]: ref` mode) "
                "are spliced the same way and must be diagnostic-free, and so are components-mode lists ([mode]/"
                "[define]: components/ingredients) separated by non-alphanumeric punctuation, then switched back; "
                "intermediate references `(N)`, `(~N)`, `(=N)`, `(=~N)` with N exactly one past / far past the "
                "number of previous steps / sections are spliced into sections that also hold `> text` blocks "
                "(error expected), N on the last valid target is a well-formed control; double splices put an analysis-stage and a "
                "parse-stage construct into one recipe (analysis one first, and the converse as control): no output, "
                "only Parse-stage diagnostics, the parse error on its construct; distinct_nontrivial = distinct "
                "spliced texts + distinct well-formed texts containing a component"
                % (len(cat.CATALOG), len(cat.CLASSES)),
        "samples": samples,
        "soundness": {"recipes": counts["sound_cases"], "splice_bases": counts["base_cases"],
                      "with_deprecation_notice": counts["sound_with_notice"],
                      "references_repeating_inherited_modifiers": counts["sound_ref_cases"],
                      "components_mode_lists_with_punctuation": counts["sound_components_cases"]},
        "completeness": {"cases": counts["catalog_cases"], "diagnosed_on_the_construct": counts["catalog_found"],
                         "classes_covered": sorted(per_class), "classes_missing": missing,
                         "per_class": per_class, "placements": placements},
        "per_construct": {k: {"cases": v["cases"], "found": v["found"], "configs": sorted(v["configs"]),
                              "placements": sorted(v["placements"]),
                              "severity": cat.BY_ID[k].sev if k in cat.BY_ID else "-",
                              "source": cat.BY_ID[k].src if k in cat.BY_ID else "-"}
                          for k, v in sorted(per_entry.items())},
        "double_splices": {"cases": counts["double_cases"], "analysis_construct_first": counts["double_analysis_first"],
                           "parse_construct_first_control": counts["double_parse_first"],
                           "parse_error_on_its_construct": counts["double_parse_error_found"],
                           "distinct_construct_pairs": len(double_pairs)},
        "intermediate_reference_boundary": {
            "out_of_range_cases": len(ibad), "with_text_blocks_before": sum(1 for c in ibad if c["texts_before"] > 0),
            "exactly_one_past_the_last_target": sum(1 for c in ibad if "inter-boundary" in c["tags"]),
            "last_valid_target_controls": len(igood)},
        "validity_equation_cases": len(allc) - panics, "report_vs_parser_diag_cases": glue_cases,
        "panicking_cases_skipped": panics,
        "correspondence_cases": lev_cases, "correspondence_disagreements": len(dis),
        "analysis_diagnostics_correspondence": ldiag,
        "correspondence_cases_with_model_diagnostics": model_diag_cases,
        "monitor_violations": len(hits), "exhaustive": False,
        "diagnostic_inventory": inv_stats,
    })
    if missing and not hits:
        rep.violation("catalogue classes never exercised: %s" % ", ".join(missing), {"missing": missing},
                      found_input=False)
    rep.assumptions = [
        "well-formedness is the generator's (gen/grec.py documents which constructs it emits); the expected "
        "severity of each construct is read off the code and extensions.md (checks/c07_catalog.py)",
        "the deprecation notice is recognised by shape (Analysis warning whose labels all lie on `>>` lines), not by wording",
        "custom validators of ParseOptions are not exercised (default options): the five diagnostics they make have no "
        "constructor in the models (C07_diag_unmodelled lists them, with float()'s parse error)",
        "the inventory of diagnostics is a token-level scan (error!/warning!, SourceDiag::error/warning/unlabeled, "
        ".into_source_diag, struct literals with a severity field, .error(/.warn( and ctx|report.push( of anything else); "
        "a SourceDiag built in another way, or pushed through a receiver with another name, is not seen; which "
        "constructor an entry maps to (Model/DiagMap.v) is read off the source by hand"]


def setup():
    gen_diags.regenerate()
    pc.prepare(need_release=False)
    common.build_harness(["recipe", "adiag"])
    build_adiag()


def replay(rp):
    r = rp["replay"]
    if "input_hex" not in r:
        # a broken obligation / a changed inventory without a failing input: regenerate, rebuild the obligations
        st, bad = inventory()
        audit = common.audit_property_file(PID)
        print("diagnostic inventory: %d sites in %d rows (pinned rows: %s)" % (st["sites"], st["rows"], st["pinned_rows"]))
        for l in st["differences"] + st["unnamed_sites"] + st["catalogue_disagreements"]:
            print("  " + l)
        print("obligations: %d/%d %s" % (audit["discharged"], audit["obligations"], "; ".join(audit["failed"])))
        return 0 if audit["ok"] and not bad else 1
    bindir = common.build_harness(["recipe", "events", "adiag"])
    line = "%s %s %s\n" % (r["input_hex"], r.get("ext", 0), r.get("conv", "e"))
    if r.get("ldiag"):
        cnt, ldis = run_ldiag(bindir, build_adiag(), [(common.unhx(r["input_hex"]), int(r.get("ext", 0)), r.get("conv", "e"))])
        for _, rp in ldis:
            print(json.dumps({"impl": rp["impl"], "model": rp["model"]}, ensure_ascii=False))
        return 1 if ldis else 0
    p = subprocess.run([os.path.join(bindir, "recipe"), "-"], input=line, text=True, stdout=subprocess.PIPE)
    j = json.loads(p.stdout)
    text = common.unhx(r["input_hex"])
    tb = text.encode("utf-8")
    bad = []
    if j.get("panic"):
        print("panic in " + str(j["panic"]))
        return 1
    bad += mon_validity(j)
    kind = r.get("case_kind", "sound")
    if kind in ("sound", "base"):
        bad += mon_sound(j, tb, r.get("old_style", True))
    elif kind in ("catalog", "double"):
        en = cat.BY_ID.get(r.get("entry"))
        v = mon_complete(j, r["sev"], r["a"], r["b"], tb, en.stage if (en is not None and en.strict_stage) else None)
        if v:
            bad.append(v)
    p2 = subprocess.run([os.path.join(bindir, "events"), "-"], input="%s %s\n" % (r["input_hex"], r.get("ext", 0)),
                        text=True, stdout=subprocess.PIPE)
    evd = ev_diags(pc.split3(p2.stdout.strip()).get("E"))
    if evd is not None:
        v = mon_glue(j, evd)
        if v:
            bad.append(v)
    print(json.dumps({"valid": j["valid"], "out": j["out"], "diags": j["diags"], "violated": bad}, ensure_ascii=False))
    return 1 if bad else 0
