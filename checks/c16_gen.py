"""C16 helpers: units-file values (normal form), TOML writer, token codec shared with the harness and
the runner, generator of layered configurations, Coq printer for coq/Gen/*.v.

Normal form of a file (plain Python data, hash maps as dicts):
  {'ds': None|'m'|'i',
   'si': None | {'p': None|[6 lists of str], 's': None|[6 lists], 'prec': 'b'|'a'|'o'},
   'fr': None | {'all': fw|None, 'metric': fw|None, 'imperial': fw|None, 'q': {pq: fw}, 'u': {key: fw}},
   'ex': None | {'prec': .., 'units': {key: (ratio|None, diff|None, names|None, symbols|None, aliases|None)}},
   'q': [ {'q': pq, 'best': None|('u', names)|('s', metric, imperial),
           'units': None|('u', [ue])|('s', [ue], [ue], [ue])} ]}
  fw = ('t', bool) | ('c', enabled|None, accuracy(float, f32-exact)|None, max_den|None, max_whole|None)
  ue = (names, symbols, aliases, ratio(float), difference(float), expand_si)
pq codes: V M L T H (volume mass length temperature time)."""
import struct
from fractions import Fraction

PQ_NAME = {"V": "volume", "M": "mass", "L": "length", "T": "temperature", "H": "time"}
PQ_COQ = {"V": "Volume", "M": "Mass", "L": "Length", "T": "Temperature", "H": "Time"}
PQS = ["V", "M", "L", "T", "H"]
PREC_NAME = {"b": "before", "a": "after", "o": "override"}
PREC_COQ = {"b": "Before", "a": "After", "o": "Override"}
PREFIXES = ["kilo", "hecto", "deca", "deci", "centi", "milli"]
PREFIX_POW = {"kilo": 3, "hecto": 2, "deca": 1, "deci": -1, "centi": -2, "milli": -3}


def f32(x):
    return struct.unpack("f", struct.pack("f", x))[0]


def hx(s):
    return "x" + s.encode("utf-8").hex()


def unhx(s):
    return bytes.fromhex(s[1:]).decode("utf-8")


# --------------------------------------------------------------------------- TOML text

def t_str(s):
    out = ['"']
    for ch in s:
        o = ord(ch)
        if ch == '"':
            out.append('\\"')
        elif ch == "\\":
            out.append("\\\\")
        elif o < 0x20 or o == 0x7f:
            out.append("\\u%04x" % o)
        else:
            out.append(ch)
    out.append('"')
    return "".join(out)


def t_strs(l):
    return "[" + ", ".join(t_str(s) for s in l) + "]"


def t_num(x):
    if isinstance(x, int):
        return str(x)
    r = repr(float(x))
    if "e" in r and "." not in r:       # TOML wants a fraction or a plain exponent; 1e-05 is legal
        return r
    return r


def t_fw(w):
    if w[0] == "t":
        return "true" if w[1] else "false"
    parts = []
    _, en, acc, md, mw = w
    if en is not None:
        parts.append("enabled = %s" % ("true" if en else "false"))
    if acc is not None:
        parts.append("accuracy = %s" % t_num(acc))
    if md is not None:
        parts.append("max_denominator = %d" % md)
    if mw is not None:
        parts.append("max_whole = %d" % mw)
    return "{ " + ", ".join(parts) + " }" if parts else "{}"


def t_ue(e, variant=0):
    names, symbols, aliases, ratio, diff, ex = e
    nk, sk, ak = ("names", "symbols", "aliases") if variant == 0 else ("name", "symbol", "alias")
    parts = ["%s = %s" % (nk, t_strs(names)), "%s = %s" % (sk, t_strs(symbols))]
    if aliases or variant == 2:
        parts.append("%s = %s" % (ak, t_strs(aliases)))
    parts.append("ratio = %s" % (str(int(ratio)) if float(ratio).is_integer() and variant == 0 and abs(ratio) < 1e15 else t_num(ratio)))
    if diff != 0 or variant == 2:
        parts.append("difference = %s" % t_num(diff))
    if ex:
        parts.append("expand_si = true")
    return "{ " + ", ".join(parts) + " }"


def to_toml(f, variant=0):
    lines = []
    if f["ds"]:
        lines.append('default_system = "%s"' % ("metric" if f["ds"] == "m" else "imperial"))
    if f["si"] is not None:
        si = f["si"]
        parts = []
        for key, tab in (("prefixes", si["p"]), ("symbol_prefixes", si["s"])):
            if tab is not None:
                parts.append("%s = { %s }" % (key, ", ".join("%s = %s" % (p, t_strs(l)) for p, l in zip(PREFIXES, tab))))
        if si["prec"] != "b" or si.get("explicit_prec"):
            parts.append('precedence = "%s"' % PREC_NAME[si["prec"]])
        lines.append("si = { " + ", ".join(parts) + " }" if parts else "si = {}")
    if f["fr"] is not None:
        fr = f["fr"]
        parts = []
        for k in ("all", "metric", "imperial"):
            if fr[k] is not None:
                parts.append("%s = %s" % (k, t_fw(fr[k])))
        if fr["q"]:
            parts.append("quantity = { " + ", ".join("%s = %s" % (PQ_NAME[q], t_fw(w)) for q, w in fr["q"].items()) + " }")
        if fr["u"]:
            parts.append("unit = { " + ", ".join("%s = %s" % (t_str(k), t_fw(w)) for k, w in fr["u"].items()) + " }")
        lines.append("fractions = { " + ", ".join(parts) + " }" if parts else "fractions = {}")
    if f["ex"] is not None:
        ex = f["ex"]
        parts = []
        if ex["prec"] != "b" or ex.get("explicit_prec"):
            parts.append('precedence = "%s"' % PREC_NAME[ex["prec"]])
        ents = []
        for k, (ratio, diff, names, symbols, aliases) in ex["units"].items():
            ep = []
            if ratio is not None:
                ep.append("ratio = %s" % t_num(ratio))
            if diff is not None:
                ep.append("difference = %s" % t_num(diff))
            if names is not None:
                ep.append("names = %s" % t_strs(names))
            if symbols is not None:
                ep.append("symbols = %s" % t_strs(symbols))
            if aliases is not None:
                ep.append("aliases = %s" % t_strs(aliases))
            ents.append("%s = { %s }" % (t_str(k), ", ".join(ep)) if ep else "%s = {}" % t_str(k))
        if ents:
            parts.append("units = { " + ", ".join(ents) + " }")
        lines.append("extend = { " + ", ".join(parts) + " }" if parts else "extend = {}")
    for g in f["q"]:
        lines.append("[[quantity]]")
        lines.append('quantity = "%s"' % PQ_NAME[g["q"]])
        b = g["best"]
        if b is not None:
            if b[0] == "u":
                lines.append("best = %s" % t_strs(b[1]))
            else:
                lines.append("best = { metric = %s, imperial = %s }" % (t_strs(b[1]), t_strs(b[2])))
        u = g["units"]
        if u is not None:
            if u[0] == "u":
                lines.append("units = [" + ", ".join(t_ue(e, variant) for e in u[1]) + "]")
            else:
                parts = []
                for key, l in zip(("metric", "imperial", "unspecified"), u[1:]):
                    if l or variant == 2:
                        parts.append("%s = [%s]" % (key, ", ".join(t_ue(e, variant) for e in l)))
                lines.append("units = { " + ", ".join(parts) + " }" if parts else "units = {}")
    return "\n".join(lines) + "\n"


# --------------------------------------------------------------------------- tokens -> normal form

class Toks:
    def __init__(self, toks, side="impl"):
        self.t, self.i, self.side = toks, 0, side

    def next(self):
        v = self.t[self.i]
        self.i += 1
        return v

    def peek(self):
        return self.t[self.i]

    def int(self):
        return int(self.next())

    def q(self):
        a, b = self.next(), self.next()
        if a == "nf":
            return None
        if self.side == "impl":
            m, e = int(a), int(b)
            return Fraction(m) * (Fraction(2) ** e)
        return Fraction(int(a), int(b))

    def list(self, f):
        return [f() for _ in range(self.int())]

    def s(self):
        return unhx(self.next())

    def strs(self):
        return self.list(self.s)

    def opt(self, f):
        if self.peek() == "-":
            self.next()
            return None
        return f()


def rd_fw(t):
    k = t.next()
    if k == "t":
        return ("t", t.next() == "1")
    en = t.opt(lambda: t.next() == "1")
    acc = t.opt(lambda: (t.next(), t.q())[1])
    md = t.opt(t.int)
    mw = t.opt(t.int)
    return ("c", en, acc, md, mw)


def rd_ue(t):
    return (t.strs(), t.strs(), t.strs(), t.q(), t.q(), t.next() == "1")


def rd_file(t):
    assert t.next() == "F"
    f = {}
    f["ds"] = t.opt(t.next)

    def si():
        t.next()
        tabs = []
        for _ in range(2):
            tabs.append(t.opt(lambda: (t.next(), [t.strs() for _ in range(6)])[1]))
        return {"p": tabs[0], "s": tabs[1], "prec": t.next()}
    f["si"] = t.opt(si)

    def fr():
        t.next()
        r = {"all": t.opt(lambda: rd_fw(t)), "metric": t.opt(lambda: rd_fw(t)), "imperial": t.opt(lambda: rd_fw(t))}
        r["q"] = dict(t.list(lambda: (t.next(), rd_fw(t))))
        r["u"] = dict(t.list(lambda: (t.s(), rd_fw(t))))
        return r
    f["fr"] = t.opt(fr)

    def ex():
        t.next()
        p = t.next()
        oq = lambda: t.opt(lambda: (t.next(), t.q())[1])
        ol = lambda: t.opt(lambda: (t.next(), t.strs())[1])
        ents = t.list(lambda: (t.s(), (oq(), oq(), ol(), ol(), ol())))
        return {"prec": p, "units": dict(ents)}
    f["ex"] = t.opt(ex)

    def group():
        q = t.next()

        def best():
            k = t.next()
            return ("u", t.strs()) if k == "u" else ("s", t.strs(), t.strs())

        def units():
            k = t.next()
            if k == "u":
                return ("u", t.list(lambda: rd_ue(t)))
            return ("s", t.list(lambda: rd_ue(t)), t.list(lambda: rd_ue(t)), t.list(lambda: rd_ue(t)))
        return {"q": q, "best": t.opt(best), "units": t.opt(units)}
    f["q"] = t.list(group)
    return f


def exact(f):
    """Normal form with floats replaced by exact fractions (what the tokens carry), no helper keys."""
    def fw(w):
        if w is None or w[0] == "t":
            return w
        return ("c", w[1], None if w[2] is None else Fraction(f32(w[2])), w[3], w[4])

    def ue(e):
        return (list(e[0]), list(e[1]), list(e[2]), Fraction(float(e[3])), Fraction(float(e[4])), bool(e[5]))
    o = {"ds": f["ds"]}
    o["si"] = None if f["si"] is None else {"p": f["si"]["p"], "s": f["si"]["s"], "prec": f["si"]["prec"]}
    if f["fr"] is None:
        o["fr"] = None
    else:
        fr = f["fr"]
        o["fr"] = {"all": fw(fr["all"]), "metric": fw(fr["metric"]), "imperial": fw(fr["imperial"]),
                   "q": {k: fw(w) for k, w in fr["q"].items()}, "u": {k: fw(w) for k, w in fr["u"].items()}}
    if f["ex"] is None:
        o["ex"] = None
    else:
        o["ex"] = {"prec": f["ex"]["prec"], "units": {
            k: (None if e[0] is None else Fraction(float(e[0])), None if e[1] is None else Fraction(float(e[1])),
                e[2], e[3], e[4]) for k, e in f["ex"]["units"].items()}}
    o["q"] = []
    for g in f["q"]:
        u = g["units"]
        if u is not None:
            u = (u[0],) + tuple([ue(e) for e in l] for l in u[1:])
        b = g["best"]
        if b is not None:
            b = (b[0],) + tuple(list(l) for l in b[1:])
        o["q"].append({"q": g["q"], "best": b, "units": u})
    return o


# --------------------------------------------------------------------------- dump -> structure

def rd_dump(toks, side):
    t = Toks(toks, side)
    d = {}
    assert t.next() == "U"
    d["units"] = t.list(lambda: {"names": t.strs(), "symbols": t.strs(), "aliases": t.strs(), "ratio": t.q(),
                                 "diff": t.q(), "q": t.next(), "sys": t.next()})
    assert t.next() == "I"
    d["index"] = t.list(lambda: (t.s(), t.int()))
    assert t.next() == "Q"
    d["qindex"] = {}
    for _ in range(5):
        q = t.next()
        d["qindex"][q] = t.list(t.int)
    assert t.next() == "B"
    d["best"] = {}
    bl = lambda: t.list(lambda: (t.q(), t.int()))
    for _ in range(5):
        q = t.next()
        k = t.next()
        d["best"][q] = ("u", bl()) if k == "u" else ("s", bl(), bl())
    assert t.next() == "R"

    def cfg():
        return (t.next() == "1", t.q(), t.int(), t.int())
    ocfg = lambda: t.opt(lambda: (t.next(), cfg())[1])
    d["fr"] = {"all": ocfg(), "metric": ocfg(), "imperial": ocfg()}
    d["fr"]["q"] = t.list(lambda: (t.next(), cfg()))
    d["fr"]["u"] = t.list(lambda: (t.int(), cfg()))
    assert t.next() == "S"
    d["ds"] = t.next()
    assert t.i == len(t.t), "trailing tokens in dump"
    return d


# --------------------------------------------------------------------------- generator

FULL_P = [["kilo"], ["hecto"], ["deca"], ["deci"], ["centi"], ["milli"]]
FULL_S = [["k"], ["h"], ["da"], ["d"], ["c"], ["m"]]
ES_P = [["quilo"], ["hect"], ["dec"], ["decim"], ["centim"], ["mili"]]
ES_S = [["K"], ["H"], ["D"], ["dd"], ["cc"], ["mm"]]
HOLE_P = [["kilo"], [], [], [], [], ["milli"]]
HOLE_S = [["k"], [], [], [], [], ["m"]]

POOL = {
    "M": [(["gram", "grams"], ["g"], 1.0, 0.0, True, "m"), (["ounce", "ounces"], ["oz"], 28.349523125, 0.0, False, "i"),
          (["pound"], ["lb", "lb."], 453.59237, 0.0, False, "i"), (["stone"], ["st"], 6350.29318, 0.0, False, None)],
    "V": [(["liter", "litre"], ["l", "L"], 1.0, 0.0, True, "m"), (["cup", "cups"], ["c"], 0.236588236, 0.0, False, "i"),
          (["teaspoon"], ["tsp"], 0.004928921, 0.0, False, "i"), (["pint"], ["pt"], 0.473176473, 0.0, False, "i"),
          (["drop"], ["dr"], 0.001, 0.0, False, None), (["bucket"], ["bk"], 10.0, 0.0, False, None)],
    "L": [(["meter", "metre"], ["m"], 1.0, 0.0, True, "m"), (["foot", "feet"], ["ft", "'"], 0.3048, 0.0, False, "i"),
          (["inch"], ["in", "\""], 0.0254, 0.0, False, "i")],
    "T": [(["celsius"], ["°C", "C"], 1.0, 273.15, False, "m"), (["fahrenheit"], ["°F", "F"], 0.5555555555555556, 459.67, False, "i"),
          (["kelvin"], ["K"], 1.0, 0.0, False, None)],
    "H": [(["second", "seconds"], ["s", "sec"], 1.0, 0.0, False, None), (["minute"], ["min"], 60.0, 0.0, False, None),
          (["hour"], ["h"], 3600.0, 0.0, False, None), (["day"], ["d"], 86400.0, 0.0, False, None)],
}
COLL = ["g", "m", "l", "c", "kg", "ml", "mm", "kilogram", "h", "", "  ", " ", "x", "gram", "min", "s", "dl", "cup", "é", "名", "a\"b\\c"]
RATIOS = [1.0, 2.0, 0.5, 0.1, 0.001, 1000.0, 3.0, 28.349523125, 0.25, 1e-3, 12.5, 100.0, 0.01]
SPACED = ["g ", " g", "gram ", " l", "l ", "m ", " gr.", "oz ", " oz", "kilogram ", " min", "s ", "\tg", "cup "]
FRESH = ["gramo", "litro", "taza", "metro", "hora", "libra", "onza", "pie", "segundo", "kilos", "cl.", "tbsp", "fl oz", "º"]


def flt(rng, p):
    """a fault with probability p, scaled by the fault level of the case"""
    return rng.random() < p * getattr(rng, "fault", 1.0)


def gen_fw(rng):
    if rng.random() < 0.5:
        return ("t", rng.random() < 0.6)
    return ("c", rng.choice([None, True, False]), rng.choice([None, 0.05, 0.5, 0.0, 1.0, 1.5, -0.25, 0.1]),
            rng.choice([None, 0, 1, 3, 8, 16, 17, 255]), rng.choice([None, 0, 5, 4294967295]))


def gen_fractions(rng, keys):
    fr = {"all": None, "metric": None, "imperial": None, "q": {}, "u": {}}
    for k in ("all", "metric", "imperial"):
        if rng.random() < 0.4:
            fr[k] = gen_fw(rng)
    for q in PQS:
        if rng.random() < 0.2:
            fr["q"][q] = gen_fw(rng)
    for _ in range(rng.choice([0, 0, 1, 2, 3])):
        k = rng.choice(keys) if keys and not flt(rng, 0.05) else "zz"
        fr["u"][k] = gen_fw(rng)
    return fr


def gen_si(rng, base):
    r = rng.random()
    if base:
        if r < 0.90 or not flt(rng, 1.0):
            p, s = FULL_P, FULL_S
        elif r < 0.91:
            p, s = HOLE_P, HOLE_S
        elif r < 0.94:
            p, s = FULL_P, None
        elif r < 0.97:
            p, s = None, FULL_S
        else:
            p, s = [x + y for x, y in zip(FULL_P, ES_P)], FULL_S
    else:
        if r < 0.4:
            p, s = ES_P, ES_S
        elif r < 0.6:
            p, s = ES_P, None
        elif r < 0.7:
            p, s = None, ES_S
        elif r < 0.94:
            p, s = [[], [], [], [], [], ["mili"]], [[], [], [], [], [], []]
        else:
            p, s = FULL_P, FULL_S          # same prefixes again: duplicates unless override
    prec = rng.choice(["b", "b", "a", "o"])
    return {"p": p, "s": s, "prec": prec, "explicit_prec": rng.random() < 0.3}


def mutate_unit(rng, u):
    names, symbols, ratio, diff, ex, sysm = u
    names, symbols, aliases = list(names), list(symbols), []
    r = rng.random() / rng.fault if getattr(rng, "fault", 1.0) else 1.0
    if r < 0.012:
        aliases.append(rng.choice(COLL))
    elif r < 0.02:
        names.append(rng.choice(COLL))
    elif r < 0.025:
        names = []
    elif r < 0.03:
        symbols = []
    elif r < 0.033:
        names, symbols = [], []
    elif r < 0.038:
        symbols.append(symbols[0] if symbols else "q")    # the same key twice in one unit
    elif rng.random() < 0.12:
        aliases.append(rng.choice(FRESH) + rng.choice(["", "", "s", "2"]))
    if rng.random() < 0.05:
        # a key with blanks around it is a key of its own (it is stored and looked up verbatim)
        aliases.append(rng.choice(SPACED))
    if flt(rng, 0.02):
        ex = not ex
    if rng.random() < 0.12:
        ratio = rng.choice(RATIOS)
    return (names, symbols, aliases, ratio, diff, ex), sysm


def keys_of(ue, si_ok=True):
    ks = list(ue[0]) + list(ue[1]) + list(ue[2])
    if ue[5] and si_ok:
        for n in ue[0]:
            ks += ["kilo" + n, "milli" + n, "centi" + n]
        for s in ue[1]:
            ks += ["k" + s, "m" + s, "d" + s]
    return ks


def gen_group(rng, q, known, allow_faults=True, pool_skip=0):
    pool = POOL[q]
    k = rng.choice([1, 2, 2, 3, 3, len(pool)])
    if pool_skip:
        chosen = pool[pool_skip:pool_skip + k]
    elif rng.random() < 0.8:
        chosen = pool[:k]
    else:
        chosen = rng.sample(pool, min(k, len(pool)))
        k = len(pool)
    used = known.setdefault("used", {})
    used[q] = max(used.get(q, 0), pool_skip + k)
    ents = [mutate_unit(rng, u) if allow_faults else ((list(u[0]), list(u[1]), [], u[2], u[3], u[4]), u[5]) for u in chosen]
    own = []
    for ue, _ in ents:
        own += keys_of(ue)
        known.setdefault("si", set()).update(keys_of(ue)[len(ue[0]) + len(ue[1]) + len(ue[2]):])
    known.setdefault(q, [])
    known[q] += own
    if rng.random() < 0.5:
        units = ("u", [ue for ue, _ in ents])
    else:
        units = ("s", [ue for ue, s in ents if s == "m"], [ue for ue, s in ents if s == "i"], [ue for ue, s in ents if s is None])
    if allow_faults and flt(rng, 0.04):
        units = None if rng.random() < 0.5 else ("u", [])
    best = None
    if not flt(rng, 0.03):
        cand = [x for x in known[q] if x.strip()] or ["zz"]
        pick = lambda: [rng.choice(cand) for _ in range(rng.choice([1, 1, 2, 2, 3, 4]))]
        best = ("u", pick()) if rng.random() < 0.5 else ("s", pick(), pick())
        if allow_faults:
            r = rng.random() / rng.fault if getattr(rng, "fault", 1.0) else 1.0
            other = [x for qq in known if qq in PQS for x in known[qq] if qq != q and x.strip()]
            if r < 0.012:
                best = ("u", []) if best[0] == "u" else ("s", best[1], []) if rng.random() < 0.5 else ("s", [], best[2])
            elif r < 0.02:
                best[1].insert(rng.randrange(len(best[1]) + 1), "zz")
            elif r < 0.04 and other:
                best[-1].insert(rng.randrange(len(best[-1]) + 1), rng.choice(other))
            elif r < 0.05 and other:
                best = ("u", [rng.choice(other)])
    return {"q": q, "best": best, "units": units}


def gen_layered_case(rng):
    """The layering shape the random walk rarely reaches: an expand_si unit with SI tables, a layer that gives
    aliases to one of its SI forms, and a separate layer that edits the base unit - usually after it, sometimes
    before it or in the same block; now and then a further layer touching the form or the base again."""
    rng.fault = 0.0
    q = rng.choice(["M", "V", "L"])
    f0 = {"ds": rng.choice([None, "m", "i"]), "si": {"p": FULL_P, "s": FULL_S, "prec": "b", "explicit_prec": rng.random() < 0.3},
          "fr": None, "ex": None, "q": []}
    for qq in PQS:
        pool = POOL[qq][:rng.choice([1, 2, 3])]
        ents = [(list(u[0]), list(u[1]), [], u[2], u[3], u[4]) for u in pool]
        f0["q"].append({"q": qq, "best": ("u", [pool[0][1][0]]), "units": ("u", ents)})
    base = POOL[q][0]
    pre, spre = rng.choice(list(zip(FULL_P, FULL_S)))
    form = rng.choice([pre[0] + rng.choice(base[0]), spre[0] + rng.choice(base[1])])
    word = lambda: rng.choice(FRESH) + rng.choice(["", "s", "2", "3", "4"])
    prec = lambda: rng.choice(["b", "b", "a", "o"])

    def on_form():
        return (None, None, None, None, [word() for _ in range(rng.choice([1, 1, 2]))])

    def on_base():
        r = rng.random()
        names = [word() for _ in range(rng.choice([1, 2]))] if r < 0.6 else None
        symbols = [word()] if 0.5 < r < 0.8 else None
        aliases = [word()] if r >= 0.75 or rng.random() < 0.2 else None
        ratio = rng.choice(RATIOS) if rng.random() < 0.2 else None
        return (ratio, None, names, symbols, aliases)

    def layer(units):
        return {"ds": None, "si": None, "fr": None, "q": [],
                "ex": {"prec": prec(), "units": units, "explicit_prec": rng.random() < 0.3}}
    basekey = rng.choice(list(base[0]) + list(base[1]))
    r = rng.random()
    if r < 0.6:
        files = [f0, layer({form: on_form()}), layer({basekey: on_base()})]
    elif r < 0.8:
        files = [f0, layer({basekey: on_base()}), layer({form: on_form()})]
    else:
        files = [f0, layer({form: on_form(), basekey: on_base()})]
    if rng.random() < 0.25 and len(files) < 3:
        files.append(layer({rng.choice([form, basekey]): rng.choice([on_form, on_base])()}))
    if rng.random() < 0.3:
        # another unit of another quantity extended along the way
        other = rng.choice([x for x in PQS if x != q])
        files[-1]["ex"]["units"][POOL[other][0][1][0]] = (None, None, None, None, [word()])
    return files


def gen_fraction_layers_case(rng):
    """Two or three [fractions] layers: per-unit entries that leave fields open in an early layer, and a later
    layer that sets or changes all / metric / imperial / a quantity (or the other way round)."""
    rng.fault = 0.0
    f0 = {"ds": rng.choice([None, "m", "i"]), "si": {"p": FULL_P, "s": FULL_S, "prec": "b", "explicit_prec": False},
          "fr": None, "ex": None, "q": []}
    keys = []
    for qq in PQS:
        pool = POOL[qq][:rng.choice([2, 3])]
        ents = [(list(u[0]), list(u[1]), [], u[2], u[3], u[4]) for u in pool]
        bysys = rng.random() < 0.7
        units = ("s", [e for e, u in zip(ents, pool) if u[5] == "m"], [e for e, u in zip(ents, pool) if u[5] == "i"],
                 [e for e, u in zip(ents, pool) if u[5] is None]) if bysys else ("u", ents)
        f0["q"].append({"q": qq, "best": ("u", [pool[0][1][0]]), "units": units})
        keys += [rng.choice(u[0] + u[1]) for u in pool]
    partial = lambda: ("c", rng.choice([None, None, True, False]), rng.choice([None, None, 0.1, 0.5]),
                       rng.choice([None, 3, 8, 16]), rng.choice([None, None, 5]))

    def units_layer():
        fr = {"all": None, "metric": None, "imperial": None, "q": {}, "u": {}}
        for k in rng.sample(keys, rng.choice([1, 2, 3])):
            fr["u"][k] = partial() if rng.random() < 0.8 else gen_fw(rng)
        for k in ("all", "metric", "imperial"):
            if rng.random() < 0.3:
                fr[k] = gen_fw(rng)
        return fr

    def broad_layer():
        fr = {"all": None, "metric": None, "imperial": None, "q": {}, "u": {}}
        for k in ("all", "metric", "imperial"):
            if rng.random() < 0.6:
                fr[k] = gen_fw(rng)
        for q in PQS:
            if rng.random() < 0.3:
                fr["q"][q] = gen_fw(rng)
        if not any(fr[k] for k in ("all", "metric", "imperial")) and not fr["q"]:
            fr["imperial"] = ("t", rng.random() < 0.5)
        return fr
    layer = lambda fr: {"ds": None, "si": None, "fr": fr, "ex": None, "q": []}
    order = [units_layer, broad_layer] if rng.random() < 0.7 else [broad_layer, units_layer]
    f0["fr"] = order[0]()
    files = [f0, layer(order[1]())]
    if rng.random() < 0.3:
        files.append(layer(rng.choice([units_layer, broad_layer])()))
    return files


def gen_case(rng):
    r0 = rng.random()
    if r0 < 0.1:
        return gen_layered_case(rng)
    if r0 < 0.16:
        return gen_fraction_layers_case(rng)
    known = {}
    files = []
    rng.fault = rng.choice([0.0, 0.0, 0.3, 1.0, 1.0])
    nfiles = rng.choice([1, 1, 2, 2, 2, 3])
    # base file
    f = {"ds": rng.choice([None, None, "m", "i"]), "si": None, "fr": None, "ex": None, "q": []}
    qs = PQS[:]
    if rng.random() < 0.3:
        rng.shuffle(qs)
    if flt(rng, 0.04):
        qs.remove(rng.choice(qs))
    if flt(rng, 0.04):
        qs.append(rng.choice(PQS))
    for q in qs:
        skip = known.get("used", {}).get(q, 0)
        f["q"].append(gen_group(rng, q, known, pool_skip=skip))
    if not flt(rng, 0.05):
        f["si"] = gen_si(rng, True)
    allkeys = [x for q in known if q in PQS for x in known[q]]
    if rng.random() < 0.3:
        f["fr"] = gen_fractions(rng, allkeys)
    if rng.random() < 0.08:
        f["ex"] = gen_extend(rng, known)
    files.append(f)
    for _ in range(nfiles - 1):
        f = {"ds": rng.choice([None, None, None, "m", "i"]), "si": None, "fr": None, "ex": None, "q": []}
        if rng.random() < 0.7:
            f["ex"] = gen_extend(rng, known)
        if rng.random() < 0.35:
            for q in rng.sample(PQS, rng.choice([1, 1, 2])):
                skip = known.get("used", {}).get(q, 0) if not flt(rng, 0.1) else 0
                g = gen_group(rng, q, known, allow_faults=rng.random() < 0.3, pool_skip=skip)
                if rng.random() < 0.4:
                    g["units"] = None
                f["q"].append(g)
        if rng.random() < 0.25:
            f["si"] = gen_si(rng, False)
        if rng.random() < 0.3:
            f["fr"] = gen_fractions(rng, [x for q in known if q in PQS for x in known[q]])
        files.append(f)
    return files


def gen_extend(rng, known):
    allkeys = [x for q in known if q in PQS for x in known[q] if x.strip()] or ["zz"]
    units = {}
    for _ in range(rng.choice([1, 1, 2, 2, 3, 4])):
        k = rng.choice(allkeys) if not flt(rng, 0.04) else rng.choice(["zz", "", "kilozz"])
        names = symbols = aliases = ratio = diff = None
        r = rng.random()
        word = lambda: (rng.choice(FRESH) + rng.choice(["", "", "s", "2", "3"])) if not flt(rng, 0.1) else rng.choice(COLL)
        if r < 0.4:
            names = [word() for _ in range(rng.choice([1, 1, 2]))]
        if rng.random() < 0.2:
            symbols = [word()]
        if rng.random() < 0.4:
            aliases = [word() for _ in range(rng.choice([0, 1, 1, 2]))]
        if rng.random() < 0.12:
            ratio = rng.choice(RATIOS)
        if rng.random() < 0.04:
            diff = rng.choice([0.0, 1.0, 273.15])
        if k in known.get("si", ()) and rng.random() < 0.9:
            names = symbols = ratio = diff = None
        units[k] = (ratio, diff, names, symbols, aliases)
    # remember the new keys so that later layers can refer to them
    for k, e in units.items():
        qk = [q for q in PQS if k in known.get(q, [])]
        for l in e[2:]:
            if l and qk:
                known[qk[0]].extend([x for x in l if x.strip()][:1])
    return {"prec": rng.choice(["b", "b", "a", "o"]), "units": units, "explicit_prec": rng.random() < 0.3}


# --------------------------------------------------------------------------- tomllib document -> normal form

def from_tomllib(d):
    """tomllib's dict for a units file -> normal form (used for /repo/units.toml and units/*.toml)."""
    pqc = {v: k for k, v in PQ_NAME.items()}
    prc = {v: k for k, v in PREC_NAME.items()}

    def fw(v):
        if isinstance(v, bool):
            return ("t", v)
        return ("c", v.get("enabled"), v.get("accuracy"), v.get("max_denominator"), v.get("max_whole"))

    def ue(e):
        g = lambda a, b: e.get(a, e.get(b, []))
        return (list(g("names", "name")), list(g("symbols", "symbol")), list(g("aliases", "alias")),
                float(e["ratio"]), float(e.get("difference", 0.0)), bool(e.get("expand_si", False)))
    f = {"ds": None, "si": None, "fr": None, "ex": None, "q": []}
    if "default_system" in d:
        f["ds"] = "m" if d["default_system"] == "metric" else "i"
    if "si" in d:
        si = d["si"]
        tab = lambda k: [list(si[k][p]) for p in PREFIXES] if k in si else None
        f["si"] = {"p": tab("prefixes"), "s": tab("symbol_prefixes"), "prec": prc[si.get("precedence", "before")]}
    if "fractions" in d:
        fr = d["fractions"]
        f["fr"] = {"all": fw(fr["all"]) if "all" in fr else None, "metric": fw(fr["metric"]) if "metric" in fr else None,
                   "imperial": fw(fr["imperial"]) if "imperial" in fr else None,
                   "q": {pqc[k]: fw(v) for k, v in fr.get("quantity", {}).items()},
                   "u": {k: fw(v) for k, v in fr.get("unit", {}).items()}}
    if "extend" in d:
        ex = d["extend"]
        g = lambda e, a, b: (list(e[a]) if a in e else (list(e[b]) if b in e else None))
        f["ex"] = {"prec": prc[ex.get("precedence", "before")], "units": {
            k: (float(e["ratio"]) if "ratio" in e else None, float(e["difference"]) if "difference" in e else None,
                g(e, "names", "name"), g(e, "symbols", "symbol"), g(e, "aliases", "alias"))
            for k, e in ex.get("units", {}).items()}}
    for g in d.get("quantity", []):
        best = None
        if "best" in g:
            b = g["best"]
            best = ("u", list(b)) if isinstance(b, list) else ("s", list(b["metric"]), list(b["imperial"]))
        units = None
        if "units" in g:
            u = g["units"]
            if isinstance(u, list):
                units = ("u", [ue(e) for e in u])
            else:
                units = ("s", [ue(e) for e in u.get("metric", [])], [ue(e) for e in u.get("imperial", [])],
                         [ue(e) for e in u.get("unspecified", [])])
        f["q"].append({"q": pqc[g["quantity"]], "best": best, "units": units})
    return f


# --------------------------------------------------------------------------- Coq printer

def c_str(s):
    return "[" + "; ".join(str(ord(ch)) for ch in s) + "]"


def c_strs(l):
    return "[" + "; ".join(c_str(s) for s in l) + "]"


def c_q(x):
    x = Fraction(x)
    return "(%d # %d)%%Q" % (x.numerator, x.denominator)


def c_opt(v, f):
    return "None" if v is None else "(Some %s)" % f(v)


def c_bool(b):
    return "true" if b else "false"


def c_fw(w):
    if w[0] == "t":
        return "(FToggle %s)" % c_bool(w[1])
    return "(FCustom {| fh_enabled := %s; fh_accuracy := %s; fh_max_den := %s; fh_max_whole := %s |})" % (
        c_opt(w[1], c_bool), c_opt(w[2], c_q), c_opt(w[3], lambda n: "%d%%N" % n), c_opt(w[4], lambda n: "%d%%N" % n))


def c_table(t):
    return "(fun p => match p with %s end)" % " | ".join(
        "%s => %s" % (n.capitalize(), c_strs(l)) for n, l in zip(PREFIXES, t))


def c_ue(e):
    return ("{| ue_names := %s; ue_symbols := %s; ue_aliases := %s; ue_ratio := %s; ue_difference := %s; "
            "ue_expand_si := %s |}" % (c_strs(e[0]), c_strs(e[1]), c_strs(e[2]), c_q(e[3]), c_q(e[4]), c_bool(e[5])))


def c_list(l, f, sep=";\n    "):
    return "[" + sep.join(f(x) for x in l) + "]"


def c_file(f):
    """f: exact() normal form.  Hash maps are printed in the order of the dict."""
    sysn = {"m": "Metric", "i": "Imperial"}
    si = c_opt(f["si"], lambda s: "{| si_prefixes := %s; si_symbol_prefixes := %s; si_prec := %s |}" % (
        c_opt(s["p"], c_table), c_opt(s["s"], c_table), PREC_COQ[s["prec"]]))
    fr = c_opt(f["fr"], lambda r: "{| fr_all := %s; fr_metric := %s; fr_imperial := %s; fr_quantity := %s; fr_unit := %s |}" % (
        c_opt(r["all"], c_fw), c_opt(r["metric"], c_fw), c_opt(r["imperial"], c_fw),
        c_list(r["q"].items(), lambda kv: "(%s, %s)" % (PQ_COQ[kv[0]], c_fw(kv[1]))),
        c_list(r["u"].items(), lambda kv: "(%s, %s)" % (c_str(kv[0]), c_fw(kv[1])))))
    ex = c_opt(f["ex"], lambda x: "{| ex_prec := %s; ex_units := %s |}" % (
        PREC_COQ[x["prec"]], c_list(x["units"].items(), lambda kv: "(%s, {| xe_ratio := %s; xe_difference := %s; xe_names := %s; "
                                    "xe_symbols := %s; xe_aliases := %s |})" % (
            c_str(kv[0]), c_opt(kv[1][0], c_q), c_opt(kv[1][1], c_q), c_opt(kv[1][2], c_strs), c_opt(kv[1][3], c_strs),
            c_opt(kv[1][4], c_strs)))))

    def group(g):
        b = g["best"]
        best = c_opt(b, lambda b: "(BUnified %s)" % c_strs(b[1]) if b[0] == "u" else "(BBySystem %s %s)" % (c_strs(b[1]), c_strs(b[2])))
        u = g["units"]
        units = c_opt(u, lambda u: "(UUnified %s)" % c_list(u[1], c_ue) if u[0] == "u" else "(UBySystem %s %s %s)" % (
            c_list(u[1], c_ue), c_list(u[2], c_ue), c_list(u[3], c_ue)))
        return "{| qg_quantity := %s; qg_best := %s;\n    qg_units := %s |}" % (PQ_COQ[g["q"]], best, units)
    return ("{| uf_default_system := %s;\n   uf_si := %s;\n   uf_fractions := %s;\n   uf_extend := %s;\n   uf_quantity := %s |}" % (
        c_opt(f["ds"], lambda s: sysn[s]), si, fr, ex, c_list(f["q"], group)))
