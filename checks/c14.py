"""C14 - metadata-only parsing agrees with full parsing.

monitor         harness/src/bin/c14mon.rs: on the implementation, whenever `parse` and `parse_metadata`
                both have output, their metadata maps (serde_json values) are equal.
correspondence  L-ev restricted to the `E` (full event stream) and `M` (metadata-only stream)
                projections of Model/Parser.v, which the theorems of Properties/C14.v are about."""
import os
import random
import subprocess

from vlib import common
from vlib.common import hx
from checks import parser_common as pc

PID = "C14"
ALPHA = [">", ":", "a", "[", "]", " ", "\n", "-", "=", "@", "{", "}", "m", "o", "d", "e"]
BOM = "\ufeff"
# the monitor's enumeration also has the backslash (backslash + LF is one Escaped token: the next line is then
# a continuation, not a line start) and the byte order mark (a word character in front of the first line)
ALPHA_MON = ALPHA + ["\\", BOM]
X_MODES = 64

META_KEYS = ["title", "k", "servings", "time", "prep time", "tags", "a b", "[mode]", "[define]", "[duplicate]",
             "[ mode ]", "[x]", "[]", "[mode", "mode]", "[a]b", "[  two  spaces ]", "", " ", "[-c-]k", "k[-c-]",
             "[ [-c-]mode]", "author", "source", "locale", "é"]
META_VALUES = ["v", "Pasta", "2", "1h 30m", "steps", "text", "components", "ingredients", "all", "default", "new",
               "reference", "ref", "bogus", "", " ", "a: b", ">> x: y", "@salt{1%g}", "-- c", "[- c -] w", "x -- tail",
               "a  b", "\\:"]
YAML_BLOCKS = ["a: 1\n", "title: T\nservings: 2\n", "k: v\n", "tags: [a, b]\n", "[bad\n", "", "? [1, 2]\n: seq key\n",
               "1: one\n", "time: 1h\nprep time: 5m\n", "x: .nan\n", "k: v\nk2: {a: 1}\n", "'[mode]': steps\n"]


def meta_line(rng):
    k = rng.choice(META_KEYS)
    v = rng.choice(META_VALUES)
    form = rng.random()
    if form < 0.08:
        return ">>" + rng.choice(["", " "]) + k                 # no colon: not an entry
    if form < 0.12:
        return " >> %s: %s" % (k, v)                            # indented: not a metadata line
    if form < 0.16:
        return ">  > %s: %s" % (k, v)
    return ">>" + rng.choice(["", " ", "  "]) + k + rng.choice(["", " "]) + ":" + rng.choice(["", " ", "  "]) + v


def inject(text, rng):
    """put `>>` lines before / inside / after the lines of a generated recipe (multi-line steps,
    sections, text blocks, comments), sometimes inside a block comment, sometimes glued to a
    line (so that `>>` is not at a line start)."""
    lines = text.split("\n")
    n = rng.randint(1, 4)
    for _ in range(n):
        pos = rng.randint(0, len(lines))
        ml = meta_line(rng)
        k = rng.random()
        if k < 0.70:
            lines.insert(pos, ml)
            if pos > 0 and rng.random() < 0.15:
                lines[pos - 1] += "\\"                      # backslash right before the line break above `>>`
        elif k < 0.80:
            lines[pos:pos] = ["[- open", ml, "close -]"]       # inside a block comment
        elif k < 0.88:
            lines[pos:pos] = ["[- c -]" + ml]                   # a comment before `>>` on the line
        elif k < 0.94 and lines:
            i = min(pos, len(lines) - 1)
            lines[i] = lines[i] + " " + ml                      # `>>` in the middle of a line
        else:
            lines[pos:pos] = ["-- " + ml]
    return "\n".join(lines)


def generated(rng, n):
    out = []
    base = pc.grec_texts(rng, n, features={"frontmatter": False})
    for i, (text, _exp, _prof, _info) in enumerate(base):
        t = inject(text, rng)
        k = i % 6
        if k == 1:
            t = "---\n" + rng.choice(YAML_BLOCKS) + "---\n" + t            # with a front matter
        elif k == 2:
            t = rng.choice(["\n", " \n", "x\n"]) + "---\n" + rng.choice(YAML_BLOCKS) + "---\n" + t
        elif k == 3:
            t = "---\n" + rng.choice(YAML_BLOCKS) + rng.choice(["--- \n", "---", "----\n"]) + t
        if rng.random() < 0.25:
            t = t.replace("\n", "\r\n")
        if rng.random() < 0.08:
            t = BOM + t                                         # file saved as 'UTF-8 with BOM'
        out.append(t)
    return out


def handwritten():
    body = "Mix @flour{1%kg}\nand @eggs{2}.\n\n= Part\n\n> note\n\nBake ~{10%min}.\n"
    out = []
    for k in META_KEYS:
        for v in ("v", "steps", "bogus", ""):
            line = ">> %s: %s" % (k, v)
            out += [line, line + "\n" + body, body + line, "Mix\n" + line + "\nwell\n",
                    "---\na: 1\n---\n" + line + "\n" + body, "---\na: 1\n---\n" + body + line + "\n",
                    "[- " + line + " -]\n" + body, "[-\n" + line + "\n-]\n" + body,
                    "= S\n" + line + "\n@salt\n", (line + "\n" + body).replace("\n", "\r\n"),
                    line + "\n" + line.replace(": ", ": other ") + "\n"]
    # byte order mark at offset 0 in front of a fence, an entry, blank lines, a step
    for rest in ["---\na: 1\n---\n" + body, "---\na: 1\n---\n>> k: v\n" + body, ">> k: v\n" + body, ">> k: v",
                 ">> [mode]: steps\n" + body, "\n>> k: v\n" + body, "\n\n---\na: 1\n---\n" + body, " \n>> k: v\n",
                 body + ">> k: v\n", "-- c\n>> k: v\n", "= S\n>> k: v\n", "> t\n>> k: v\n", "---\n---\n", ""]:
        for nl in ("\n", "\r\n"):
            out += [BOM + rest.replace("\n", nl), BOM + BOM + rest.replace("\n", nl), rest.replace("\n", nl) + BOM]
    # a backslash right before the line break on the line above a `>>` line (LF: one Escaped token covering the
    # line feed, so the `>>` is mid-line for both splitters; CRLF: the backslash escapes the CR only)
    for above in ["Mix well\\", "Mix @salt{1%g}\\", "Add @salt\\", "#pot{}\\", "~{5%min}\\", "> a note\\", ">\\",
                  "\\", "= S\\", ">> a: b\\", "-- c\\", "[- c -]\\", "Mix \\\\", "Mix\\ ", "@a{1\\"]:
        for line in (">> k: v", ">>k:v", ">> [mode]: steps", ">> k"):
            for nl in ("\n", "\r\n"):
                out += [above + nl + line + nl, above + nl + line, "x" + nl + above + nl + line + nl + body.replace("\n", nl),
                        above + nl + line + nl + line.replace("k", "j") + nl,
                        "---" + nl + "a: 1" + nl + "---" + nl + above + nl + line + nl]
    # backslash and `>>` on one line
    out += ["\\>> k: v\n", "\\>> k: v", "x \\>> k: v\n", "\\ >> k: v\n", ">> k\\: v\n", ">> k: v\\\n>> j: w\n", ">>\\ k: v\n",
            "\\\n>> k: v\n", "\\\r\n>> k: v\r\n", "\\>>\n>> k: v\n"]
    out += ["---\n" + y + "---\n" + body for y in YAML_BLOCKS]
    out += ["---\n" + y + "---\n>> [mode]: steps\n>> [x]: y\n>> k: v\n" + body for y in YAML_BLOCKS]
    return out


def enum_lines(maxlen, exts):
    """enumeration cases for c14mon: every string over ALPHA_MON with length <= maxlen"""
    ah = hx("".join(ALPHA_MON))
    ex = ",".join(str(e) for e in exts)
    lines = []
    for n in range(0, maxlen + 1):
        if n <= 3:
            lines.append("E %s %d %s %s" % (ah, n, hx(""), ex))
        else:
            for a in ALPHA_MON:
                for b in ALPHA_MON:
                    lines.append("E %s %d %s %s" % (ah, n, hx(a + b), ex))
    return lines


def run_enum(exe, lines):
    """run enumeration cases spread round-robin over all cores (common.run_lines would put these
    few hundred heavy lines on two shards)"""
    from concurrent.futures import ThreadPoolExecutor
    n = common.NCPU
    parts = [lines[i::n] for i in range(n)]

    def one(part):
        if not part:
            return []
        p = subprocess.run([exe, "-"], input="\n".join(part) + "\n", text=True, stdout=subprocess.PIPE,
                           stderr=subprocess.PIPE, timeout=1500)
        o = p.stdout.splitlines()
        if p.returncode != 0 or len(o) != len(part):
            raise common.Broken("c14mon enumeration failed: rc=%s %d/%d lines\n%s"
                                % (p.returncode, len(o), len(part), p.stderr[-1500:]))
        return o

    with ThreadPoolExecutor(max_workers=n) as ex:
        outs = list(ex.map(one, parts))
    return [l for o in outs for l in o]


def lmeta_disagreements(paths, bindir, inputs, exts):
    """L-meta: Model/MetaMap.v over the model's two event streams against the maps of parse and
    parse_metadata, on documents without a front matter (keys and values are plain strings)."""
    runner = common.build_runner("metamap", pc.MODEL_DEPS + ["Model/MetaMap.v"],
                                 commons=("common_n.ml", "common_zq.ml", "events_print.ml"))
    cases, meta = [], []
    for s in inputs:
        h = hx(s)
        for e in exts:
            cases.append("%s %d" % (h, e))
            meta.append((s, e))
    impl = common.run_lines(os.path.join(bindir, "c14mon"), ["L " + c for c in cases], tag="lmeta-impl")
    model = common.run_lines(runner, cases, env={"PCFG": pc.PCFG_DEBUG}, tag="lmeta-model")
    bad, compared, skipped = [], 0, 0
    for (s, e), a, b in zip(meta, impl, model):
        da, db = pc.split3(a), pc.split3(b)
        for k in ("F", "M"):
            if da.get(k) in ("fm", "panic") or db.get(k) == "fm":
                skipped += 1          # front matter needs the YAML oracle; a panic is C03's finding
                continue
            compared += 1
            if da.get(k) != db.get(k):
                bad.append((s, {"input": s, "input_hex": hx(s), "ext": e, "part": "map-" + k,
                                "impl": da.get(k, "")[:800], "model": db.get(k, "")[:800]}))
                break
    return bad, compared, skipped


def parse_summary(line):
    assert line.startswith("S "), line
    d = dict(kv.split("=", 1) for kv in line[2:].split(" "))
    return d


def run(rep, tier, seed):
    rng = random.Random(seed)
    paths = pc.prepare()
    bindir_r = common.build_harness(["c14mon"], release=True)
    bindir_d = common.build_harness(["c14mon"], release=False)
    audit = common.audit_property_file(PID)
    quick = tier == "quick"

    exts = [0, pc.EXT_ALL] + pc.SINGLETONS
    if not quick:
        exts += [pc.EXT_ALL & ~X_MODES, X_MODES | 2, X_MODES | 2050, 2794]
    maxlen = 5 if quick else 6      # the plan asked for 4 in the quick tier; 5 costs two more seconds

    # ---- monitor -----------------------------------------------------------------------
    hits = []
    # (a) exhaustive short strings, enumerated inside the harness (release build: plain parse calls)
    summ = run_enum(os.path.join(bindir_r, "c14mon"), enum_lines(maxlen, exts))
    tot = {"n": 0, "both": 0, "nonempty": 0, "panics": 0, "bad": 0}
    for l in summ:
        d = parse_summary(l)
        for k in tot:
            tot[k] += int(d[k])
        if d["first"] != "-":
            for w in d["first"].split(","):
                h, e = w.split(":")
                s = common.unhx(h)
                hits.append((s, "metadata of parse_metadata differs from metadata of parse",
                             {"input": s, "input_hex": h, "ext": int(e), "conv": "e"}))
    n_strings = sum(len(ALPHA_MON) ** k for k in range(maxlen + 1))

    # (b) listed inputs, one case per line (debug build: overflow checks and debug assertions on)
    corpus = [common.unhx(c) for c in common.load_corpus(PID)]
    fam = pc.frontmatter_family(3 if quick else 4)
    gen = generated(rng, 8000 if quick else 40000)
    hand = handwritten()
    listed = list(dict.fromkeys(corpus + hand + fam + gen))
    cases, meta = [], []
    for s in listed:
        h = hx(s)
        for e in exts:
            for c in (("e", "b") if e == pc.EXT_ALL else ("e",)):
                cases.append("%s %d %s" % (h, e, c))
                meta.append((s, e, c))
    out = common.run_lines(os.path.join(bindir_d, "c14mon"), cases, tag="mon")
    st = {"both": 0, "nonempty": 0, "fm_both": 0, "only_full": 0, "only_meta": 0, "neither": 0, "panics": 0}
    distinct = set()
    for (s, e, c), l in zip(meta, out):
        if l.startswith("P:"):
            st["panics"] += 1      # a panic is C03's finding; C14 says nothing when there is no output
            continue
        f = l.split(" ")
        full, mo, rel, fm, k = f[1] == "f1", f[2] == "m1", f[3], f[4] == "fm1", int(f[5][1:])
        if full and mo:
            st["both"] += 1
            if k:
                st["nonempty"] += 1
                distinct.add(s)
            if fm:
                st["fm_both"] += 1
            if rel != "=":
                hits.append((s, "metadata of parse_metadata differs from metadata of parse",
                             {"input": s, "input_hex": hx(s), "ext": e, "conv": c,
                              "full_map": common.unhx(f[6]) if len(f) > 6 else None,
                              "meta_map": common.unhx(f[7]) if len(f) > 7 else None}))
        elif full:
            st["only_full"] += 1
        elif mo:
            st["only_meta"] += 1
        else:
            st["neither"] += 1

    # ---- correspondence: the two event streams the theorems talk about -------------------
    cor_exts = [0, pc.EXT_ALL, X_MODES] if quick else [0, pc.EXT_ALL, X_MODES, pc.EXT_ALL & ~X_MODES, 2050]
    cor_in = list(dict.fromkeys(corpus + hand + fam + gen[:1500 if quick else 15000]
                                + list(pc.enum_strings(ALPHA, 4 if quick else 5))))
    dis, ncor, npan = pc.lev_disagreements(paths, cor_in, cor_exts, keys=("E", "M"))
    dis_m, nmap, nskip = lmeta_disagreements(paths, bindir_d, cor_in, [0, pc.EXT_ALL, X_MODES])
    dis = dis + dis_m

    common.decide(rep, PID, "L-ev (E and M projections) + parse/parse_metadata", audit, hits, dis, tier,
                  "correspondence Model/Parser.v events/meta_events <-> PullParser / into_meta_iter, and "
                  "Model/MetaMap.v over those streams <-> the maps of parse / parse_metadata on documents without "
                  "front matter; with a front matter the map is the serde_yaml oracle's answer on both sides and "
                  "only the monitor compares it")
    common.proof_coverage(rep, PID, audit, tier,
                          "lexer, block splitter, metadata-only scanner, metadata_entry, parse_block filter "
                          "(Model/Lexer.v, Model/Parser.v), the metadata part of RecipeCollector (Model/MetaMap.v); "
                          "serde_yaml is an oracle (a function from the front matter text to a map or failure)")
    rep.coverage.update({
        "evaluations": tot["n"] + len(cases) + ncor + nmap,
        "distinct_nontrivial": len(distinct),
        "rule": "monitor: all %d strings of length <= %d over the 18-symbol alphabet %r under %d extension sets "
                "(enumerated inside the harness, release build), plus %d listed inputs (hand-written config-key and "
                "block-comment placements, front-matter family of %d line combinations, %d generated recipes with "
                "injected `>>` lines, with/without front matter, LF/CRLF) under the same extension sets, bundled "
                "converter added for the full set (debug build); correspondence: E and M event streams of the model "
                "on %d inputs x %d extension sets, and the metadata maps Model/MetaMap.v computes from them on the same "
                "inputs x 3 extension sets (documents without front matter); distinct_nontrivial = listed inputs whose metadata-only map is "
                "non-empty while both parses have output"
                % (n_strings, maxlen, "".join(ALPHA_MON), len(exts), len(listed), len(fam), len(gen), len(cor_in),
                   len(cor_exts)),
        "samples": [{"input": s} for s in hand[1:3] + fam[200:202] + gen[:2]],
        "extension_sets": exts,
        "enumerated_cases": tot["n"], "enumerated_both_output": tot["both"],
        "enumerated_nonempty_map": tot["nonempty"], "enumerated_panics": tot["panics"],
        "listed_cases": len(cases), "listed_both_output": st["both"], "listed_nonempty_map": st["nonempty"],
        "listed_front_matter_both_output": st["fm_both"], "listed_only_full_output": st["only_full"],
        "listed_only_meta_output": st["only_meta"], "listed_no_output": st["neither"],
        "listed_panics": st["panics"],
        "monitor_violations": len(hits),
        "correspondence_cases": ncor + nmap, "correspondence_disagreements": len(dis), "both_sides_panic_cases": npan,
        "lev_cases": ncor, "lmeta_maps_compared": nmap, "lmeta_maps_skipped_front_matter_or_panic": nskip,
        "exhaustive": False,
    })
    rep.assumptions = [
        "serde_yaml::from_str is a deterministic function of the front matter text (both parses call it on the same text)",
        "ParseOptions::default(): no metadata validator (a validator is a caller-supplied FnMut and may be stateful)",
        "map equality is equality of the serde_json images (key order is not compared; serde_yaml::Mapping equality "
        "when a key has no JSON rendering)",
    ]


def setup():
    pc.prepare()
    common.build_runner("metamap", pc.MODEL_DEPS + ["Model/MetaMap.v"],
                        commons=("common_n.ml", "common_zq.ml", "events_print.ml"))
    common.build_harness(["c14mon"], release=True)
    common.build_harness(["c14mon"], release=False)


def replay(rp):
    r = rp["replay"]
    if "input_hex" not in r:
        print("no input to replay: " + rp.get("what", ""))
        return 1
    bindir = common.build_harness(["c14mon", "events"])
    if str(r.get("part", "")).startswith("map-"):
        paths = pc.prepare()
        dis, n, _ = lmeta_disagreements(paths, bindir, [common.unhx(r["input_hex"])], [int(r.get("ext", 0))])
        for s, d in dis:
            print("impl : " + d["impl"])
            print("model: " + d["model"])
        return 1 if dis else 0
    if r.get("part") in ("E", "M", "T"):
        # a model/implementation disagreement: show both sides
        paths = pc.prepare()
        res = pc.run_both(paths, [common.unhx(r["input_hex"])], [int(r.get("ext", 0))])
        for s, e, a, b in res:
            print("impl : " + a)
            print("model: " + b)
            return 0 if a == b else 1
    line = "%s %s %s\n" % (r["input_hex"], r.get("ext", 0), r.get("conv", "e"))
    p = subprocess.run([os.path.join(bindir, "c14mon"), "-"], input=line, text=True, stdout=subprocess.PIPE)
    o = p.stdout.strip()
    print(o)
    f = o.split(" ")
    return 1 if (len(f) > 3 and f[3] == "!") else 0
