"""C04, analysis-stage labels computed by arithmetic on the front matter text (Model/AnalysisLabels.v).

Correspondence: the private `yaml_find_key_position` (event_consumer.rs 1486-1507) is reached through the
labels of the "Unsupported value for key" and "Time overriden" warnings of CooklangParser::parse
(harness/src/bin/yamlkey.rs prints them with the front matter text and its offset); the extracted
`yaml_find_key_position` (runner/yamlkey_main.ml) must give the same positions.
Form FYamlErr (the label of a front matter serde_yaml rejects): the harness asks serde_yaml itself for the error and
its location and prints every label of the diagnostic with that message; the label must be offset + index, or the
span of the whole front matter text when the error has no location (45a4888).
Oracle hypothesis `yaml_index_ok` of C04_analysis_labels_ok: the location serde_yaml reports for a rejected
front matter is a character boundary of the text (checked on every rejected front matter seen).
Independent monitor: every position printed is a character boundary of the input.

`extra(inputs)` has the signature of the hook of checks/span_cover.run; statistics of the last call are in
LAST_STATS.  `python3 -m checks.c04_labels [quick|thorough]` runs it alone."""
import random
import sys

from vlib import common
from vlib.common import hx, unhx

DEPS = ["Base/Chars.v", "Model/PText.v", "Model/Lexer.v", "Model/Parser.v", "Model/AnalysisLabels.v"]
TIME_KEYS = ["prep time", "cook time", "time"]
LAST_STATS = {}

KEYS = ["time", "prep time", "cook time", "servings", "author", "source", "tags", "locale", "title", "é", "名前",
        "Time", "prep  time", "time ", "x"]
VALUES = ["1h", "10 min", "x y", "abc", "2", "[1, 2]", "{a: 1}", "", "1h 30m", "-5", "1e10 min", "été", "\"q\"",
          "https://e.x", "en_ES", "[", "a: b: c", "2-4", "~"]
INDENTS = ["", "", "", "  ", "\t", "\u00a0", " \u2003", "    "]
LINE_FORMS = ["%(i)s%(k)s: %(v)s", "%(i)s%(k)s: %(v)s", "%(i)s%(k)s : %(v)s", "%(i)s\"%(k)s\": %(v)s",
              "%(i)s'%(k)s': %(v)s", "%(i)s# %(k)s: %(v)s", "%(i)s%(k)s:%(v)s", "%(i)s%(k)s:\n%(i)s  %(k2)s: %(v)s",
              "%(i)s- %(k)s: %(v)s", "%(i)s? %(k)s\n%(i)s: %(v)s", "%(i)s%(k)s: |\n%(i)s  %(k2)s: %(v)s"]


def gen_doc(rng):
    lines = []
    if rng.random() < 0.65:
        # a front matter serde_yaml accepts: distinct top-level keys, sometimes after a nested map, a comment
        # or a multi-byte key, so that positions are found on later lines and nested keys are found first
        keys = rng.sample(["time", "prep time", "cook time", "servings", "author", "title"], rng.randint(2, 5))
        for k in keys:
            r = rng.random()
            if r < 0.12:
                lines.append("%s:\n  %s: 3" % (rng.choice(["nutrition", "é", "名前"]), rng.choice(TIME_KEYS)))
            elif r < 0.2:
                lines.append("# %s: 1" % rng.choice(TIME_KEYS))
            elif r < 0.26:
                lines.append("%s: 1" % rng.choice(["é", "名前", "ключ"]))
            lines.append(rng.choice(["%s: %s", "%s: %s", "%s : %s", "\"%s\": %s", "%s:   %s"]) %
                         (k, rng.choice(["1h", "10 min", "x y", "abc", "2", "1h 30m", "-5", "été", "2-4"])))
    for _ in range(rng.randint(1, 6) if not lines else 0):
        form = rng.choice(LINE_FORMS)
        k = rng.choice(KEYS if rng.random() < 0.3 else TIME_KEYS + ["servings", "time", "author"])
        lines.append(form % {"i": rng.choice(INDENTS), "k": k, "k2": rng.choice(TIME_KEYS + ["a"]),
                             "v": rng.choice(VALUES)})
    nl = rng.choice(["\n", "\n", "\n", "\r\n"])
    body = nl.join(lines)
    if rng.random() < 0.2:
        body = body.replace("\n", "\n\n", 1)
    if rng.random() < 0.06:
        # a second document: an error without a location
        k = rng.randint(0, len(lines))
        body = nl.join(lines[:k] + ["..."] + lines[k:])
    head = rng.choice(["", "", "", "\n", " \n", "\ufeff"])
    tail = rng.choice(["step @a{} ~{5%min}", "", ">> time: 2h\n>> prep time: 1h\nstep", "é\n"])
    return "%s---%s%s%s---%s%s" % (head, nl, body, nl, nl, tail)


def is_boundary(b, i):
    return 0 <= i <= len(b) and (i == len(b) or (b[i] & 0xC0) != 0x80)


def split_fields(line):
    y, _, d = line.partition(" ;; D ")
    return y.split(" "), d.split(" ")


def run_cases(docs):
    """Returns (disagreements, stats)."""
    hbin = common.build_harness(["yamlkey"], release=True)
    import os
    exe = os.path.join(hbin, "yamlkey")
    runner = common.build_runner("yamlkey", DEPS, commons=("common_n.ml",))
    outs = common.run_lines(exe, [hx(s) for s in docs], tag="impl-yamlkey")
    st = {"documents": len(docs), "with_front_matter": 0, "unsupported_value_labels": 0, "time_overriden_warnings": 0,
          "yaml_errors_with_location": 0, "yaml_error_labels_compared": 0, "yaml_errors_without_location": 0,
          "key_positions_compared": 0, "positions_found": 0, "positions_not_found": 0,
          "parse_panics": 0, "samples": []}
    dis = []
    asks = []     # (doc index, kind, key, labels)
    parsed = []
    for i, line in enumerate(outs):
        if line.strip() == "P":
            st["parse_panics"] += 1
            parsed.append(None)
            continue
        y, d = split_fields(line)
        if y[1] == "-":
            parsed.append(None)
            continue
        st["with_front_matter"] += 1
        off, yhex = int(y[1]), y[2]
        parsed.append((off, yhex))
        n = int(d[0])
        j = 1
        inb = docs[i].encode("utf-8")
        for _ in range(n):
            kind = d[j]
            if kind == "F":
                # the label of a front matter serde_yaml rejects, against serde_yaml's own location (form FYamlErr
                # of Model/AnalysisLabels.v: offset + index, or the span of the whole text without a location)
                idx, k = d[j + 1], int(d[j + 2])
                got = [(int(d[j + 3 + 2 * m]), int(d[j + 4 + 2 * m])) for m in range(k)]
                j += 3 + 2 * k
                ylen = len(bytes.fromhex(yhex[1:]))
                want = [(off, off + ylen)] if idx == "-" else [(off + int(idx), off + int(idx))]
                st["yaml_error_labels_compared"] += 1
                st["yaml_errors_without_location"] += idx == "-"
                if got != want:
                    dis.append((docs[i], {"input": docs[i], "input_hex": hx(docs[i]),
                                          "what": "front matter error label: the model's form FYamlErr and the "
                                                  "implementation disagree", "serde_yaml_index": idx,
                                          "impl_labels": got, "model_labels": want, "yaml_off": off}))
                elif idx == "-" and len(st["samples"]) < 4 and not any(x.get("kind") == "F" for x in st["samples"]):
                    st["samples"].append({"input": docs[i], "kind": "F", "labels": got})
                continue
            if kind == "U":
                key, k = d[j + 1], int(d[j + 2])
                labels = d[j + 3:j + 3 + k]
                j += 3 + k
            else:
                key, k = None, int(d[j + 1])
                labels = d[j + 2:j + 2 + k]
                j += 2 + k
            for l in labels:
                if l == "!" or not is_boundary(inb, int(l)):
                    dis.append((docs[i], {"input": docs[i], "input_hex": hx(docs[i]),
                                          "what": "monitor: an analysis label computed from the front matter is not a "
                                                  "position on a character boundary of the input", "label": l,
                                          "line": line[:400]}))
            if kind == "U":
                st["unsupported_value_labels"] += 1
                asks.append((i, "U", [key], labels))
            elif kind == "T":
                st["time_overriden_warnings"] += 1
                asks.append((i, "T", [hx(k_) for k_ in TIME_KEYS], labels))
            else:
                st["yaml_errors_with_location"] += 1
                yb = bytes.fromhex(yhex[1:])
                for l in labels:
                    if l != "!" and not is_boundary(yb, int(l) - off):
                        dis.append((docs[i], {"input": docs[i], "input_hex": hx(docs[i]),
                                              "what": "oracle hypothesis yaml_index_ok fails: serde_yaml's error index is "
                                                      "not a character boundary of the front matter text",
                                              "index": int(l) - off, "yaml_hex": yhex}))
    mlines = []
    for (i, kind, keys, labels) in asks:
        for k in keys:
            mlines.append("%s %s" % (parsed[i][1], k))
    mout = common.run_lines(runner, mlines, tag="model-yamlkey") if mlines else []
    p = 0
    for (i, kind, keys, labels) in asks:
        off = parsed[i][0]
        res = mout[p:p + len(keys)]
        p += len(keys)
        st["key_positions_compared"] += len(keys)
        found = [off + int(r) for r in res if r not in ("N", "panic")]
        st["positions_found"] += len(found)
        st["positions_not_found"] += len(res) - len(found)
        got = [int(l) for l in labels if l != "!"]
        ok = "panic" not in res
        if kind == "U":
            ok = ok and got == found
        else:
            # labels of prep time / cook time are present only when the map has the key; the one of `time`
            # whenever the text search finds it: a subsequence of the found positions, ending with time's
            it = iter(found)
            ok = ok and all(any(g == f for f in it) for g in got)
            if res[2] not in ("N", "panic"):
                ok = ok and bool(got) and got[-1] == off + int(res[2])
        if not ok:
            dis.append((docs[i], {"input": docs[i], "input_hex": hx(docs[i]),
                                  "what": "yaml_find_key_position: model and implementation disagree",
                                  "kind": kind, "keys": [unhx(k) for k in keys], "impl_labels": labels,
                                  "model": res, "yaml_off": off}))
        elif len(st["samples"]) < 3 and got:
            st["samples"].append({"input": docs[i], "kind": kind, "labels": got})
    return dis, st


SPECIALS = [
    "---\ntime: 1h\nprep time: 10 min\ncook time: 5 min\n---\nstep",
    "---\nservings: abc\ntime: x y\n---\nstep",
    "---\na: [\n---\nstep",
    "---\né: 1\n  time : 2h\nprep time: 1\n---\n",
    "---\nnutrition:\n  time: 3\ntime: 1h\nprep time: 2 min\n---\n",
    "---\n\u00a0time: x y\n---\n",
    "---\n\"time\": x y\nprep time: 1\n---\n",
    "---\r\ntime: 1h\r\ncook time: 5 min\r\n---\r\nx",
    "---\n名前: 1\ntime: bad value\n---\n",
    "---\ntime: 1h\ntime: 2h\n---\n",
    # serde_yaml gives no location for "more than one document": the label is the whole front matter (45a4888)
    "---\na: 1\n...\nb: 2\n---\nstep",
    "---\né: 1\n...\n名: 2\n---\n@é{}",
    "\ufeff---\na: 1\n...\n---\n",
]


def extra(inputs, n_gen=None, seed=7):
    global LAST_STATS
    rng = random.Random(seed)
    n = 3000 if n_gen is None else n_gen
    docs = list(SPECIALS) + [s for s in inputs if s.lstrip("\ufeff \n").startswith("---")][:2000]
    docs += [gen_doc(rng) for _ in range(n)]
    docs = list(dict.fromkeys(docs))
    dis, st = run_cases(docs)
    st["disagreements"] = len(dis)
    LAST_STATS = st
    return dis


if __name__ == "__main__":
    tier = sys.argv[1] if len(sys.argv) > 1 else "quick"
    d = extra([], n_gen=3000 if tier == "quick" else 60000)
    print(LAST_STATS)
    for x in d[:5]:
        print(x)
    sys.exit(1 if d else 0)
