"""C02 - core-syntax recipes parse identically under every extension subset; with an extension
off its syntax reads as core text.

Monitor (the property itself, on the implementation, harness bin `c02`):
  (a) every generated core recipe and every `core` string of the exhaustive enumeration gives ONE
      serialised result (recipe JSON + validity + diagnostics as severity/stage/labels) under all
      192 extension sets; generated recipes are also error-free;
  (b) for each of the 8 one-extension families, under every set lacking the extension: one result,
      no error, and it is the core reading computed by the generator (checks/c02_gen.py).
Correspondence: L-lex/L-ev of Model/Lexer.v + Model/Parser.v under all 192 sets (each input under
a rotating sample of 8).  Theorems: coq/Properties/C02.v.

Every run REGENERATES coq/Gen/GateSites.v from the non-test code of /repo/src/**/*.rs (gen/gen_gates.py): the
inventory of the places where an Extensions value is consulted, handed on, declared or constructed, pinned by
C02_gate_inventory at the level of KEYS (which fn consults which flag; which fn / item carries the set; the
constants with their values) and mapped key by key to the gates of the models (Model/GateMap.v,
C02_gate_inventory_mapped, C02_gate_table_checks).  A flag consulted in a fn that did not consult it, a gate
that disappears or a changed constant breaks the obligations and is reported with its location; rewriting a
test inside its fn (early return, match, flag read into a local) or moving code does not."""
import itertools
import json
import os
import random
import re
import subprocess
from collections import Counter

from vlib import common
from vlib.common import hx, unhx
from checks import parser_common as pc
from checks import c02_gen as cg

import grec  # noqa: E402  (path set by c02_gen)
import gen_gates  # noqa: E402  (gen/ is on the path: c02_gen)

PID = "C02"
ALPHA = ["a", "1", " ", "\n", "@", "~", "{", "}", "%", "(", ")", ":", ">", "=", ".", "/"]
FLAGS = ["COMPONENT_MODIFIERS", "COMPONENT_ALIAS", "ADVANCED_UNITS", "MODES", "INLINE_QUANTITIES",
         "RANGE_VALUES", "TIMER_REQUIRES_TIME", "INTERMEDIATE_PREPARATIONS"]


def has(e, x):
    return e & x == x


def ext_sets(env):
    """all distinct unions of the eight flags, from the bit values read out of src/lib.rs"""
    out = set()
    for r in range(len(FLAGS) + 1):
        for c in itertools.combinations(FLAGS, r):
            v = 0
            for n in c:
                v |= env[n]
            out.add(v)
    return sorted(out)


IMPLIES = {"INTERMEDIATE_PREPARATIONS": ["COMPONENT_MODIFIERS"]}   # documented in extensions.md / src/lib.rs


def named_sets(env):
    """every choice of extensions BY NAME (closed under the one documented implication) with the bit word the
    implementation gives it.  'A set lacking X' is a choice that does not name X: if a flag's bit value silently
    pulled in another extension, judging by bits would skip exactly the affected sets."""
    out = []
    for r in range(len(FLAGS) + 1):
        for c in itertools.combinations(FLAGS, r):
            names = set(c)
            for n in c:
                names.update(IMPLIES.get(n, []))
            v = 0
            for n in c:
                v |= env[n]
            out.append((frozenset(names), v))
    return out


def make_groups(env, sets):
    ns = named_sets(env)

    def lacking(*flags, having=()):
        return sorted({v for names, v in ns if not any(f in names for f in flags) and all(h in names for h in having)})

    g = {"all": sets, "noadv": lacking("ADVANCED_UNITS")}
    for fam in cg.FAMILIES:
        x = env[cg.FAMILY_FLAG[fam]]
        if fam == "intermediate":
            g["lack_intermediate_noM"] = lacking("COMPONENT_MODIFIERS")
            g["lack_intermediate_M"] = lacking(cg.FAMILY_FLAG[fam], having=("COMPONENT_MODIFIERS",))
        else:
            g["lack_" + fam] = lacking(cg.FAMILY_FLAG[fam])
        g["pair_" + fam] = [0, x]
    return g


def groups_env(groups):
    return {"C02_GROUPS": ";".join("%s=%s" % (k, ",".join(map(str, v))) for k, v in groups.items())}


def run_c02(exe, lines, groups, tag="c02"):
    out = common.run_lines(exe, lines, env=groups_env(groups), tag=tag)
    return [json.loads(l) for l in out]


def unit_keys(exe):
    p = subprocess.run([exe, "-"], input="U b\n", text=True, stdout=subprocess.PIPE, check=True)
    u = json.loads(p.stdout.splitlines()[0])
    return frozenset(k for k, _ in u), frozenset(k for k, t in u if t)


# ------------------------------------------------------------------------------------------
# shrinking of a difference over (input, pair of sets)

def bit_path(e1, e2):
    """sets from e1 to e2 changing one bit at a time; bits are added in ascending and removed in
    descending order, so INTERMEDIATE's own bit is present only together with the MODIFIERS bit"""
    path = [e1]
    cur = e1
    add = [1 << i for i in range(32) if (e2 >> i) & 1 and not (e1 >> i) & 1]
    rem = [1 << i for i in reversed(range(32)) if (e1 >> i) & 1 and not (e2 >> i) & 1]
    for b in add:
        cur |= b
        path.append(cur)
    for b in rem:
        cur &= ~b
        path.append(cur)
    return path


def differs(exe, texts, conv, pair):
    lines = ["%s %s %d,%d s" % (hx(t), conv, pair[0], pair[1]) for t in texts]
    return [r["k"] > 1 for r in run_c02(exe, lines, {}, tag="shrink")]


def shrink(exe, text, conv, e1, e2, keep):
    """returns (text', (a, b)) with a, b one bit apart, text' locally minimal among strings that
    satisfy `keep` and still parse differently under a and b"""
    path = bit_path(e1, e2)
    pair = (e1, e2)
    if len(path) > 2:
        adj = list(zip(path, path[1:]))
        lines = ["%s %s %d,%d s" % (hx(text), conv, a, b) for a, b in adj]
        for (a, b), r in zip(adj, run_c02(exe, lines, {}, tag="shrink")):
            if r["k"] > 1:
                pair = (a, b)
                break
    cur = text
    for _ in range(60):
        n = len(cur)
        cands = []
        size = max(1, n // 2)
        while size >= 1:
            for i in range(0, n, size):
                c = cur[:i] + cur[i + size:]
                if c and c != cur and keep(c):
                    cands.append(c)
            if size == 1:
                break
            size //= 2
        cands = list(dict.fromkeys(cands))[:3000]
        if not cands:
            break
        res = differs(exe, cands, conv, pair)
        nxt = next((c for c, d in zip(cands, res) if d), None)
        if nxt is None:
            break
        cur = nxt
    return cur, pair


# ------------------------------------------------------------------------------------------

def gen_core(rng, n):
    out = []
    for _ in range(n):
        g = cg.CoreGen(rng)
        out.append(g.recipe())
    return out


def gen_family(rng, fam, n):
    out = []
    tries = 0
    while len(out) < n and tries < 20 * n:
        tries += 1
        g = cg.FamGen(rng, fam)
        t, e, info = g.recipe()
        if info["used"] > 0:
            out.append((t, e, info))
    return out, tries


_CONSTRUCTS = {
    "front_matter_plus_plain_meta_line_in_body": re.compile(r"\A---\n.*?\n---\n.*^>>", re.S | re.M),
    "number_led_text_value_with_percent_unit": re.compile(r"\{[^}%]*\d\s+[^\W\d][^}%]*%[^}]*\}"),
    "number_dash_word_text_value": re.compile(r"\{[^}]*\d-[^\W\d][^}]*\}"),
    "path_style_name": re.compile(r"@\.\.?[/\\]"),
    "unitless_quantity": re.compile(r"\{[^}%]*[^}%\s][^}%]*\}"),
    "fraction_or_mixed_number": re.compile(r"\{[^}]*\d\s*/\s*\d[^}]*\}"),
    "scaling_lock": re.compile(r"\{\s*="),
    "cookware_quantity": re.compile(r"#[^@#~{\n]*\{[^}]*[^}\s][^}]*\}"),
    "timer": re.compile(r"~[^@#~{\n]*\{"),
    "note_after_component": re.compile(r"[}\w]\([^)\n]+\)"),
    "single_word_component_then_punctuation": re.compile(r"[@#]\w+[,.;]"),
    "escaped_character": re.compile(r"\\."),
    "line_comment": re.compile(r"--"),
    "block_comment": re.compile(r"\[-"),
    "section_header": re.compile(r"^=", re.M),
    "text_block": re.compile(r"^>(?!>)", re.M),
    "old_style_metadata_line": re.compile(r"\A(?!---\n).*^>>", re.S | re.M),
    "yaml_front_matter": re.compile(r"\A---\n"),
    "name_with_digit_or_punctuation": re.compile(r"@[^@#~{\n]*[\d.&-][^@#~{\n]*\{"),
}


def construct_counts(texts):
    """how many of the generated core recipes contain each core construct (measured on the text)"""
    return {k: sum(1 for t in texts if rx.search(t)) for k, rx in _CONSTRUCTS.items()}


def canon_of(r, which="first"):
    return json.loads(r[which][1])


def gate_inventory():
    """regenerate Gen/GateSites.v and compare with the list in the statement of C02_gate_inventory;
    -> (stats for the evidence, None or (what, replay dict))"""
    inv = gen_gates.regenerate()
    expected = gen_gates.expected_keys()
    new, gone = gen_gates.diff(inv["items"], expected)
    items = inv["items"]
    gates = [it for it in items if it["kind"] in ("E", "L", "U") and any(not f.endswith("()") for f in it["flags"])]
    keys = gen_gates.keys_of(items)
    st = {"pinned_keys": len(keys), "pinned_keys_by_class": dict(sorted(Counter(k[0] for k in keys).items())),
          "pinned": "gate = (file, fn, flag): the fn consults the flag; carry = (file, fn): declares / stores / hands on / "
                    "constructs a set without testing a flag; const = the bitflags! definitions with their values",
          "sites": len(items), "expected": None if expected is None else len(expected),
          "file_rewritten": inv["changed"], "new": new, "gone": gone,
          "by_kind": dict(sorted(Counter(it["kind"] for it in items).items())),
          "kinds": "B bitflags! definition, D declaration, E expression, L let bound to a test, U use of such a "
                   "variable, A call argument, S struct literal field",
          "flag_tests": len(gates),
          "flag_tests_by_flag": dict(sorted(Counter(f for it in gates for f in it["flags"] if not f.endswith("()")).items())),
          "samples": ["src/%s.rs:%d %s [%s]: %s" % (it["file"], it["line"], it["fn"], ",".join(it["flags"]), it["text"][:160])
                      for it in (gates[:2] + items[:1])]}
    if expected is not None and not new and not gone:
        return st, None
    if expected is None:
        what = "Properties/C02.v has no theorem C02_gate_inventory"
    else:
        what = ("the functions of %s that consult an extension flag (or carry / define the set) differ from the keys "
                "of C02_gate_inventory (a gate the gate lemmas of C02 do not know, or a gate that reads another flag):\n"
                % os.path.join(common.REPO, "src")
                + "".join("  + in the source, not in the theorem: %s\n" % x for x in new)
                + "".join("  - in the theorem, not in the source: %s\n" % x for x in gone)).rstrip("\n")
    return st, (what, {"kind": "gate-inventory", "new": new, "gone": gone,
                       "unchecked": "rendering of every extension gate of src/**/*.rs by a gate of Model/Parser.v / "
                                    "Model/Analysis.v (Model/GateMap.v table) <-> the source"})


def run(rep, tier, seed):
    rng = random.Random(seed)
    inv_stats, inv_change = gate_inventory()
    paths = pc.prepare()
    env = paths["gen"]["ext"]
    sets = ext_sets(env)
    groups = make_groups(env, sets)
    audit = common.audit_property_file(PID)
    exe_d = os.path.join(common.build_harness(["c02"]), "c02")
    exe_r = os.path.join(common.build_harness(["c02"], release=True), "c02")
    units, time_units = unit_keys(exe_d)
    hits = []
    excluded = Counter()
    parses = 0

    def is_core(s):
        return cg.core_reason(s, units, time_units) is None

    def disagreement(text, conv, r, what, keep, extra=None):
        e1, e2 = r["first"][0], r["other"][0]
        small, pair = shrink(exe_r, text, conv, e1, e2, keep)
        rp = {"kind": "disagree", "input": small, "input_hex": hx(small), "conv": conv, "sets": list(pair),
              "original_input": text, "original_sets": [e1, e2], "classes": r["classes"]}
        if extra:
            rp.update(extra)
        hits.append((small, "%s: sets %d and %d give different results" % (what, pair[0], pair[1]), rp))

    # ---------------- (a) generated core recipes ----------------
    n_core = 400 if tier == "quick" else 6000
    core = gen_core(rng, n_core)
    core_ok = []
    for t, e, info in core:
        why = cg.core_reason(t, units, time_units)
        if why is None:
            core_ok.append((t, e, info))
        else:
            excluded["generated recipe: " + why] += 1
    lines = [hx(t) + " b all f" for t, _, _ in core_ok]
    lines += ["%s e %s s" % (hx(t), "noadv" if info["timers"] else "all") for t, _, info in core_ok]
    res = run_c02(exe_d, lines, groups, tag="core")
    n = len(core_ok)
    reading_mismatch = []
    with_timers = 0
    for i, (t, e, info) in enumerate(core_ok):
        with_timers += 1 if info["timers"] else 0
        for conv, r in (("b", res[i]), ("e", res[n + i])):
            parses += r["n"]
            if r["k"] > 1:
                disagreement(t, conv, r, "core recipe", is_core)
            elif r["err"] or r["panic"]:
                c = canon_of(r) if r["first"] else None
                hits.append((t, "core recipe is not error-free (converter %s)" % conv,
                             {"kind": "error", "input": t, "input_hex": hx(t), "conv": conv,
                              "sets": groups["noadv" if (conv == "e" and info["timers"]) else "all"][:1],
                              "diags": c["diags"] if c else None, "panic_sets": r["panic"]}))
        if res[i]["k"] == 1 and res[i]["first"]:
            d = grec.first_diff(grec.project(canon_of(res[i])["recipe"]), e)
            if d:
                reading_mismatch.append({"input": t, "diff": d})

    # ---------------- (b) the eight families ----------------
    n_fam = 100 if tier == "quick" else 500
    fam_stats = {}
    fam_inputs = []
    for fam in cg.FAMILIES:
        cases, tries = gen_family(rng, fam, n_fam)
        fam_inputs += [t for t, _, _ in cases]
        if fam == "intermediate":
            plan = [("lack_intermediate_noM", lambda e, info: e),
                    ("lack_intermediate_M", lambda e, info: cg.with_modifiers_reading(e, info["inter_refs"]))]
        else:
            plan = [("lack_" + fam, lambda e, info: e)]
        lines = []
        for gname, _ in plan:
            lines += ["%s b %s f" % (hx(t), gname) for t, _, _ in cases]
        lines += ["%s b pair_%s s" % (hx(t), fam) for t, _, _ in cases]
        res = run_c02(exe_d, lines, groups, tag="fam")
        m = len(cases)
        reinterpreted = sum(1 for r in res[len(plan) * m:] if r["k"] > 1)
        bad = 0
        for gi, (gname, reading) in enumerate(plan):
            for (t, e, info), r in zip(cases, res[gi * m:(gi + 1) * m]):
                parses += r["n"]
                if r["k"] > 1:
                    bad += 1
                    # a shrunk input must still use the family's syntax and nothing else non-core:
                    # keep the reason of the original
                    why = cg.core_reason(t, units, time_units)
                    disagreement(t, "b", r, "family %s, sets lacking the extension (%s)" % (fam, gname),
                                 lambda s, why=why: cg.core_reason(s, units, time_units) in (None, why),
                                 {"family": fam, "group": gname})
                    continue
                c = canon_of(r)
                d = grec.first_diff(grec.project(c["recipe"]), reading(e, info)) if c["recipe"] else "no recipe"
                if d or r["err"] or r["panic"]:
                    bad += 1
                    hits.append((t, "family %s with the extension off does not read as core text: %s"
                                 % (fam, d or "error reported"),
                                 {"kind": "reading", "input": t, "input_hex": hx(t), "conv": "b", "family": fam,
                                  "group": gname, "sets": groups[gname], "diff": d, "diags": c["diags"],
                                  "expected": reading(e, info)}))
        fam_stats[fam] = {"recipes": m, "generated_to_get_them": tries,
                          "sets_lacking": {g: len(groups[g]) for g, _ in plan},
                          "reinterpreted_when_only_that_extension_is_on": reinterpreted, "failures": bad}

    # ---------------- exhaustive short strings ----------------
    maxlen = 4 if tier == "quick" else 5
    corpus = [unhx(c) for c in common.load_corpus(PID)]
    strings = []
    n_enum = 0
    for s in itertools.chain(corpus, pc.enum_strings(ALPHA, maxlen)):
        n_enum += 1
        why = cg.core_reason(s, units, time_units)
        if why is None:
            strings.append(s)
        else:
            excluded["string: " + why] += 1
    strings = list(dict.fromkeys(strings))
    res = run_c02(exe_r, [hx(s) + " b all s" for s in strings], groups, tag="enum")
    string_errs = 0
    for s, r in zip(strings, res):
        parses += r["n"]
        if r["err"]:
            string_errs += 1
        if r["k"] > 1 or r["panic"]:
            if r["k"] > 1:
                disagreement(s, "b", r, "core string", is_core)
            else:
                hits.append((s, "panic", {"kind": "error", "input": s, "input_hex": hx(s), "conv": "b",
                                          "sets": r["panic"][:1], "panic_sets": r["panic"]}))

    # ---------------- correspondence L-lex / L-ev under all sets, 8 per input ----------------
    order = sets[:]
    random.Random(seed * 7919 + 1).shuffle(order)
    chunks = [order[i:i + 8] for i in range(0, len(order), 8)]
    # thorough: every string up to length 4 and every 8th longer one (the model is the budget)
    lev_strings = strings if tier == "quick" else \
        [s for s in strings if len(s) <= 4] + [s for s in strings if len(s) > 4][::8]
    lev_inputs = [t for t, _, _ in core_ok] + fam_inputs + lev_strings
    dis = []
    lev_cases = 0
    by_chunk = [[] for _ in chunks]
    for i, s in enumerate(lev_inputs):
        by_chunk[(i + seed) % len(chunks)].append(s)
    for ch, inp in zip(chunks, by_chunk):
        if not inp:
            continue
        d, nc, _ = pc.lev_disagreements(paths, inp, ch)
        dis += d
        lev_cases += nc

    common.decide(rep, PID, "L-rec under all extension sets (monitor) + L-lex/L-ev (correspondence)", audit,
                  hits, dis, tier,
                  "correspondence Model/Lexer.v, Model/Parser.v <-> src/lexer, src/parser under all %d sets; the "
                  "analysis pass (INLINE_QUANTITIES, MODES and ADVANCED_UNITS checks of event_consumer.rs) is "
                  "covered by the monitor only" % len(sets))
    if inv_change is not None and not hits:
        common.log("  " + inv_change[0])
        rep.violation(inv_change[0], inv_change[1], found_input=False)
    if len(sets) != 192:
        rep.violation("the eight flags of src/lib.rs give %d distinct sets, not 192" % len(sets),
                      {"sets": sets, "bits": {k: env[k] for k in FLAGS}}, found_input=False)
    common.proof_coverage(rep, PID, audit, tier,
                          "the extension gates of the pull parser (Model/Parser.v: step.rs, quantity.rs, mod.rs) and of "
                          "the analysis pass (Model/Analysis.v: in_step, metadata, timer). Proved over the models: "
                          "C02_full (for every source whose blocks are all block_ok, any two of the 192 sets give the same "
                          "event stream and the same analysis result, given only the converter-dependent hypothesis "
                          "oracle_quiet); the converse readings for ANY source and any extension word lacking the flag, for all "
                          "eight families (C02_alias/range/modifiers/intermediate/advanced/modes/timer_time_off_document and "
                          "C02_diag_codes_document on the parser model; C02_inline_off_analysis/_no_inline, "
                          "C02_advanced_off_analysis, C02_modes_off_analysis on the analysis model for any event stream); "
                          "C02_core_no_errors_partial (a text spelling a printer specification that is well formed under each of "
                          "the 192 sets parses under each of them without panic and without any diagnostic) and "
                          "C02_no_errors_transport. Not proved, monitored on the implementation only: the absence of errors for "
                          "core_doc sources that come without such a specification (front matter, free layout)")
    distinct = set(t for t, _, _ in core_ok) | set(fam_inputs) | set(s for s in strings if any(c in s for c in "@~>="))
    rep.coverage.update({
        "evaluations": parses + lev_cases,
        "distinct_nontrivial": len(distinct),
        "rule": "(a) %d generated core recipes (gen/grec.py canonical profile + checks/c02_gen.py: timers always number%%time-unit, "
                "near-miss text such as '2 eggs', 'a | b', '[sic]', '50%% done', '>> src[1]: ..') each parsed under all %d sets with the "
                "bundled converter and under all sets (without ADVANCED_UNITS when the recipe has timers) with the empty "
                "converter; (b) 8 families x %d recipes that use exactly one extension's syntax, parsed under every set lacking "
                "that extension and compared with the core reading computed by the generator; exhaustive strings of length <= %d "
                "over the 16 symbols %s restricted by the decidable predicate core_reason (checks/c02_gen.py) under all %d sets; "
                "distinct_nontrivial = distinct generated recipes + distinct core strings containing one of @ ~ > ="
                % (len(core_ok), len(sets), n_fam, maxlen, json.dumps("".join(ALPHA)), len(sets)),
        "samples": [{"core_recipe": core_ok[0][0]}, {"core_recipe": core_ok[-1][0]},
                    {"family_recipe": fam_inputs[0]}, {"family_recipe": fam_inputs[-1]},
                    {"core_string": strings[len(strings) // 2]}, {"core_string": strings[-1]}],
        "extension_sets": len(sets), "parses": parses,
        "core_recipes": len(core_ok), "core_recipes_with_timers": with_timers,
        "core_recipes_x_sets_bundled": len(core_ok) * len(sets),
        "core_recipes_x_sets_empty_converter": sum(len(groups["noadv"]) if info["timers"] else len(sets)
                                                   for _, _, info in core_ok),
        "core_constructs": construct_counts([t for t, _, _ in core_ok]),
        "core_reading_mismatches_vs_generator": len(reading_mismatch),
        "core_reading_mismatch_samples": reading_mismatch[:3],
        "families": fam_stats,
        "strings_enumerated": n_enum, "strings_core": len(strings),
        "strings_core_with_error_diagnostics_identical_under_all_sets": string_errs,
        "excluded_as_non_core": dict(excluded),
        "exclusion_note": "excluded = the statement's exclusion list as the code draws it: a marker followed by one of @&?+-; "
                          "`|` between a marker and the next `{`; braces without `%` holding digit-blank-nonblank; a `-` "
                          "between digits inside braces; a `>>` key in brackets; a digit run whose glued suffix or next word is "
                          "a unit the bundled converter knows; a `~` that starts a timer whose braces do not hold "
                          "number%known-time-unit (no time unit can be spelled in the enumeration alphabet)",
        "monitor_violations": len(hits),
        "correspondence_cases": lev_cases, "correspondence_disagreements": len(dis),
        "correspondence_sets_covered": len(set(e for ch, inp in zip(chunks, by_chunk) if inp for e in ch)),
        "exhaustive": False,
        "gate_inventory": inv_stats,
    })
    if reading_mismatch:
        common.log("C02: %d core recipes read differently from the generator's expectation (same under all sets; "
                   "not a C02 failure): %s" % (len(reading_mismatch), reading_mismatch[0]))
    rep.assumptions = [
        "the recipe is observed through serde_json (object keys sorted), is_valid/has_output and the report's "
        "(severity, stage, label spans); message wording is not compared",
        "generated recipes are run on the debug build, the string enumeration on the release build",
        "the 192 sets are computed in Python from the bit values parsed out of src/lib.rs and, independently, in Coq "
        "(C02_subsets_192 over the regenerated Gen/ExtBits.v)",
        "the inventory of extension gates is a token-level scan of the non-test code of src/**/*.rs (identifiers Extensions / "
        "extensions / extension, Self inside the bitflags! block and impl Extensions; operand around each mention, call "
        "argument, struct literal field, let binder and the statements using the bound variable - one step, no data flow): a "
        "set copied into a differently named variable is pinned at the copy, not at its later uses; which model gate "
        "renders an entry (Model/GateMap.v) is read off the source by hand",
    ]


def setup():
    gen_gates.regenerate()
    pc.prepare()
    common.build_harness(["c02"])
    common.build_harness(["c02"], release=True)
    common.build_coq(["Properties/C02.vo"])


def replay(rp):
    r = rp["replay"]
    if "input_hex" not in r:
        # a broken obligation / a changed gate inventory without a failing input: rebuild the obligations
        st, change = gate_inventory()
        audit = common.audit_property_file(PID)
        print("gate inventory: %d sites, new %s, gone %s" % (st["sites"], st["new"], st["gone"]))
        print("obligations: %d/%d %s" % (audit["discharged"], audit["obligations"], "; ".join(audit["failed"])))
        print("what was reported: %s" % rp.get("what"))
        return 0 if audit["ok"] and change is None else 1
    exe = os.path.join(common.build_harness(["c02"]), "c02")
    line = "%s %s %s f\n" % (r["input_hex"], r.get("conv", "b"), ",".join(str(e) for e in r["sets"]))
    p = subprocess.run([exe, "-"], input=line, text=True, stdout=subprocess.PIPE)
    o = json.loads(p.stdout.strip())
    print(json.dumps({k: o[k] for k in ("n", "k", "panic", "err", "classes")}))
    bad = o["k"] > 1 or bool(o["panic"])
    kind = r.get("kind")
    if kind == "error":
        bad = bad or o["err"]
    if kind == "reading" and o["first"]:
        c = json.loads(o["first"][1])
        d = grec.first_diff(grec.project(c["recipe"]), r["expected"]) if c["recipe"] else "no recipe"
        print("diff:", d)
        bad = bad or bool(d) or o["err"]
    return 1 if bad else 0
