"""C03 - no input makes a public entry point panic, overflow or hang.

Every run REGENERATES coq/Gen/PanicSites.v from /repo/src (gen/gen_panics.py): the inventory of the potential
panic sites of the parse path.  Pinned by the obligation C03_panic_inventory is [panic_keys]: per (file, fn) the
number of panic!/unreachable!/assert*!/debug_assert*! invocations by macro name, of .unwrap() / .expect(..) and of
std calls that panic on a bad argument by callee, without expression text; keyed to the table of Model/PanicMap.v
(C03_panic_table_covers, C03_table_sites_exist, C03_model_sites_accounted).  A strong site that is added or
removed breaks the obligations (the build of Properties/C03.vo fails) and is reported with file, fn and the sites
of the group; moving code, comments, message wording and rewritten expressions do not.  Index expressions and
integer arithmetic are listed for information only ([sites]) and not pinned."""
import os
import random
import sys

from vlib import common
from vlib.common import hx
from checks import parser_common as pc

sys.path.insert(0, os.path.join(common.VERIF, "gen"))
import gen_panics  # noqa: E402

PID = "C03"


def inventory():
    """regenerate Gen/PanicSites.v; -> (stats, disagreements in the format of common.decide)"""
    inv = gen_panics.regenerate()
    expected = gen_panics.expected_keys()
    new, gone = gen_panics.diff(inv["items"], expected)
    keys = gen_panics.panic_keys(inv["items"])
    st = {"sites": len(inv["items"]), "pinned_groups": len(keys), "pinned_sites": sum(k[3] for k in keys),
          "expected": None if expected is None else len(expected),
          "file_rewritten": inv["changed"], "new": new, "gone": gone,
          "by_kind": {k: sum(1 for it in inv["items"] if it["kind"] == k) for k in gen_panics.KINDS},
          "model_sites": len(gen_panics.model_sites()),
          "samples": ["src/%s.rs:%d fn %s: %s %s" % (it["file"], it["line"], it["fn"], it["kind"], it["text"])
                      for it in inv["items"][:3]]}
    dis = []
    if expected is None or new or gone:
        what = ("the panic-site inventory of %s differs from the list of C03_panic_inventory: new [%s]; gone [%s]"
                % (os.path.join(common.REPO, "src"), "; ".join(new), "; ".join(gone))) if expected is not None else \
            "Properties/C03.v has no theorem C03_panic_inventory"
        dis.append(("panic-site inventory: +%d -%d" % (len(new), len(gone)),
                    {"what": what, "new": new, "gone": gone, "impl": "-", "part": "inventory", "build": "-",
                     "unchecked": "the models' panic sites (Model/PanicMap.v panic_table) <-> the panic sites of "
                                  "src/lexer, src/parser, src/analysis, src/text.rs, src/span.rs, src/error.rs"}))
        common.log("  " + what)
    return st, dis


def inputs_for(tier, rng):
    full = pc.SIGMA_CORE + pc.SIGMA_MORE
    if tier == "quick":
        ex = list(pc.enum_strings(pc.SIGMA_CORE, 4)) + list(pc.enum_strings(full, 3))
        nrand, ngrec = 20000, 1500
    else:
        ex = list(pc.enum_strings(pc.SIGMA_CORE, 5)) + list(pc.enum_strings(full, 3))
        nrand, ngrec = 300000, 20000
    rnd = ["".join(rng.choice(full) for _ in range(rng.randint(4, 16))) for _ in range(nrand)]
    g = [t for t, _, _, _ in pc.grec_texts(rng, ngrec)]
    bad = [pc.mutate(t, rng) for t in g]
    special = [">> time: 99999999h", ">> time: 71582788h16m", ">> prep time: 4294967295\n>> cook time: 1",
               "---\ntime: -5\n---\n", "---\ntime: 1e10\n---\n", ">> servings: 4294967296", "@a{99999999999999999999/1}",
               "@a{1%" + "9" * 400 + "}", "@a{" + "9" * 400 + "}", "~{1%h}" * 50]
    corpus = [common.unhx(c) for c in common.load_corpus(PID)]
    return list(dict.fromkeys(corpus + special + ex + pc.fm_placements() + pc.edge_families() + rnd + g + bad)), len(ex)


def run(rep, tier, seed):
    rng = random.Random(seed)
    inv_stats, inv_dis = inventory()
    paths = pc.prepare(need_release=True)
    audit = common.audit_property_file(PID)
    inputs, n_ex = inputs_for(tier, rng)
    exts = [0, pc.EXT_ALL] + (pc.SINGLETONS if tier == "thorough" else [2050, 32])
    dis, ncases, npan = pc.lev_disagreements(paths, inputs, exts)
    dis_r, ncases_r, npan_r = pc.lev_disagreements(paths, inputs, [0, pc.EXT_ALL], release=True)
    mon = pc.run_pmon(paths, inputs, [(0, "e"), (pc.EXT_ALL, "b"), (pc.EXT_ALL, "e")])
    hits = []
    distinct = set()
    for s, e, c, v in mon:
        # rendering the report is one of the consumers C03 names: its panic tag is shared with C04
        bad = [x for x in v if x.startswith("c03:") or x == "c04:render"]
        if bad:
            hits.append((s, "panic in " + ",".join(bad), {"input": s, "input_hex": hx(s), "ext": e, "conv": c,
                                                          "violations": bad}))
    for s in inputs:
        if any(ch in s for ch in "@#~>=\\"):
            distinct.add(s)
    # a panic seen by the correspondence (model or implementation) is a C03 failure with an input
    for s, rp in dis + dis_r:
        if rp["impl"] == "panic":
            hits.append((s, "panic in %s (%s build)" % (rp["part"], rp["build"]), rp))
    common.decide(rep, PID, "L-lex/L-ev + consumers", audit, hits, dis + dis_r + inv_dis, tier,
                  "correspondence Model/Lexer.v, Model/Parser.v <-> src/lexer, src/parser (debug and release)")
    common.proof_coverage(rep, PID, audit, tier,
                          "lexer, block splitter, block parser, step/quantity/metadata/section/text-block parsers "
                          "(Model/Lexer.v, Model/Parser.v); analysis, scaling, conversion, report rendering and "
                          "serde are exercised by the monitor only (their models belong to C06/C08/C09/C15)")
    rep.coverage.update({
        "evaluations": ncases + ncases_r + len(mon), "distinct_nontrivial": len(distinct),
        "rule": "exhaustive strings (length <= %d over the 16-symbol core alphabet, <= 3 over the 34-symbol alphabet; %d strings), "
                "seeded random strings, generated recipes and one-token mutations of them, overflow specials; "
                "L-ev compared under %d extension sets (debug) and 2 (release); every consumer run under catch_unwind "
                "for 3 parser configurations; distinct_nontrivial = distinct inputs containing a marker character"
                % (4 if tier == "quick" else 5, n_ex, len(exts)),
        "samples": [{"input": s} for s in inputs[:2] + inputs[n_ex + 20:n_ex + 22] + inputs[-2:]],
        "correspondence_cases": ncases + ncases_r, "correspondence_disagreements": len(dis) + len(dis_r),
        "both_sides_panic_cases": npan + npan_r, "monitor_cases": len(mon), "monitor_violations": len(hits),
        "exhaustive": False,
        "panic_site_inventory": inv_stats,
    })
    rep.assumptions = ["wall-clock hangs are detected only by the shard timeout of the runner (1200 s)",
                       "panics inside third-party crates are visible to the monitor only",
                       "the pinned inventory of panic sites is a token-level scan (gen/gen_panics.py) counting, per "
                       "(file, fn), macros by name, unwrap/expect and a fixed list of panicking std calls; index "
                       "expressions and integer arithmetic are listed as information only and NOT pinned (a new index or "
                       "overflow panic is left to the models' own sites, the correspondence and the catch_unwind monitor); "
                       "panics inside called library functions are not listed; the reasons in Model/PanicMap.v for sites "
                       "the models leave out are read off the source by hand and not proved"]


def setup():
    gen_panics.regenerate()
    pc.prepare(need_release=True)
    common.build_harness(["pmon"])
    common.build_coq(["Properties/C03.vo"])


def replay(rp):
    import subprocess
    if "input_hex" not in rp.get("replay", {}):
        # a broken obligation / a changed inventory without a failing input: rebuild the obligations
        st, dis = inventory()
        audit = common.audit_property_file(PID)
        print("panic-site inventory: %d sites, new %s, gone %s" % (st["sites"], st["new"], st["gone"]))
        print("obligations: %d/%d %s" % (audit["discharged"], audit["obligations"], "; ".join(audit["failed"])))
        return 0 if audit["ok"] and not dis else 1
    bindir = common.build_harness(["pmon", "events"])
    r = rp["replay"]
    line = "%s %s %s\n" % (r["input_hex"], r.get("ext", 0), r.get("conv", "e"))
    p = subprocess.run([os.path.join(bindir, "pmon"), "-"], input=line, text=True, stdout=subprocess.PIPE)
    print(p.stdout.strip())
    return 0 if p.stdout.strip() == "V -" else 1
