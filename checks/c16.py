"""C16 - converters built from configuration layers are consistent or rejected.
Theorems: coq/Properties/C16.v.  Correspondence: L-build (harness/src/bin/builder.rs vs the extracted
Model/Builder.v) on generated sequences of 1-3 units files given as TOML text.  Monitor: an independent
statement of the property evaluated on what the implementation returned.  coq/Gen/UnitsTomlFile.v,
UnitsSpanishFile.v and UnitsLive.v are regenerated from /repo on every run."""
import os
import random
import subprocess
import tomllib
from fractions import Fraction

from vlib import common
from checks import c16_gen as G

TOL = Fraction(1, 2 ** 40)
DEPS = ["Base/Chars.v", "Model/Builder.v"]
COMMONS = ("common_n.ml", "common_zq.ml")


def fields(line):
    d = {}
    for part in line.split(" ; "):
        k, _, v = part.partition(" ")
        d[k] = v
    return d


def close(a, b, scale=0):
    if a is None or b is None:
        return a is None and b is None
    return abs(a - b) <= TOL * max(abs(a), abs(b), scale)


# ----------------------------------------------------------------------------- monitor

def keys_of(u):
    return u["names"] + u["symbols"] + u["aliases"]


def layered(cur, new, prec):
    """independent statement of the precedence rule for a list"""
    if prec == "b":
        return list(new) + list(cur)
    if prec == "a":
        return list(cur) + list(new)
    return list(new)


def layer_fold(files):
    """Independent statement of what the layers say (no builder replayed): every declared unit with the names,
    symbols and aliases it must answer to after all the layers, and for every expand_si unit its six SI forms.
    All units of all files exist before the extend blocks apply; the blocks apply in file order; the keys of one
    block name units as the previous layers left them; a block entry prepends / appends / replaces according to
    the precedence of its block; an SI form is always `prefix ++ current name of its base` and keeps the aliases
    the layers gave it.  Returns (bases, alias_of_form, tabs, problems)."""
    tabs = {"p": None, "s": None}
    for f in files:
        if f["si"] is not None:
            for key in ("p", "s"):
                new = f["si"][key]
                if tabs[key] is None:
                    tabs[key] = new
                elif new is not None:
                    tabs[key] = [layered(c, n, f["si"]["prec"]) for c, n in zip(tabs[key], new)]
    bases = []
    for f in files:
        for g in f["q"]:
            if g["units"] is None:
                continue
            syss = ["-"] if g["units"][0] == "u" else ["m", "i", "-"]
            for sysm, l in zip(syss, g["units"][1:]):
                for e in l:
                    bases.append({"names": list(e[0]), "symbols": list(e[1]), "aliases": list(e[2]), "ratio": e[3],
                                  "diff": e[4], "ex": e[5], "q": g["q"], "sys": sysm})
    have_tabs = tabs["p"] is not None and tabs["s"] is not None
    form_alias = {}

    def forms(j, pi):
        b = bases[j]
        return ([p + n for p in tabs["p"][pi] for n in b["names"]], [p + x for p in tabs["s"][pi] for x in b["symbols"]])

    def who(key):
        c = []
        for j, b in enumerate(bases):
            if key in b["names"] + b["symbols"] + b["aliases"]:
                c.append((j, None))
            if b["ex"] and have_tabs:
                for pi in range(6):
                    ns, ss = forms(j, pi)
                    if key in ns + ss + form_alias.get((j, pi), []):
                        c.append((j, pi))
        return c

    problems = []
    for f in files:
        if f["ex"] is None:
            continue
        prec = f["ex"]["prec"]
        targets = [(who(k), e) for k, e in f["ex"]["units"].items()]
        if any(len(c) == 0 for c, _ in targets):
            problems.append("extend_key_of_no_unit_accepted")
            return bases, form_alias, tabs, problems
        if any(len(c) > 1 for c, _ in targets):
            problems.append("extend_key_of_two_units_accepted")
            return bases, form_alias, tabs, problems
        if len(set(c[0] for c, _ in targets)) != len(targets):
            problems.append("two_extend_entries_for_one_unit_accepted")
            return bases, form_alias, tabs, problems
        for c, e in targets:
            j, pi = c[0]
            if pi is None:
                b = bases[j]
                for pos, fld in ((2, "names"), (3, "symbols"), (4, "aliases")):
                    if e[pos] is not None:
                        b[fld] = layered(b[fld], e[pos], prec)
                if e[0] is not None:
                    b["ratio"] = e[0]
                if e[1] is not None:
                    b["diff"] = e[1]
            else:
                if any(x is not None for x in e[:4]):
                    problems.append("edit_of_si_form_other_than_aliases_accepted")
                    return bases, form_alias, tabs, problems
                if e[4] is not None:
                    form_alias[(j, pi)] = layered(form_alias.get((j, pi), []), e[4], prec)
    return bases, form_alias, tabs, problems


def monitor_layers(files, d, idx):
    """Every unit answers to exactly the keys the layers give it (see layer_fold), through the lookup table that
    find_unit reads (the harness checks find_unit against that table key by key)."""
    v = []
    units = d["units"]
    bases, form_alias, tabs, problems = layer_fold(files)
    if problems:
        return problems
    expected_keys = set()
    nforms = 0
    for j, b in enumerate(bases):
        if j >= len(units):
            v.append("declared_unit_missing")
            break
        u = units[j]
        for fld in ("names", "symbols", "aliases"):
            if u[fld] != b[fld]:
                v.append("layered_" + fld)
        if u["ratio"] != b["ratio"] or u["diff"] != b["diff"] or u["q"] != b["q"] or u["sys"] != b["sys"]:
            v.append("layered_unit_value")
        for k in b["names"] + b["symbols"] + b["aliases"]:
            expected_keys.add(k)
            if idx.get(k) != j:
                v.append("layered_key_does_not_resolve_to_its_unit")
        if not b["ex"]:
            continue
        if tabs["p"] is None or tabs["s"] is None:
            v.append("expand_si_without_tables_accepted")
            continue
        for pi, pname in enumerate(G.PREFIXES):
            ns = [p + n for p in tabs["p"][pi] for n in b["names"]]
            ss = [p + x for p in tabs["s"][pi] for x in b["symbols"]]
            al = form_alias.get((j, pi), [])
            keys = ns + ss + al
            nforms += 1
            expected_keys.update(keys)
            if not keys:
                v.append("si_form_without_key_accepted")
                continue
            ts = set(idx.get(k) for k in keys)
            if len(ts) != 1 or None in ts:
                v.append("si_form_key_does_not_resolve_to_its_unit")
                continue
            t = ts.pop()
            if t >= len(units) or t < len(bases):
                v.append("si_form_resolves_to_a_declared_unit")
                continue
            x = units[t]
            if x["names"] != ns or x["symbols"] != ss:
                v.append("si_form_names")
            if x["aliases"] != al:
                v.append("si_form_aliases_not_as_layered")
            if not close(x["ratio"], b["ratio"] * Fraction(10) ** G.PREFIX_POW[pname]) or x["diff"] != b["diff"] \
                    or x["q"] != b["q"] or x["sys"] != b["sys"]:
                v.append("si_form_value")
    if not v:
        if set(idx) != expected_keys:
            v.append("index_differs_from_layered_keys")
        if len(units) != len(bases) + nforms:
            v.append("unit_count_differs_from_layers")
    return v


def fw_helper(w):
    """FractionsConfigWrapper -> (enabled, accuracy, max_denominator, max_whole), None where not given"""
    if w[0] == "t":
        return (w[1], None, None, None)
    return (w[1], w[2], w[3], w[4])


def fr_define(h):
    """the documented defaults (disabled, 5 %, denominators up to 4, any whole part) and ranges"""
    acc = h[1] if h[1] is not None else Fraction(13421773, 268435456)      # 0.05f32
    return (h[0] if h[0] is not None else False, min(max(acc, 0), 1),
            min(max(h[2] if h[2] is not None else 4, 1), 16), h[3] if h[3] is not None else 4294967295)


def monitor_fractions(files, d, idx):
    """The per-quantity and per-unit fraction settings, stated independently: every field of the setting of a unit
    that has an entry is the first one defined by: its own entry (the last given), the setting of its quantity, of
    its system, of `all` - each of these being the one in force after ALL the layers."""
    v = []
    units = d["units"]
    layers = [f["fr"] for f in files if f["fr"] is not None]
    final = {"all": None, "metric": None, "imperial": None}
    qf = {}
    for fr in layers:
        for k in final:
            if fr[k] is not None:
                final[k] = fr[k]
        for q, w in fr["q"].items():
            qf[q] = w
    if dict(d["fr"]["q"]) != {q: fr_define(fw_helper(w)) for q, w in qf.items()}:
        v.append("fractions_quantity_not_last_given")
    want = {}
    for fr in layers:
        for k, w in fr["u"].items():
            t = idx.get(k)
            if t is None or t >= len(units):
                v.append("fractions_key_of_no_unit_accepted")
                continue
            u = units[t]
            chain = [fw_helper(w)]
            for x in (qf.get(u["q"]), final["metric"] if u["sys"] == "m" else final["imperial"] if u["sys"] == "i" else None,
                      final["all"]):
                if x is not None:
                    chain.append(fw_helper(x))
            want[t] = fr_define(tuple(next((h[i] for h in chain if h[i] is not None), None) for i in range(4)))
    if dict(d["fr"]["u"]) != want:
        v.append("fractions_unit_setting_not_unit>quantity>system>all_of_the_final_layers")
    return v


def monitor(files, d, api):
    """The property on the implementation's converter `d` (parsed dump) built from `files` (parsed, as the
    implementation saw them).  Returns the list of violated clauses."""
    v = []
    units = d["units"]
    idx = {}
    for k, i in d["index"]:
        if k in idx:
            v.append("index_key_twice")
        idx[k] = i
    # every declared key resolves to exactly its unit; no key shared
    owner = {}
    for i, u in enumerate(units):
        for k in keys_of(u):
            if idx.get(k) != i:
                v.append("key_does_not_resolve_to_its_unit")
            if owner.setdefault(k, i) != i:
                v.append("key_shared_by_two_units")
        if not keys_of(u):
            v.append("unit_without_key")
    for k, i in idx.items():
        if i >= len(units) or k not in keys_of(units[i]):
            v.append("stale_key_in_index")
        if k.strip() == "":
            v.append("blank_key")
    if api != "ok":
        v.append("public_lookup:" + api)
    # best lists
    for q, st in d["best"].items():
        for l in st[1:]:
            if not l:
                v.append("best_empty")
                continue
            if any(i >= len(units) for _, i in l):
                v.append("best_id_out_of_range")
                continue
            if any(units[i]["q"] != q for _, i in l):
                v.append("best_foreign_quantity")
            rs = [units[i]["ratio"] for _, i in l]
            if any(a > b for a, b in zip(rs, rs[1:])):
                v.append("best_not_increasing")
            if l[0][0] != 1:
                v.append("best_first_threshold")
            base = units[l[0][1]]
            for th, i in l[1:]:
                u = units[i]
                if th is None:
                    v.append("best_threshold_not_finite")
                elif u["diff"] == 0 and base["diff"] == 0 and base["ratio"] != 0 and \
                        not close(th, u["ratio"] / base["ratio"]):
                    v.append("best_threshold_value")
    # the quantity index lists exactly the units of each quantity
    for q in G.PQS:
        if d["qindex"].get(q) != [i for i, u in enumerate(units) if u["q"] == q]:
            v.append("quantity_index")
    # layers: default system, best lists are the last given
    ds = "m"
    last_best = {}
    for f in files:
        if f["ds"]:
            ds = f["ds"]
        for g in f["q"]:
            if g["best"] is not None:
                last_best[g["q"]] = g["best"]
    if d["ds"] != ds:
        v.append("default_system_not_last_given")
    for q, st in d["best"].items():
        b = last_best.get(q)
        if b is None or b[0] != st[0]:
            v.append("best_not_last_given")
            continue
        for names, l in zip(b[1:], st[1:]):
            if sorted(idx.get(n, -1) for n in names) != sorted(i for _, i in l):
                v.append("best_not_last_given")
    # SI tables layered by precedence; every prefixed form of an expand_si unit resolves to a unit of ratio*10^k
    tabs = {"p": None, "s": None}
    for f in files:
        if f["si"] is not None:
            for key in ("p", "s"):
                new = f["si"][key]
                if tabs[key] is None:
                    tabs[key] = new
                elif new is not None:
                    tabs[key] = [layered(c, n, f["si"]["prec"]) for c, n in zip(tabs[key], new)]
    decl = []
    for f in files:
        for g in f["q"]:
            if g["units"] is not None:
                for l in g["units"][1:]:
                    decl.extend(l)
    for i, e in enumerate(decl):
        if not e[5] or i >= len(units):
            continue
        u = units[i]
        if tabs["p"] is None or tabs["s"] is None:
            v.append("expand_si_without_tables_accepted")
            continue
        for pi, pname in enumerate(G.PREFIXES):
            forms = [p + n for p in tabs["p"][pi] for n in u["names"]] + [p + s for p in tabs["s"][pi] for s in u["symbols"]]
            want = u["ratio"] * Fraction(10) ** G.PREFIX_POW[pname]
            targets = set()
            for k in forms:
                j = idx.get(k)
                if j is None or j >= len(units):
                    v.append("si_form_does_not_resolve")
                    continue
                targets.add(j)
                t = units[j]
                if not close(t["ratio"], want) or t["q"] != u["q"] or t["diff"] != u["diff"] or t["sys"] != u["sys"]:
                    v.append("si_form_wrong_unit")
            if len(targets) > 1:
                v.append("si_forms_of_one_prefix_split")
    # extend blocks: when no key of the final converter was renamed twice, names/symbols/aliases follow the
    # precedence rule (independent fold over the layers; only the unambiguous situation is judged:
    # exactly one extend entry in all layers reaches the unit)
    hits = {}
    for f in files:
        if f["ex"] is not None:
            for k, e in f["ex"]["units"].items():
                hits.setdefault(k, []).append((f["ex"]["prec"], e))
    if sum(len(x) for x in hits.values()) == 1 and len(units) >= len(decl):
        (k, [(prec, e)]), = hits.items()
        cands = [i for i, x in enumerate(decl) if k in x[0] + x[1] + x[2]]
        if len(cands) == 1:
            i = cands[0]
            x, u = decl[i], units[i]
            for pos, fld in ((2, "names"), (3, "symbols"), (4, "aliases")):
                want = layered(x[pos - 2], e[pos], prec) if e[pos] is not None else x[pos - 2]
                if u[fld] != want:
                    v.append("extend_precedence_" + fld)
            if e[0] is not None and u["ratio"] != e[0]:
                v.append("extend_ratio")
    # all layers: every unit answers to exactly the keys the layers give it
    v.extend(monitor_layers(files, d, idx))
    # fractions: later layers win, unit > quantity > system > all is what Fractions::config implements;
    # here: the `all/metric/imperial` entries are the last given, clamped
    for key in ("all", "metric", "imperial"):
        enabled, acc, md = None, None, None
        given = False
        for f in files:
            if f["fr"] is not None and f["fr"][key] is not None:
                given = True
                w = f["fr"][key]
                h = ("c", w[1], None, None, None) if w[0] == "t" else w
                enabled, acc, md = h[1], h[2], h[3]
        got = d["fr"][key]
        if given != (got is not None):
            v.append("fractions_layer_presence")
        elif got is not None:
            if got[0] != (enabled if enabled is not None else False):
                v.append("fractions_enabled")
            if not (0 <= got[1] <= 1) or not (1 <= got[2] <= 16):
                v.append("fractions_clamp")
            if acc is not None and got[1] != min(max(acc, 0), 1):
                v.append("fractions_accuracy")
            if md is not None and got[2] != min(max(md, 1), 16):
                v.append("fractions_max_denominator")
    v.extend(monitor_fractions(files, d, idx))
    for _, c in d["fr"]["q"] + d["fr"]["u"]:
        if not (0 <= c[1] <= 1) or not (1 <= c[2] <= 16):
            v.append("fractions_clamp")
    return sorted(set(v))


# ----------------------------------------------------------------------------- comparison model/impl

def compare_dumps(di, dm, ties):
    """None if equal within tolerance, else a description.  `ties` counts accepted rounding ties."""
    if len(di["units"]) != len(dm["units"]):
        return "unit count"
    for i, (a, b) in enumerate(zip(di["units"], dm["units"])):
        for k in ("names", "symbols", "aliases", "q", "sys"):
            if a[k] != b[k]:
                return "unit %d %s" % (i, k)
        if not close(a["ratio"], b["ratio"]):
            return "unit %d ratio" % i
        if a["diff"] != b["diff"]:
            return "unit %d difference" % i
    if di["index"] != dm["index"]:
        return "index"
    if di["qindex"] != dm["qindex"]:
        return "quantity index"
    if di["ds"] != dm["ds"]:
        return "default system"
    for q in G.PQS:
        a, b = di["best"][q], dm["best"][q]
        if a[0] != b[0] or len(a) != len(b):
            return "best store %s" % q
        for la, lb in zip(a[1:], b[1:]):
            ia, ib = [i for _, i in la], [i for _, i in lb]
            if ia != ib:
                mu = dm["units"]
                if sorted(ia) == sorted(ib) and all(close(mu[x]["ratio"], mu[y]["ratio"], 0) or
                                                    abs(mu[x]["ratio"] - mu[y]["ratio"]) <= 2 * TOL * mu[x]["ratio"]
                                                    for x, y in zip(ia, ib)):
                    ties[0] += 1        # equal within 2^-39: the f64 products tie, the exact ones do not
                    continue
                return "best order %s" % q
            base = mu_base = dm["units"][ib[0]]
            for (ta, i), (tb, _) in zip(la, lb):
                u = dm["units"][i]
                scale = abs((1 + u["diff"]) * u["ratio"] / mu_base["ratio"]) + abs(mu_base["diff"]) if mu_base["ratio"] else 0
                if ta is None or not close(ta, tb, scale):
                    return "best threshold %s" % q
    fa, fb = di["fr"], dm["fr"]
    for k in ("all", "metric", "imperial"):
        if fa[k] != fb[k]:
            return "fractions %s" % k
    if fa["q"] != fb["q"] or fa["u"] != fb["u"]:
        return "fractions tables"
    return None


# ----------------------------------------------------------------------------- Gen files

def write_if_changed(path, text):
    if os.path.exists(path) and open(path, encoding="utf-8").read() == text:
        return False
    os.makedirs(os.path.dirname(path), exist_ok=True)
    with open(path, "w", encoding="utf-8") as f:
        f.write(text)
    return True


def coq_conv(name, d):
    """Coq record of type `converter_dump` (Model/BuilderSpec.v) for a parsed dump."""
    sysn = {"m": "(Some Metric)", "i": "(Some Imperial)", "-": "None"}
    units = G.c_list(d["units"], lambda u: "{| names := %s; symbols := %s; aliases := %s; ratio := %s; difference := %s; "
                     "quantity := %s; usystem := %s |}" % (G.c_strs(u["names"]), G.c_strs(u["symbols"]), G.c_strs(u["aliases"]),
                                                           G.c_q(u["ratio"]), G.c_q(u["diff"]), G.PQ_COQ[u["q"]], sysn[u["sys"]]))
    index = G.c_list(d["index"], lambda kv: "(%s, %d%%nat)" % (G.c_str(kv[0]), kv[1]))
    bl = lambda l: G.c_list(l, lambda x: "(%s, %d%%nat)" % (G.c_q(x[0]), x[1]), sep="; ")
    best = G.c_list([(q, d["best"][q]) for q in G.PQS], lambda x: "(%s, %s)" % (
        G.PQ_COQ[x[0]], "SUnified %s" % bl(x[1][1]) if x[1][0] == "u" else "SBySystem %s %s" % (bl(x[1][1]), bl(x[1][2]))))
    cfg = lambda c: "{| fc_enabled := %s; fc_accuracy := %s; fc_max_den := %d%%N; fc_max_whole := %d%%N |}" % (
        G.c_bool(c[0]), G.c_q(c[1]), c[2], c[3])
    fr = d["fr"]
    frs = "{| cf_all := %s; cf_metric := %s; cf_imperial := %s; cf_quantity := %s; cf_unit := %s |}" % (
        G.c_opt(fr["all"], cfg), G.c_opt(fr["metric"], cfg), G.c_opt(fr["imperial"], cfg),
        G.c_list(fr["q"], lambda x: "(%s, %s)" % (G.PQ_COQ[x[0]], cfg(x[1]))),
        G.c_list(fr["u"], lambda x: "(%d%%nat, %s)" % (x[0], cfg(x[1]))))
    qidx = G.c_list([(q, d["qindex"][q]) for q in G.PQS], lambda x: "(%s, [%s])" % (
        G.PQ_COQ[x[0]], "; ".join("%d%%nat" % i for i in x[1])))
    return ("Definition %s : converter_dump :=\n  {| d_units := %s;\n     d_index := %s;\n     d_qindex := %s;\n     d_best := %s;\n"
            "     d_fractions := %s;\n     d_default := %s |}.\n" % (
                name, units, index, qidx, best, frs, "Metric" if d["ds"] == "m" else "Imperial"))


HEADER = ("(* GENERATED by checks/c16.py on every run of `bin/check C16` from %s.\n   Do not edit; the committed copy is a snapshot. *)\n"
          "From CL Require Import Model.Builder Model.BuilderSpec.\nLocal Open Scope N_scope.\n\n")


def regenerate(bindir):
    """Gen/UnitsTomlFile.v (python tomllib reading of /repo/units.toml), Gen/UnitsSpanishFile.v
    (/repo/units/spanish.toml, extend entries in the iteration order the implementation saw) and
    Gen/UnitsLive.v (dump of Converter::default() and of the live build of the two files)."""
    info = {}
    exe = os.path.join(bindir, "builder")
    utoml = os.path.join(common.REPO, "units.toml")
    stoml = os.path.join(common.REPO, "units", "spanish.toml")
    base = G.exact(G.from_tomllib(tomllib.load(open(utoml, "rb"))))
    p = common.run([exe, "--default", utoml])
    f = fields(p.stdout.strip())
    t = G.Toks(f["F"].split())
    seen = G.rd_file(t)
    info["toml_route_agrees"] = (seen == base)
    info["generated_bundled_equals_file"] = f["G"] == "1"
    info["default_equals_rebuild"] = f["E"] == "1"
    info["default_api"] = f["A"]
    live = G.rd_dump(f["D"].split(), "impl")
    text = HEADER % "/repo/units.toml" + "Definition units_toml : units_file :=\n  %s.\n" % G.c_file(base)
    write_if_changed(os.path.join(common.COQ, "Gen", "UnitsTomlFile.v"), text)
    # spanish layer
    sp = G.exact(G.from_tomllib(tomllib.load(open(stoml, "rb"))))
    case = " ".join(G.hx(open(x, encoding="utf-8").read()) for x in (utoml, stoml))
    q = subprocess.run([exe, "-"], input=case + "\n", text=True, stdout=subprocess.PIPE, timeout=120)
    f2 = fields(q.stdout.strip())
    t = G.Toks(f2["F"].split())
    assert t.int() == 2
    b2, s2 = G.rd_file(t), G.rd_file(t)
    info["spanish_route_agrees"] = (b2 == base and s2 == sp)
    info["spanish_outcome"] = f2["R"]
    text = HEADER % "/repo/units/spanish.toml" + "Definition units_spanish : units_file :=\n  %s.\n" % G.c_file(s2)
    write_if_changed(os.path.join(common.COQ, "Gen", "UnitsSpanishFile.v"), text)
    text = HEADER % "the live converters (harness/src/bin/builder.rs --default, and units.toml + spanish.toml)"
    text += coq_conv("live_default", live)
    if f2["R"] == "ok":
        text += "\n" + coq_conv("live_spanish", G.rd_dump(f2["D"].split(), "impl"))
    else:
        text += "\n(* the live build of units.toml + spanish.toml did not succeed: %s *)\n" % f2["R"]
    write_if_changed(os.path.join(common.COQ, "Gen", "UnitsLive.v"), text)
    info["live_units"] = len(live["units"])
    info["live_keys"] = len(live["index"])
    return info, case


# ----------------------------------------------------------------------------- main

WITNESS_PANIC = ('[[quantity]]\nquantity = "mass"\nbest = ["g", "ml"]\nunits = [{ names = ["gram"], symbols = ["g"], ratio = 1 }]\n'
                 '[[quantity]]\nquantity = "volume"\nbest = ["ml"]\nunits = [{ names = ["milliliter"], symbols = ["ml"], ratio = 1 }]\n')


def witness_accept():
    # every quantity has a well-formed best list except mass, whose only best unit is a volume unit
    t = ""
    for q, n, s in (("volume", "milliliter", "ml"), ("length", "meter", "m"), ("temperature", "celsius", "C"), ("time", "second", "s")):
        t += '[[quantity]]\nquantity = "%s"\nbest = ["%s"]\nunits = [{ names = ["%s"], symbols = ["%s"], ratio = 1 }]\n' % (q, s, n, s)
    t += '[[quantity]]\nquantity = "mass"\nbest = ["ml"]\nunits = [{ names = ["gram"], symbols = ["g"], ratio = 1 }]\n'
    return t


def case_line(files, variant=0):
    return " ".join(G.hx(G.to_toml(f, variant)) for f in files)


def run(rep, tier, seed):
    rng = random.Random(seed)
    bindir = common.build_harness(["builder"])
    gen_info, shipped_case = regenerate(bindir)
    audit = common.audit_property_file("C16")
    runner = common.build_runner("builder", DEPS, commons=COMMONS)

    corpus = common.load_corpus("C16")
    fixed = [G.hx(WITNESS_PANIC), G.hx(witness_accept()), shipped_case, shipped_case.split(" ")[0]]
    n = 3000 if tier == "quick" else 60000
    gen = [G.gen_case(rng) for _ in range(n)]
    cases = list(dict.fromkeys(corpus + fixed + [case_line(c, i % 3) for i, c in enumerate(gen)]))
    expected = {case_line(c, i % 3): c for i, c in enumerate(gen)}

    impl = common.run_lines(os.path.join(bindir, "builder"), cases, tag="impl")
    fi = [fields(l) for l in impl]
    model_in = []
    for f in fi:
        model_in.append(f["F"] if f["R"] != "tomlerr" else "0")
    model = common.run_lines(runner, model_in, tag="model")

    kinds = {}
    monitor_hits, disagreements = [], []
    route_bad = 0
    payload_diff = 0
    ties = [0]
    ok_cases = 0
    samples = []
    for c, f, lm in zip(cases, fi, model):
        fm = fields(lm)
        r = f["R"].split(" ")
        kind = " ".join(r[:2])
        kinds[kind] = kinds.get(kind, 0) + 1
        rp = {"input": c, "impl": ("F ... ; R %s ; D %s ; A %s" % (f["R"], f["D"][:400], f["A"]))}
        if r[0] == "tomlerr":
            disagreements.append((c, dict(rp, what="generated TOML text does not deserialise")))
            continue
        t = G.Toks(f["F"].split())
        files = [G.rd_file(t) for _ in range(t.int())]
        if c in expected and files != [G.exact(x) for x in expected[c]]:
            route_bad += 1
            disagreements.append((c, dict(rp, what="TOML route: deserialised files differ from the generated values")))
            continue
        if r[0] == "panic":
            monitor_hits.append((c, "building panics", rp))
            continue
        mr = fm["R"].split(" ")
        if r[0] == "err":
            if mr[:2] != r[:2]:
                disagreements.append((c, dict(rp, model=fm["R"], what="outcome class")))
            elif mr[2:3] != r[2:3]:
                payload_diff += 1
            continue
        ok_cases += 1
        if f["D"] == "-":
            disagreements.append((c, dict(rp, what="dump of the implementation's converter failed: " + f["A"])))
            continue
        di = G.rd_dump(f["D"].split(), "impl")
        bad = monitor(files, di, f["A"])
        if bad:
            monitor_hits.append((c, "converter violates: " + ",".join(bad), dict(rp, violated=bad)))
            continue
        if mr[0] != "ok":
            disagreements.append((c, dict(rp, model=fm["R"], what="outcome class")))
            continue
        dm = G.rd_dump(fm["D"].split(), "model")
        why = compare_dumps(di, dm, ties)
        if why:
            disagreements.append((c, dict(rp, model=lm[:600], what="converters differ: " + why)))
        if len(samples) < 2 and len(c) < 3000:
            samples.append({"toml_files": [G.unhx(x) for x in c.split(" ")], "outcome": f["R"],
                            "units": len(di["units"]), "keys": len(di["index"])})
    for c, f in zip(cases, fi):
        if f["R"].startswith("err") and len(samples) < 4 and len(c) < 3000:
            samples.append({"toml_files": [G.unhx(x) for x in c.split(" ")], "outcome": f["R"]})

    # the shipped files must build, and the regenerated data must be what the theorems talk about
    for k in ("toml_route_agrees", "spanish_route_agrees"):
        if not gen_info[k]:
            disagreements.append(("units.toml", {"what": "shipped units: %s is false" % k, "input": shipped_case}))
    # "the default converter equals the one built from the shipped units file": judged on the implementation alone
    # (Converter::default() == ConverterBuilder::new().with_units_file(units.toml).finish(), and the bundled
    # UnitsFile equals the parsed file); the failing input is the shipped file itself
    for k, what in (("default_equals_rebuild", "Converter::default() differs from the converter built from units.toml"),
                    ("generated_bundled_equals_file", "UnitsFile::bundled() differs from the parsed units.toml")):
        if not gen_info[k]:
            monitor_hits.append((shipped_case, what, {"input": shipped_case, "what": what}))
    if gen_info["spanish_outcome"] != "ok" or gen_info["default_api"] != "ok":
        monitor_hits.append((shipped_case, "the shipped units files do not build a consistent converter",
                             {"input": shipped_case, "outcome": gen_info["spanish_outcome"]}))

    common.decide(rep, "C16", "L-build", audit, monitor_hits, disagreements, tier,
                  "correspondence Model/Builder.v <-> src/convert/builder.rs")
    common.proof_coverage(rep, "C16", audit, tier,
                          "ConverterBuilder::{add_units_file, finish, add_unit}, BestConversions::new, apply_extend_groups, "
                          "update_expanded_units, build_fractions_config, join_alias_vec, join_prefixes, expand_si, "
                          "UnitIndex::{add_unit, remove_unit, remove_unit_rec, get_unit_id} (src/convert/builder.rs 82-543, "
                          "mod.rs 246-256), convert_f64 (mod.rs 720-725); f64 as exact rationals; toml/serde deserialisation and "
                          "HashMap iteration order are oracles (answers shipped per case)")
    rep.coverage.update({
        "evaluations": len(cases), "built_ok": ok_cases, "outcome_kinds": kinds,
        "correspondence_disagreements": len(disagreements), "monitor_violations": len(monitor_hits),
        "toml_route_disagreements": route_bad, "error_payload_differences": payload_diff,
        "rounding_ties_in_best_order": ties[0], "tolerance": "2^-40 relative (ratios, thresholds)",
        "regenerated": gen_info,
        "rule": "%d seeded sequences of 1-3 generated units files (all five quantities, unified/by-system unit sets, "
                "SI expansion with full/partial/missing prefix tables, best lists unified/by system/empty/unknown/foreign "
                "quantity/duplicates, fractions blocks, extend blocks with each precedence on base and expanded units, "
                "duplicate extend keys, colliding/blank/empty keys) written as TOML text in three spellings, "
                "plus /repo/units.toml alone and with units/spanish.toml, the two defect witnesses and the corpus" % n,
        "exhaustive": False, "samples": samples,
    })
    rep.assumptions = [
        "oracle: toml+serde deserialisation (checked per case: the deserialised value equals the generated value)",
        "oracle: iteration order of Extend::units / Fractions::{unit,quantity} hash maps (shipped per case; theorems hold for every order)",
        "f64 arithmetic is modelled exactly (Q); compared within 2^-40, order ties within 2^-39 counted",
    ]


def setup():
    bindir = common.build_harness(["builder"])
    regenerate(bindir)
    common.build_runner("builder", DEPS, commons=COMMONS)


def replay(rp):
    bindir = common.build_harness(["builder"])
    s = rp["replay"].get("input")
    if not s:
        print("no input recorded")
        return 0
    p = subprocess.run([os.path.join(bindir, "builder"), "-"], input=s + "\n", text=True, stdout=subprocess.PIPE)
    line = p.stdout.strip()
    f = fields(line)
    print("R %s ; A %s" % (f.get("R"), f.get("A")))
    if f.get("R") == "panic":
        return 1
    if f.get("R") == "ok" and f.get("D", "-") != "-":
        t = G.Toks(f["F"].split())
        files = [G.rd_file(t) for _ in range(t.int())]
        bad = monitor(files, G.rd_dump(f["D"].split(), "impl"), f["A"])
        if bad:
            print("violated: " + ",".join(bad))
            return 1
    return 0
