"""C11 - aisle configuration parsing: theorems in coq/Properties/C11.v, L-aisle correspondence,
monitor on the implementation."""
import itertools
import random

from vlib import common
from vlib.common import hx, unhx

ALPHA_A = ["[", "]", "|", "/", "a", "b", " ", "\n", " "]
ALPHA_B = ["[", "]", "|", "/", "a", "b", " ", "\n", " ", "\r", "\t", "\u000b", "c", "é"]


def enum_strings(alpha, maxlen):
    for n in range(maxlen + 1):
        for t in itertools.product(alpha, repeat=n):
            yield "".join(t)


def gen_structured(rng, n):
    words = ["a", "b", "milk", "oat milk", "Eggs", "é", "名", "x/y", "[q", "q]", "[z]", ""]
    blanks = ["", " ", "  ", "\t", " ", " ", "\u000b", "\u000c"]
    out = []
    for _ in range(n):
        lines = []
        ncat = rng.randint(0, 4)
        pool = words[:]
        for ci in range(ncat):
            cname = rng.choice(["produce", "dairy", "a", "b", " c ", "d|e", "", "x]y", "[w", "other", "Other", "default", "uncategorized"]) if rng.random() < 0.8 else rng.choice(["produce", "a"])
            lines.append(rng.choice(blanks) + "[" + cname + "]" + rng.choice(blanks) + (rng.choice(["", " // c", "//", " / x"]) if rng.random() < 0.2 else ""))
            for _ in range(rng.randint(0, 3)):
                k = rng.randint(1, 3)
                names = []
                for _ in range(k):
                    w = rng.choice(pool) if rng.random() < 0.9 else rng.choice(words)
                    if rng.random() < 0.7 and w in pool and len(pool) > 3:
                        pool.remove(w)
                    names.append(rng.choice(blanks) + w + rng.choice(blanks))
                line = "|".join(names)
                if rng.random() < 0.15:
                    line += rng.choice([" // note", "//", "// [x]"])
                lines.append(line)
            if rng.random() < 0.5:
                lines.append(rng.choice(blanks))
        if rng.random() < 0.1 and lines:
            lines.insert(0, rng.choice(["stray", " ", "|"]))
        nl = rng.choice(["\n", "\n", "\r\n"])
        if rng.random() < 0.3:
            # mixed line endings in one file: every line picks its own terminator
            s = "".join(ln + rng.choice(["\n", "\r\n"]) for ln in lines[:-1]) + (lines[-1] if lines else "")
        else:
            s = nl.join(lines)
        if rng.random() < 0.7:
            s += nl
        if rng.random() < 0.1:
            s += rng.choice(["|", "\r", "a|", "[", "[]", " "])
        out.append(s)
    return out


def gen_pairs():
    """header and name pairs that differ only by padding or comments, and leading / trailing empty pieces: the
    places where 'is this the same category / name' and 'what is the first name of the line' can go wrong"""
    out = []
    pads = ["", " ", "\t", "\u00a0", "\u3000"]
    for a in pads:
        for b in pads:
            out.append("[%sa%s]\nx\n[a]\ny\n" % (a, b))
            out.append("[a]\nx\n[%sa%s]\ny" % (a, b))
            out.append("[c]\n%sx%s|y\nx\n" % (a, b))
            out.append("[c]\nx|%sx%s\n" % (a, b))
            out.append("[c]%s// note\nx\n[d]%s//\ny\n" % (a, b))
            out.append("[c]\nx%s// n|m\n%sy|z // k\n" % (a, b))
    # ingredient lines before the first header, alone and followed by headers with "default-looking" names
    for lead in ["a", "x|y", " a ", "a // c"]:
        for cat in ["other", "Other", "default", "", "a", "misc"]:
            out.append("%s\n[%s]\n" % (lead, cat))
            out.append("%s\n[%s]\nz\n[%s]\n" % (lead, cat, cat))
            out.append("%s\n[%s]" % (lead, cat))
    # an error at the end of a file whose earlier lines mix LF and CRLF (spans computed from line starts)
    for body in ["[a]\r\nx\n[b]\nx", "[a]\nx\r\n[b]\r\nx", "[a]\r\nx\ny\nz\n[a]", "[a]\nx\ny\r\n[b\n", "[é]\r\n名\n\n\n[c]\n名",
                 "x\n[a]\r\n\r\ny\n[b]\ny\n", "[a]\r\nx\n[b]\ny|x", "[a]\n\r\n\n[b]\r\n[a]\n"]:
        out.append(body)
        out.append(body + "\n")
        out.append(body + "\r\n")
    for line in ["|tuna|atun", " | x", "tuna|", "tuna||atun", "||", "| |x", "x| |", "\u00a0|x"]:
        out.append("[c]\n%s\n" % line)
        out.append("[c]\n%s\n[d]\nq|%s\n" % (line, line.strip("|") or "r"))
    return out


def fields(line):
    d = {}
    for part in line.split(" ; "):
        k, _, v = part.partition(" ")
        d[k] = v
    return d


def canon_lookup(v):
    return ",".join(sorted(v.split(","))) if v != "-" else "-"


def run(rep, tier, seed):
    rng = random.Random(seed)
    bindir = common.build_harness(["aisle"])
    audit = common.audit_property_file("C11")
    runner = common.build_runner("aisle", ["Base/Chars.v", "Model/Aisle.v"])

    corpus = []
    import os
    cpath = os.path.join(common.VERIF, "corpus", "C11.cases")
    if os.path.exists(cpath):
        corpus = [l.strip() for l in open(cpath) if l.strip() and not l.startswith("#")]
    if tier == "quick":
        ex = list(enum_strings(ALPHA_A, 5)) + list(enum_strings(ALPHA_B, 3))
        structured = gen_structured(rng, 4000)
    else:
        ex = list(enum_strings(ALPHA_A, 6)) + list(enum_strings(ALPHA_B, 4))
        structured = gen_structured(rng, 60000)
    structured = gen_pairs() + structured
    inputs = list(dict.fromkeys([unhx(c) for c in corpus] + ex + structured))
    cases = [hx(s) for s in inputs]
    impl = common.run_lines(os.path.join(bindir, "aisle"), cases, tag="impl")
    model = common.run_lines(runner, cases, env={"AISLE_CFG": "fixed"}, tag="model")

    kinds = {}
    disagreements = []
    monitor_hits = []
    distinct = set()
    for s, c, li, lm in zip(inputs, cases, impl, model):
        fi, fm = fields(li), fields(lm)
        kind = fi["P"].split(" ")[0]
        kinds[kind] = kinds.get(kind, 0) + 1
        if kind != "ok" or len(fi["P"]) > 3:
            distinct.add(fi["P"])
        if fi["V"] != "-":
            monitor_hits.append((s, fi["V"], li))
        if fi["P"] != fm["P"] or fi["W"] != fm["W"] or canon_lookup(fi["L"]) != canon_lookup(fm["L"]):
            disagreements.append((s, li, lm))

    # decide
    for s, v, li in sorted(monitor_hits, key=lambda t: len(t[0]))[:3]:
        rep.violation("aisle property %s fails on input %r" % (v, s),
                      {"layer": "L-aisle", "input": s, "input_hex": hx(s), "violated": v, "impl": li})
    if not monitor_hits:
        if disagreements:
            s, li, lm = min(disagreements, key=lambda t: len(t[0]))
            rep.violation("model and implementation disagree on %r (%d cases); no input violating C11 found"
                          % (s, len(disagreements)),
                          {"layer": "L-aisle", "input": s, "input_hex": hx(s), "impl": li, "model": lm,
                           "unchecked": "correspondence Model/Aisle.v <-> src/aisle.rs"}, found_input=False)
        if not audit["ok"]:
            rep.violation("proof obligations of C11 do not check: %s" % "; ".join(audit["failed"]),
                          {"theorems": audit["theorems"], "failed": audit["failed"], "log": audit["log"][-2000:]},
                          found_input=False)
    if tier == "thorough":
        ok, out = common.coqchk("C11")
        rep.coverage["coqchk"] = "ok" if ok else out[-500:]
        if not ok:
            rep.violation("coqchk rejects Properties/C11.vo", {"log": out}, found_input=False)

    rep.coverage.update({
        "obligations": audit["obligations"], "discharged": audit["discharged"],
        "theorems": audit["theorems"], "axioms": audit["axioms"],
        "checker_cmd": "make -C coq Properties/C11.vo && coqc -Q coq CL coq/Properties/C11.v (Print Assumptions audited)"
                       + ("; coqchk -o CL.Properties.C11" if tier == "thorough" else ""),
        "trusted_base": common.TRUSTED_BASE + [
            "modelled, not verified: aisle::parse, aisle::write, AisleConf::ingredients_info (src/aisle.rs 76-207); "
            "str::lines/split_once/trim/trim_ascii are modelled from their documentation and validated by the correspondence"],
        "evaluations": len(cases), "distinct_nontrivial": len(distinct),
        "rule": "every string up to length %d over %r and up to length %d over a 14-symbol alphabet (exhaustive), "
                "%d seeded structured files with injected duplicates/comments/CRLF/Unicode blanks, corpus first; "
                "distinct_nontrivial = number of distinct parse outcomes that are an error or a non-empty configuration"
                % (5 if tier == "quick" else 6, "".join(ALPHA_A), 3 if tier == "quick" else 4, len(structured)),
        "exhaustive": True,
        "samples": [{"input": s, "impl": li} for s, li in list(zip(inputs, impl))[len(corpus) + 9000:len(corpus) + 9003]] +
                   [{"input": structured[0], "impl": impl[len(corpus) + len(ex)]}],
        "outcome_kinds": kinds, "correspondence_disagreements": len(disagreements),
        "monitor_violations": len(monitor_hits),
    })
    rep.assumptions = ["char::is_whitespace is the White_Space set written in Base/Chars.v (checked on the generated alphabet only)"]


def setup():
    common.build_harness(["aisle"])
    common.build_runner("aisle", ["Base/Chars.v", "Model/Aisle.v"])


def replay(rp):
    import os
    import subprocess
    bindir = common.build_harness(["aisle"])
    s = rp["replay"].get("input_hex")
    p = subprocess.run([os.path.join(bindir, "aisle"), "-"], input=s + "\n", text=True, stdout=subprocess.PIPE)
    print(p.stdout.strip())
    return 1 if " V -" not in p.stdout else 0
