"""C01 - printing a recipe as Cooklang and parsing it returns that recipe.

Monitor (the property on the implementation, no parser model involved): every generated recipe
structure (checks/c01_gen.py) is printed under several spelling tapes; each text is parsed by
CooklangParser::parse under the profile's parser (canonical = no extensions + empty converter,
extended = all extensions + bundled converter); required: no panic, no error, no warning other than
the `>>` deprecation notice (one warning, only when `>>` entries were printed, one label per entry),
and project(recipe) == denote(structure) - component names, values (decimals within 2^-52 relative,
fractions exactly), units, Linear/Fixed, modifiers, resolved relations, step text (up to blank runs),
step order and numbers per section, section names, metadata entries, servings, inline quantities.
The texts of gen/grec.py (one spelling per structure) are monitored the same way.

Correspondence: L-lex/L-ev (Model/Lexer.v, Model/Parser.v vs src/lexer, src/parser) on the generated
texts under the extension set of their profile.

Theorems: coq/Properties/C01.v (lexer round trip, number/value/quantity round trips on the models)."""
import json
import os
import random
import subprocess
from collections import Counter

from vlib import common
from vlib.common import hx, unhx
from checks import parser_common as pc
from checks import c01_gen as g

PID = "C01"
PROFILES = {"canonical": (0, "e"), "extended": (pc.EXT_ALL, "b")}
REL_TOL = 2.0 ** -52


# ------------------------------------------------------------------ comparison

def diff(a, b, path=""):
    """first difference between two projections; floats within 2^-52 relative"""
    if isinstance(a, float) and isinstance(b, (int, float)) and not isinstance(b, bool) or \
            isinstance(b, float) and isinstance(a, (int, float)) and not isinstance(a, bool):
        if a == b or abs(a - b) <= REL_TOL * max(abs(a), abs(b)):
            return None
        return "%s: %r != %r" % (path, a, b)
    if type(a) != type(b):
        return "%s: %r != %r" % (path, a, b)
    if isinstance(a, dict):
        for k in sorted(set(a) | set(b)):
            if k not in a or k not in b:
                return "%s.%s: missing on one side (%r / %r)" % (path, k, a.get(k), b.get(k))
            d = diff(a[k], b[k], path + "." + k)
            if d:
                return d
        return None
    if isinstance(a, list):
        if len(a) != len(b):
            return "%s: length %d != %d (%r / %r)" % (path, len(a), len(b), a, b)
        for i, (x, y) in enumerate(zip(a, b)):
            d = diff(x, y, "%s[%d]" % (path, i))
            if d:
                return d
        return None
    if a != b:
        return "%s: %r != %r" % (path, a, b)
    return None


def judge(out_line, expected, n_chevron_entries):
    """the monitor: None if the parse result is the intended recipe, else what is wrong"""
    try:
        o = json.loads(out_line)
    except ValueError:
        return "harness output is not JSON: " + out_line[:200]
    if o.get("panic"):
        return "panic in " + str(o["panic"])
    errs = [d for d in o["diags"] if d[0] == "e"]
    if errs:
        return "error reported (%s stage, labels %r)" % (errs[0][1], errs[0][2])
    warns = [d for d in o["diags"] if d[0] == "w"]
    allowed = 1 if n_chevron_entries else 0
    if len(warns) > allowed:
        return "warning reported (%s stage, labels %r)" % (warns[-1][1], warns[-1][2])
    if warns and len(warns[0][2]) != n_chevron_entries:
        return "warning that is not the `>>` deprecation notice (labels %r)" % (warns[0][2],)
    if o.get("recipe") is None or not o.get("valid"):
        return "no valid recipe returned"
    exp = dict(expected)
    got = g.project(o["recipe"]) if "inline_quantities" in exp else g.grec.project(o["recipe"])
    return diff(got, exp, "recipe")


def run_cases(bindir, cases):
    """cases: list of dict(text, profile, expected, chev). Returns list of verdict strings/None."""
    lines = []
    for c in cases:
        e, cv = PROFILES[c["profile"]]
        lines.append("%s %d %s" % (hx(c["text"]), e, cv))
    outs = common.run_lines(os.path.join(bindir, "recipe"), lines, tag="c01")
    return [judge(o, c["expected"], c["chev"]) for o, c in zip(outs, cases)]


def make_case(spec, tape_seed, counts=None, plain=False):
    t = g.Tape(random.Random(tape_seed), counts, plain=plain)
    text, style = g.print_spec(spec, t)
    exp = g.denote(spec, style)
    chev = len(spec["meta"]) if style == ">>" else 0
    return {"text": text, "profile": spec["profile"], "expected": exp, "chev": chev, "tape": tape_seed,
            "style": style}


def shrink(bindir, spec, tape_seed, what):
    """greedy: smaller structures (fewer blocks / items / component parts) that still fail under the same tape seed"""
    best = spec
    best_case = make_case(spec, tape_seed)
    best_what = what
    progress = True
    rounds = 0
    while progress and rounds < 80:
        progress = False
        rounds += 1
        cands = []
        for s in g.shrink_candidates(best):
            try:
                cands.append((s, make_case(s, tape_seed)))
            except g.IllFormed:
                continue
        if not cands:
            break
        verdicts = run_cases(bindir, [c for _, c in cands])
        failing = [(g.spec_size(s), i) for i, ((s, _), v) in enumerate(zip(cands, verdicts)) if v]
        if failing:
            _, i = min(failing)
            best, best_case, best_what = cands[i][0], cands[i][1], verdicts[i]
            progress = True
    # finally try the plain tape (first alternative everywhere) on the shrunk structure
    try:
        pc_ = make_case(best, tape_seed, plain=True)
        v = run_cases(bindir, [pc_])[0]
        if v:
            best_case, best_what = pc_, v
    except g.IllFormed:
        pass
    return best, best_case, best_what


# ------------------------------------------------------------------ run

def run(rep, tier, seed):
    quick = tier == "quick"
    rng = random.Random(seed)
    paths = pc.prepare(need_release=False)
    bindir = common.build_harness(["recipe"])
    audit = common.audit_property_file(PID)

    n_struct = 3000 if quick else 24000
    k_tapes = 4 if quick else 8
    n_legacy = 1000 if quick else 20000
    n_cor = 4000 if quick else 40000
    chunk = 1000            # structures per batch: bounds the memory of a thorough run

    constructs = Counter()
    spellings = Counter()
    sizes = Counter()
    stats = {"parses": 0, "len_sum": 0, "len_max": 0, "fail": 0, "illformed": 0, "n_gen": 0}
    distinct = set()
    cor_texts = {"canonical": {}, "extended": {}}
    samples = []
    fails = []          # (case, verdict, origin) - the first few failures, shrunk below

    def judge_batch(cases, origin):
        verdicts = run_cases(bindir, cases)
        for c, v, o in zip(cases, verdicts, origin):
            t = c["text"]
            stats["parses"] += 1
            stats["len_sum"] += len(t)
            stats["len_max"] = max(stats["len_max"], len(t))
            distinct.add(hash(t))
            ct = cor_texts[c["profile"]]
            if len(ct) < n_cor:
                ct[t] = None
            if v:
                stats["fail"] += 1
                if len(fails) < 3:
                    fails.append((c, v, o))

    # corpus first: minimised earlier failures, stored as `<profile> <hex text> <hex expected json> <chev>`
    cases, origin = [], []
    for line in common.load_corpus(PID):
        f = line.split()
        cases.append({"text": unhx(f[1]), "profile": f[0], "expected": json.loads(unhx(f[2])), "chev": int(f[3])})
        origin.append(None)
    n_corpus = len(cases)
    if cases:
        judge_batch(cases, origin)
    for prof in ("canonical", "extended"):
        for base in range(0, n_struct, chunk):
            cases, origin = [], []
            for i in range(base, min(base + chunk, n_struct)):
                size = 1.0 if i % 10 else 2.5
                spec = g.SpecGen(random.Random(rng.getrandbits(48)), prof, size).recipe()
                try:
                    exp0 = g.denote(spec, ">>")
                except g.IllFormed:
                    stats["illformed"] += 1      # generator bookkeeping and denotation disagree: skipped, counted
                    continue
                g.construct_counts(spec, constructs)
                for lst in ("ingredients", "cookware"):     # implicit references are visible only in the denotation
                    constructs["references resolved (%s)" % lst] += \
                        sum(1 for e_ in exp0[lst] if e_["relation"]["type"] == "reference")
                sz = 10 * (g.spec_size(spec) // 10)
                sizes["%s: %d-%d items" % (prof, sz, sz + 9)] += 1
                for k in range(k_tapes):
                    ts = rng.getrandbits(48)
                    cases.append(make_case(spec, ts, spellings, plain=(k == 0)))
                    origin.append((spec, ts))
            stats["n_gen"] += len(cases)
            if len(samples) < 4 and cases:
                samples.append({"input": cases[1]["text"], "profile": prof})
                samples.append({"input": cases[-1]["text"], "profile": prof})
            judge_batch(cases, origin)
    # the one-stream generator shared with the other parser checks
    cases, origin = [], []
    for text, exp, prof, info in pc.grec_texts(rng, n_legacy):
        cases.append({"text": text, "profile": prof, "expected": exp,
                      "chev": len(exp["metadata"]) if info["old_style_meta"] else 0})
        origin.append(None)
    judge_batch(cases, origin)

    hits = []
    for c, what, o in fails:
        shrunk = None
        if o is not None:
            try:
                s2, c2, w2 = shrink(bindir, o[0], o[1], what)
                if w2:
                    c, what, shrunk = c2, w2, s2
            except common.Broken:
                pass
        e, cv = PROFILES[c["profile"]]
        hits.append((c["text"], "parse of a documented spelling is not the intended recipe (%s profile): %s"
                     % (c["profile"], what),
                     {"input": c["text"], "input_hex": hx(c["text"]), "ext": e, "conv": cv, "profile": c["profile"],
                      "expected": c["expected"], "chevron_entries": c["chev"], "structure": shrunk,
                      "failing_cases": stats["fail"]}))

    # correspondence on the generated texts, each under the extension set of its profile
    can = list(cor_texts["canonical"])
    ext = list(cor_texts["extended"])
    dis1, nc1, np1 = pc.lev_disagreements(paths, can, [0])
    dis2, nc2, np2 = pc.lev_disagreements(paths, ext, [pc.EXT_ALL])
    dis = dis1 + dis2

    common.decide(rep, PID, "print/parse monitor + L-lex/L-ev", audit, hits, dis, tier,
                  "correspondence Model/Lexer.v, Model/Parser.v <-> src/lexer, src/parser on printed recipes; "
                  "the analysis pass is compared with the denotation only through the monitor")
    common.proof_coverage(rep, PID, audit, tier,
                          "lexer (Model/Lexer.v); numeric_value, parse_quantity (regular and advanced path), Text assembly, "
                          "comp_body / modifiers / parse_modifiers / parse_inter / note / parse_alias / ingredient / cookware / timer, "
                          "step_loop / parse_step, text_block_loop, next_block / more_lines (block cut), "
                          "metadata_entry, section, parse_block / run_block and (through C14_full_blocks) events of "
                          "Model/Parser.v; the printers of coq/Model/Printer.v are definitions of the statements, the Python "
                          "printer checks/c01_gen.py is a separate artefact making the same spelling choices; the layout of a "
                          "document is a predicate on its tokens (not yet derived from a document printer), front matter and "
                          "the analysis pass are compared and monitored, not proved")
    rep.coverage.update({
        "evaluations": stats["parses"] + nc1 + nc2,
        "distinct_nontrivial": len(distinct),
        "rule": "%d recipe structures per profile (canonical: core syntax; extended: + modifiers, aliases, references, "
                "intermediate references, mode/duplicate switches, ranges, advanced units, inline temperatures), every "
                "10th of 2.5x size; each printed under %d tapes (tape 0 = first alternative everywhere, the others random; "
                "seed-determined) and parsed under its profile's parser: %d parses; + %d texts of gen/grec.py (one "
                "spelling each) + %d corpus cases; monitor = no diagnostics beyond the `>>` notice and projection equal "
                "to the denotation computed from the structure alone; failures are shrunk (blocks, items, component "
                "parts) under the same tape seed, then under the plain tape; L-lex/L-ev on %d + %d distinct texts"
                % (n_struct, k_tapes, stats["n_gen"], n_legacy, n_corpus, len(can), len(ext)),
        "samples": samples,
        "structures_per_profile": n_struct, "tapes_per_structure": k_tapes, "parses": stats["parses"],
        "generator_illformed_skipped": stats["illformed"],
        "monitor_violations": stats["fail"],
        "constructs": dict(sorted(constructs.items())),
        "spelling_choices": dict(sorted(spellings.items())),
        "structure_sizes": dict(sorted(sizes.items())),
        "text_length_max": stats["len_max"], "text_length_mean": round(stats["len_sum"] / max(1, stats["parses"]), 1),
        "correspondence_cases": nc1 + nc2, "correspondence_disagreements": len(dis),
        "both_sides_panic_cases": np1 + np2,
        "decimal_tolerance_relative": "2^-52", "exhaustive": False,
    })
    rep.assumptions = [
        "serde_yaml reads the printed front matter subset (plain / quoted scalars, comments) as the intended map: "
        "checked by the monitor on every case, not modelled",
        "decimal literal -> f64 is correctly rounded on both sides (Rust parse, Python float); compared within 2^-52 relative",
        "step text is compared up to runs of blanks and leading/trailing blanks of a step (the statement fixes the "
        "recipe, not the blank runs a wrapped or commented spelling leaves in the text)",
        "`>>` entries carry strings only: an integer-valued entry denotes the integer under front matter and its "
        "decimal string under `>>` (servings is the same number under both)",
    ]


def setup():
    pc.prepare(need_release=False)
    common.build_harness(["recipe"])


def replay(rp):
    r = rp["replay"]
    if "input_hex" not in r:
        print("nothing to replay: " + rp.get("what", ""))
        return 1
    if r.get("part") in ("T", "E", "M"):
        paths = pc.prepare()
        for s, e, a, b in pc.run_both(paths, [unhx(r["input_hex"])], [int(r.get("ext", 0))]):
            print("impl : " + a)
            print("model: " + b)
            return 0 if a == b else 1
    bindir = common.build_harness(["recipe"])
    line = "%s %s %s\n" % (r["input_hex"], r.get("ext", 0), r.get("conv", "e"))
    p = subprocess.run([os.path.join(bindir, "recipe"), "-"], input=line, text=True, stdout=subprocess.PIPE)
    v = judge(p.stdout.strip().splitlines()[-1], r["expected"], int(r.get("chevron_entries", 0)))
    print("input: %r" % unhx(r["input_hex"]))
    print("verdict: " + (v or "parses to the intended recipe"))
    return 1 if v else 0
