"""C13 - standard metadata values are interpreted as documented: theorems in coq/Properties/C13.v,
L-std correspondence (Model/StdMeta.v vs src/metadata.rs through harness/src/bin/stdmeta.rs, debug and
release builds), monitor = documented meaning (module `doc` of the harness) vs what the accessors
returned, warning <=> None, no panic."""
import itertools
import json
import os
import random
import subprocess
from fractions import Fraction

from vlib import common
from vlib.common import hx, unhx

ALPHA_T = ["0", "1", "9", "h", "m", "s", ".", " ", "-", "e", "d"]
ALPHA_L = ["a", "Z", "_", "1", "é"]
NON_ASCII = sorted({ord(c) for c in "éí名\u00a0\u2003ß"})
SPANISH = os.path.join(common.REPO, "units/spanish.toml")
DEPS = ["Base/Chars.v", "Model/StdMeta.v"]
COMMONS = ("common_n.ml", "common_zq.ml")
TWO32 = 1 << 32


def enum_strings(alpha, lo, hi):
    for n in range(lo, hi + 1):
        for t in itertools.product(alpha, repeat=n):
            yield "".join(t)


def q(s):
    """a YAML double-quoted scalar"""
    return json.dumps(s, ensure_ascii=False)


def case(conv, carrier, focus, *kv):
    """carrier o: `>> k: v`; y: front matter, v is raw YAML; q: front matter, v as a quoted string"""
    vals = list(kv)
    if carrier == "q":
        vals = [x if i % 2 == 0 else q(x) for i, x in enumerate(vals)]
        carrier = "y"
    return " ".join([conv, carrier, focus] + [hx(x) for x in vals])


# ---------------------------------------------------------------- generators

def time_units(dump):
    """[(key, minutes per unit as Fraction)] of the Time units of a converter dump line"""
    parts = dump.split(" ; ")
    if parts[0] == "U 0":
        tab = {"s": Fraction(1, 60), "m": 1, "h": 60, "d": 1440}
        names = {"s": ["s", "sec", "secs", "second", "seconds"], "m": ["m", "min", "minute", "minutes"],
                 "h": ["h", "hour", "hours"], "d": ["d", "day", "days"]}
        return [(k, Fraction(tab[u])) for u in names for k in names[u]]
    out = []
    minute = None
    units = []
    for u in parts[1:]:
        keys, time, rm, re_, dm, de = u.split(" ")
        if time != "1":
            continue
        ratio = Fraction(int(rm)) * (Fraction(2) ** int(re_))
        ks = [unhx(k) for k in keys.split(",")]
        units.append((ks, ratio))
        if "min" in ks:
            minute = ratio
    if minute is None:
        minute = Fraction(60)   # the renamed-units converter: no unit is called min
    for ks, ratio in units:
        for k in ks:
            out.append((k, ratio / minute))
    return out


def foreign_units(dump):
    """keys of the units of a converter that do NOT measure time"""
    out = []
    for u in dump.split(" ; ")[1:]:
        keys, time = u.split(" ")[:2]
        if time != "1":
            out.extend(unhx(k) for k in keys.split(","))
    return out


def gen_time_forms(rng, units, n):
    """documented spellings: minutes, HhMm, number-unit pairs (attached / separated / mixed blanks)"""
    out = []
    big = [TWO32 - 1, TWO32, TWO32 + 1, TWO32 - 2, TWO32 + 59, TWO32 - 60, 2 * TWO32, 2 * TWO32 + 5, 71582788 * 60 + 16,
           71582788 * 60 + 15, 99999999 * 60, 10 ** 10, 10 ** 12, (1 << 64) + 3]

    def nat(x):
        z = rng.choice(["", "", "", "0", "00"])
        return z + str(x)

    def target():
        r = rng.random()
        if r < 0.35:
            return rng.choice(big) + rng.randint(-3, 3)
        if r < 0.5:
            return rng.randint(0, 3)
        if r < 0.8:
            return rng.randint(0, 5000)
        return rng.randint(0, 3 * TWO32)

    for _ in range(n):
        kind = rng.random()
        t = target()
        if kind < 0.15:
            out.append(nat(t))
        elif kind < 0.45:
            h, m = divmod(t, 60)
            if rng.random() < 0.3:
                m = t - 60 * h + 60 * rng.randint(0, 2)
                h = (t - m) // 60 if t - m >= 0 else 0
            form = rng.random()
            if form < 0.2:
                out.append(nat(h) + "h")
            elif form < 0.4:
                out.append(nat(t) + "m")
            else:
                out.append(nat(h) + "h" + nat(m) + "m")
        else:
            k = rng.randint(1, 4)
            parts = []
            rem = Fraction(t)
            for i in range(k):
                key, per = rng.choice(units)
                if i == k - 1 and rng.random() < 0.6:
                    amount = rem / per if rem > 0 else Fraction(0)
                else:
                    amount = Fraction(rng.randint(0, max(1, int(rem / per) if rem > 0 else 1)))
                    if rng.random() < 0.3:
                        amount += Fraction(rng.randint(0, 99), 100)
                # a decimal spelling: only amounts with finite decimal expansion are printed exactly
                num = amount.limit_denominator(1000)
                txt = decimal_text(rng, num)
                rem -= num * per
                sep = rng.choice(["", " ", "  ", "\t", "\u00a0"]) if not key[0].isdigit() else " "
                if sep == "" and (key[0].isdigit() or key[0] == "."):
                    sep = " "
                parts.append(txt + sep + key)
            joiner = rng.choice([" ", " ", "  ", "\t"])
            s = joiner.join(parts)
            if rng.random() < 0.05:
                s = " " + s
            if rng.random() < 0.05:
                s = s + " "
            out.append(s)
    return out


def decimal_text(rng, fr):
    """a decimal numeral of a fraction (truncated to 3 places if it does not terminate)"""
    fr = Fraction(fr)
    if fr.denominator == 1:
        s = str(fr.numerator)
        r = rng.random()
        if r < 0.1:
            s += ".0"
        elif r < 0.15:
            s += "."
        elif r < 0.2:
            s = "0" + s
        return s
    scaled = int(fr * 1000)
    ip, fp = divmod(scaled, 1000)
    fp = ("%03d" % fp).rstrip("0")
    if fp == "":
        return str(ip)
    if ip == 0 and rng.random() < 0.3:
        return "." + fp
    return "%d.%s" % (ip, fp)


def gen_numbers(rng, n):
    """numbers without unit, incl. forms that must be declined"""
    fixed = ["-5", "nan", "inf", "-inf", "infinity", "NaN", "+inf", "1e10", "1e3", "1E3", "1e+2", "1e-1", "15e-1", "25e-1",
             "4294967295", "4294967296", "4294967295.4", "4294967295.5", "4294967294.5", "4294967296.0", "+5", "-0", "-0.0",
             "-0.4", "-0.5", "0.5", "1.5", "2.5", ".5", "5.", ".", "e5", "1e", "1e+", "1_000", "0x10", "1e400", "1e-400",
             "99999999999999999999", "0.49999", "1.49999", "+", "-", "++5", "5e0", "0e999", "4.294967295e9", "4.294967296e9",
             "42949672950e-1", "42949672955e-1", " 5", "5 ", "5,0", "1/2", "½", "٣"]
    out = list(fixed)
    for _ in range(n):
        ip = rng.choice(["", "0", "5", "12", "4294967295", "4294967296", str(rng.randint(0, 10 ** rng.randint(1, 12)))])
        fp = rng.choice(["", "", ".", ".5", ".0", ".25", ".4999", ".50001", "." + str(rng.randint(0, 999))])
        ex = rng.choice(["", "", "", "e0", "e1", "E2", "e-1", "e+3", "e9", "e10", "e-3", "e", "e-"])
        sg = rng.choice(["", "", "", "+", "-"])
        out.append(sg + ip + fp + ex)
    return out


def gen_servings(rng, n):
    """(carrier, value) pairs"""
    out = [("q", "5 cups worth"), ("y", "5 cups worth"), ("o", "5 cups worth"), ("y", "[1, 2, 2]"), ("y", "[2, 4, 8]"),
           ("y", "4"), ("q", "4"), ("y", "4294967295"), ("y", "4294967296"), ("q", "4294967296"), ("q", "4294967295"),
           ("y", "-4"), ("y", "4.0"), ("y", "[4, 4.0]"), ("q", "2|4|8"), ("q", "2 | 4 |8 people"), ("q", "2|2"),
           ("q", "2|02"), ("q", "5cups"), ("q", "+5"), ("q", ""), ("q", "|"), ("q", "2|"), ("y", "[]"), ("y", "~"),
           ("y", "true"), ("y", "{a: 1}"), ("y", "[[1]]"), ("y", "[\"5 cups\", 6]"), ("y", "[\" 5\"]"), ("y", "[\"5\", 5]"),
           ("y", "!x 4"), ("y", "[!x 4, 5]"), ("q", "٣"), ("q", "5é"), ("q", "5-6"), ("q", "12 servings|24 servings")]
    for _ in range(n):
        k = rng.randint(1, 4)
        nums = [rng.choice([1, 2, 2, 4, 6, 12, 0, TWO32 - 1, TWO32, rng.randint(0, 50)]) for _ in range(k)]
        texts = []
        for x in nums:
            t = rng.choice(["", "", "0"]) + str(x)
            t += rng.choice(["", "", "", " cups", " servings worth", "-ish", " ", "x", ".5", "/2", "é", "\u00a0p"])
            texts.append(t)
        r = rng.random()
        if r < 0.4:
            pads = ["", " ", "  ", "\t"]
            out.append(("q", "|".join(rng.choice(pads) + t + rng.choice(pads) for t in texts)))
        elif r < 0.55:
            out.append(("o", " | ".join(texts)))
        else:
            items = []
            for x, t in zip(nums, texts):
                items.append(str(x) if rng.random() < 0.5 else q(t))
            out.append(("y", "[" + ", ".join(items) + "]"))
    return out


def gen_tags(rng, n):
    out = [("q", "a, b,,a"), ("q", ""), ("q", ","), ("q", " , "), ("y", "[2022, baking, summer]"), ("y", "[a, a, \"\", b]"),
           ("y", "[1.5, -2, true]"), ("y", "[[a]]"), ("y", "[~]"), ("y", "5"), ("y", "~"), ("y", "{a: b}"), ("y", "[]"),
           ("y", "[\" a\", \"a \", a]"), ("y", "[!t a, b]"), ("y", "!t [a, b]"), ("y", "[!t 5]"), ("y", "!t \"a,b\""),
           ("o", "a, b , c,a"), ("q", "a\u00a0,\u2003b,\u00a0"), ("y", "[.inf, .nan, 1e3, 0x10, 007]")]
    words = ["a", "b", "vegan", "gluten free", "é", "名", "x y", "", " ", "2022", "A", "a"]
    for _ in range(n):
        k = rng.randint(0, 6)
        ws = [rng.choice(words) for _ in range(k)]
        r = rng.random()
        if r < 0.5:
            pads = ["", " ", "  ", "\t", "\u00a0"]
            out.append(("q", ",".join(rng.choice(pads) + w + rng.choice(pads) for w in ws)))
        elif r < 0.6:
            out.append(("o", ", ".join(ws)))
        else:
            out.append(("y", "[" + ", ".join(q(w) if rng.random() < 0.8 else str(rng.randint(0, 3)) for w in ws) + "]"))
    return out


def gen_name_url(rng, n):
    names = ["Rachel", "Rachel R. Peterson", "Mom's Cookbook", "#rachel", "Rachel: Best", "é", " ", "", "a<b", "a>b",
             "x://", "http://a.b", "名 前"]
    valid = ["https://rachel.url", "smb://rachel.url", "http://a.b/c d", "h://x", "é://x", "https://a.b/c?d=<e>"]
    invalid = ["foo", "rachel.url", "https://", "https:// a.b", "https://a b/c", "h2://x", "://x", "http:/x", "a b://x",
               "mailto:me@x.y", " ", "", "https://a.b>", "<https://a.b"]
    out = []
    fixed = ["Rachel <foo>", "<foo>", "Rachel <https://rachel.url>", "<https://rachel.url>", "   <https://rachel.url>",
             "https://rachel.url", "Rachel", "<>", "< >", "Rachel <<https://bad.rachel.url>",
             "Rachel <https://two.rachel.url> <https://rachel.url>", "Rachel <https://rachel.url> ", "Rachel <https://rachel.url>\t",
             "Rachel <https://rachel.url>\u00a0", "Rachel < https://rachel.url >", "Rachel<https://rachel.url>", "", "   ",
             "<#rach>el", "Rachel:// Peterson", "://x", "Rachel <://x>"]
    for s in fixed:
        out.append(("q", s))
        out.append(("o", s))
    for _ in range(n):
        nm = rng.choice(names)
        url = rng.choice(valid) if rng.random() < 0.5 else rng.choice(invalid)
        form = rng.random()
        sp = rng.choice(["", " ", "  "])
        if form < 0.45:
            s = nm + sp + "<" + rng.choice(["", " "]) + url + rng.choice(["", " "]) + ">" + rng.choice(["", "", " ", "\t", "\u00a0"])
        elif form < 0.6:
            s = "<" + url + ">"
        elif form < 0.75:
            s = url
        elif form < 0.85:
            s = nm
        else:
            s = nm + " " + url
        out.append((rng.choice(["q", "q", "o"]), s))
    maps = ["{name: Rachel, url: \"https://r.url\"}", "{name: Rachel}", "{url: foo}", "{}", "{name: 5}", "{name: \" \", url: \" \"}",
            "{name: [a]}", "{other: x}", "{name: Rachel, url: 5}", "5", "5.5", "~", "true", "[a]", "!t Rachel", "!t 5",
            "!t {name: Rachel}", "{name: !t Rachel}", "{!t name: Rachel}"]
    for m in maps:
        out.append(("y", m))
    return out


def gen_kinds():
    """YAML values of every kind, run through every accessor"""
    return ["~", "true", "false", "5", "-5", "5.5", ".inf", ".nan", "4294967296", "18446744073709551616", "\"x\"", "\"\"", "[]",
            "[1]", "[a, 1]", "{}", "{a: 1}", "{prep: 5}", "{prep: 5, cook: \"1h\"}", "{prep: x}", "{cook: -1}", "{prep: ~}",
            "{prep: 4294967295, cook: 1}", "{prep: 4294967295, cook: 4294967295}", "{prep: \"71582788h15m\", cook: \"1m\"}",
            "{prep: 1.5}", "{prep: [1]}", "{prep time: 5}", "!t 5", "!t x", "!t [1, 2]", "!t {prep: 1}", "!a !b 5",
            "{prep: !t 5}", "[!t 1, 2]", "en", "en_GB", "1h30m", "2|4", "a, b", "Rachel <https://r.url>", "0x1F", "0o17", "1_000",
            "+5", "1e3", "\"1e3\"", "\"90\"", "90", "007", "\"007\""]


# ---------------------------------------------------------------- machinery

def head_impl(line):
    return line.split(" ; V ")[0]


def head_model(line):
    return line.split(" ; FV ")[0]


def fields(line):
    d = {}
    for part in line.split(" ; "):
        k, _, v = part.partition(" ")
        d[k] = v
    return d


def frac_of(s):
    if s in ("-", "nan", "inf", "~"):
        return None
    if ":" in s:
        m, e = s.split(":")
        return Fraction(int(m)) * (Fraction(2) ** int(e))
    n, _, d = s.partition("/")
    return Fraction(int(n), int(d or "1"))


def is_tie(fi, fm):
    """all differing fields are minutes that differ by one, next to a rounding tie of the exact sum"""
    src = frac_of(fm.get("UT", "-")) if fm.get("UT", "-") != "-" else frac_of(fm.get("FV", "-"))
    if src is None:
        return False
    frac = src - int(src)
    if abs(frac - Fraction(1, 2)) > src / (1 << 40) + Fraction(1, 1 << 60):
        return False
    for k in fi:
        if k in ("V", "FV", "UT"):
            continue
        if fi[k] != fm.get(k):
            if k not in ("M", "T", "O", "MT", "MO"):
                return False
            a = "".join(c for c in fi[k] if c.isdigit())
            b = "".join(c for c in fm[k] if c.isdigit())
            if not a or not b or abs(int(a) - int(b)) != 1:
                return False
    return True


def harness_env():
    return {"STDMETA_SPANISH": SPANISH}


def prepare(bindir, runner):
    """dump the unit tables of the three converters and the classes of the non-ASCII alphabet"""
    exe = os.path.join(bindir, "stdmeta")
    lines = ["U b", "U e", "U s", "U r"] + ["K %d" % c for c in NON_ASCII]
    p = subprocess.run([exe, "-"], input="\n".join(lines) + "\n", text=True, stdout=subprocess.PIPE,
                       env=dict(os.environ, **harness_env()), timeout=120)
    out = p.stdout.splitlines()
    if len(out) != len(lines):
        raise common.Broken("stdmeta harness: converter dump failed")
    dumps = {}
    for cid, l in zip("besr", out[:4]):
        if l != "U unavailable":
            dumps[cid] = l
    alpha = [c for c, l in zip(NON_ASCII, out[4:]) if l.split(" ")[1] == "1"]
    common.ensure_dirs()
    cpath = os.path.join(common.BUILD, "stdmeta-conv-%d.txt" % os.getpid())
    with open(cpath, "w") as f:
        for cid, l in dumps.items():
            f.write("%s %s\n" % (cid, l))
    env = {"STDMETA_CONV": cpath, "STDMETA_ALPHA": ",".join(str(c) for c in alpha)}
    p = subprocess.run([runner, "-"], input="\n".join("C %s" % c for c in dumps) + "\n", text=True,
                       stdout=subprocess.PIPE, env=dict(os.environ, **env), timeout=120)
    ok = dict(zip(dumps, p.stdout.splitlines()))
    return dumps, env, ok, cpath


def build_cases(tier, rng, dumps):
    convs = [c for c in "besr" if c in dumps]
    cases = []   # (group, case line)
    corpus = common.load_corpus("C13")
    for c in corpus:
        cases.append(("corpus", c))
    # exhaustive short strings as a time value
    maxlen = 4 if tier == "quick" else 5
    for s in enum_strings(ALPHA_T, 0, maxlen):
        if s != s.strip() or s == "":
            # blanks at the ends only survive inside quotes
            for cv in convs:
                cases.append(("exh", case(cv, "q", "t", "time", s)))
            continue
        long_ = len(s) == maxlen
        for cv in convs:
            cases.append(("exh", case(cv, "q", "t", "time", s)))
            if not long_ or cv == "b":
                cases.append(("exh", case(cv, "o", "t", "time", s)))
            if not long_:
                cases.append(("exh", case(cv, "y", "t", "time", s)))
    # documented forms
    nforms = 6000 if tier == "quick" else 120000
    for cv in convs:
        units = time_units(dumps[cv])
        for s in gen_time_forms(rng, units, nforms):
            key = rng.choice(["time", "time", "prep time", "cook time", "duration", "cook_time", "time required", "other"])
            car = rng.choice(["q", "q", "o", "y"])
            cases.append(("forms", case(cv, car, "t", key, s)))
        # durations written with a unit that does not measure time (or mixing both): never a number of minutes
        fu = [k for k in foreign_units(dumps[cv]) if k and not k[0].isdigit() and " " not in k]
        tu = [k for k, _ in units]
        for _ in range((300 if tier == "quick" else 6000) if fu else 0):
            n = rng.choice(["2", "5", "1.5", "20", "0", "100"])
            k = rng.choice(fu)
            form = rng.random()
            if form < 0.4:
                s = n + rng.choice(["", " "]) + k
            elif form < 0.7:
                s = n + rng.choice(["", " "]) + k + " " + rng.choice(["20", "3"]) + rng.choice(["", " "]) + rng.choice(fu)
            else:
                s = n + " " + rng.choice(tu) + " " + rng.choice(["20", "3"]) + " " + k
            cases.append(("foreign_units", case(cv, rng.choice(["q", "o", "y"]), "t", rng.choice(["time", "prep time"]), s)))
        for s in gen_numbers(rng, 600 if tier == "quick" else 20000):
            for car in ("q", "y", "o"):
                cases.append(("numbers", case(cv, car, "t", rng.choice(["time", "prep time"]), s)))
    # composed times and totals
    vals = ["4294967295", "4294967294", "1", "2", "0", "2147483648", "71582788h15m", "1h", "x", "-1", "4294967296", "1.5",
            "\"4294967295\"", "\"1 d\"", "[1]", "~"]
    for cv in convs:
        for a in vals:
            for b in vals:
                cases.append(("composed", case(cv, "y", "t", "prep time", a, "cook time", b)))
                cases.append(("composed", case(cv, "y", "t", "time", "{prep: %s, cook: %s}" % (a, b))))
            cases.append(("composed", case(cv, "y", "t", "cook time", a)))
            cases.append(("composed", case(cv, "y", "t", "time", "{cook: %s}" % a)))
            cases.append(("composed", case(cv, "y", "t", "time", "5", "prep time", a)))
        cases.append(("composed", case(cv, "o", "t", "prep time", "4294967295", "cook time", "1")))
    # servings, tags, name/url
    for car, v in gen_servings(rng, 3000 if tier == "quick" else 60000):
        key = rng.choice(["servings", "servings", "serves", "yield"])
        cases.append(("servings", case("b", car, "s", key, v)))
    for car, v in gen_tags(rng, 3000 if tier == "quick" else 60000):
        cases.append(("tags", case("b", car, "g", rng.choice(["tags", "tags", "tag"]), v)))
    for car, v in gen_name_url(rng, 4000 if tier == "quick" else 80000):
        cases.append(("name_url", case("b", car, "n", rng.choice(["author", "source"]), v)))
    # locales: every string up to length 5
    for s in enum_strings(ALPHA_L, 0, 5):
        cases.append(("locale", case("b", "q", "l", "locale", s)))
        if len(s) in (2, 5) and s == s.strip():
            cases.append(("locale", case("b", "o", "l", "locale", s)))
    # every kind of value through every accessor and every checked key
    keys = ["time", "prep time", "servings", "tags", "author", "source", "locale", "title", "description", "course", "other",
            "introduction", "cook_time", "yield", "tag", "duration"]
    for cv in convs:
        for v in gen_kinds():
            for k in keys:
                cases.append(("kinds", case(cv, "y", "tsgnl", k, v)))
    seen = set()
    out = []
    for g, c in cases:
        if c not in seen:
            seen.add(c)
            out.append((g, c))
    return out


def model_line(case_line, impl_line, other_line):
    """the model's case: converter, focus, keys and the YAML terms the implementation stored"""
    f = case_line.split(" ")
    cv, carrier, focus = f[0], f[1], f[2]
    keys = f[3::2]
    vals = f[4::2]
    e = impl_line.split(" ; ")[0].split(" ")
    if e[1] == "panic":
        e = other_line.split(" ; ")[0].split(" ")
    if e[1] == "noparse":
        return None
    if e[1] == "panic":
        if carrier != "o":
            return None
        terms = [hx(unhx(v).strip()) for v in vals]
    else:
        terms = e[1::2]
        if len(terms) != len(keys) or "?" in terms:
            return None
    out = [cv, focus]
    for k, t in zip(keys, terms):
        out += [k, t]
    return " ".join(out)


def run(rep, tier, seed):
    rng = random.Random(seed)
    bind = common.build_harness(["stdmeta"])
    binr = common.build_harness(["stdmeta"], release=True)
    audit = common.audit_property_file("C13")
    runner = common.build_runner("stdmeta", DEPS, commons=COMMONS)
    dumps, menv, conv_ok, cpath = prepare(bind, runner)
    try:
        _run(rep, tier, rng, bind, binr, audit, runner, dumps, menv, conv_ok)
    finally:
        try:
            os.unlink(cpath)
        except OSError:
            pass


def _run(rep, tier, rng, bind, binr, audit, runner, dumps, menv, conv_ok):
    cases = build_cases(tier, rng, dumps)
    lines = [c for _, c in cases]
    impl_d = common.run_lines(os.path.join(bind, "stdmeta"), lines, env=harness_env(), tag="impl-d")
    impl_r = common.run_lines(os.path.join(binr, "stdmeta"), lines, env=harness_env(), tag="impl-r")
    mcases, midx = [], []
    not_stored = 0
    for i, (cl, li, lo) in enumerate(zip(lines, impl_d, impl_r)):
        ml = model_line(cl, li, lo)
        if ml is None:
            not_stored += 1
            continue
        mcases.append(ml)
        midx.append(i)
    mcfg = os.environ.get("C13_MODEL_CFG", "new")   # "old": the code as found (used once, to confirm the defects)
    model_d = common.run_lines(runner, mcases, env=dict(menv, STDMETA_CFG=mcfg, STDMETA_BUILD="debug"), tag="model-d")
    model_r = common.run_lines(runner, mcases, env=dict(menv, STDMETA_CFG=mcfg, STDMETA_BUILD="release"), tag="model-r")

    monitor_hits, disagreements = [], []
    groups, viol_kinds = {}, {}
    ties = 0
    distinct = set()
    answered = 0
    for (g, cl), ld, lr in zip(cases, impl_d, impl_r):
        groups[g] = groups.get(g, 0) + 1
        for build, li in (("debug", ld), ("release", lr)):
            v = li.split(" ; V ")[1].split(" ; ")[0] if " ; V " in li else "-"
            if v != "-":
                viol_kinds[v] = viol_kinds.get(v, 0) + 1
                monitor_hits.append((cl, "documented meaning violated (%s) in the %s build" % (v, build),
                                     {"case": cl, "build": build, "violated": v, "impl": li[:1500],
                                      "input": [unhx(x) for x in cl.split(" ")[3:]]}))
    fv_checked, fv_worst = 0, Fraction(0)
    for i, lmd, lmr in zip(midx, model_d, model_r):
        g, cl = cases[i]
        lm = lmd
        for build, li, lmb in (("debug", impl_d[i], lmd), ("release", impl_r[i], lmr)):
            hi, hm = head_impl(li), head_model(lmb)
            if hi != hm:
                if is_tie(fields(li), fields(lmb)):
                    ties += 1
                    continue
                disagreements.append((cl, {"case": cl, "build": build, "impl": li[:1500], "model": lmb[:1500],
                                           "input": [unhx(x) for x in cl.split(" ")[3:]]}))
        fi = fields(impl_d[i])
        if fi.get("M", "~") not in ("~", "-", "panic"):
            answered += 1
        distinct.add(head_impl(impl_d[i]).split(" ; ", 1)[-1])
        # the f64 oracle against the model's grammar, on a sample of the finite values
        if fv_checked < 40000 and fi.get("F") == "fin":
            a, b = frac_of(fi.get("FV", "-")), frac_of(fields(lm).get("FV", "-"))
            if a is not None and b is not None:
                fv_checked += 1
                dev = abs(a - b) / b if b != 0 else abs(a)
                if b != 0 and abs(b) < Fraction(1, 10 ** 300):
                    continue   # subnormal range: the model keeps the exact rational
                if dev > fv_worst:
                    fv_worst = dev
                if dev > Fraction(1, 1 << 40):
                    disagreements.append((cl, {"case": cl, "what": "parse_f64 model differs from str::parse::<f64>",
                                               "impl": impl_d[i][:800], "model": lm[:800]}))
    for cid, ok in conv_ok.items():
        # the renamed-minute converter has no unit called `min` on purpose: the documented-forms theorems do not
        # apply to it (conv_ok is their hypothesis); what is compared for it is that nothing reads as minutes
        if ok != "C 1" and cid != "r":
            disagreements.append(("conv_ok " + cid, {"what": "hypothesis conv_ok of the theorems fails on the real converter %s" % cid,
                                                     "answer": ok}))
    if os.environ.get("C13_DUMP"):
        with open(os.environ["C13_DUMP"], "w") as f:
            for s, d in disagreements:
                f.write(json.dumps(d, ensure_ascii=False) + "\n")
    if "s" not in dumps:
        rep.assumptions.append("units/spanish.toml did not load: the renamed-units converter was not exercised")

    common.decide(rep, "C13", "L-std", audit, monitor_hits, disagreements, tier,
                  "correspondence Model/StdMeta.v <-> src/metadata.rs (value accessors, Metadata accessors, parse-time check)")
    common.proof_coverage(rep, "C13", audit, tier,
                          "parse_time, parse_common_time_format, parse_time_with_units, dynamic/hard_coded_time_units, "
                          "value_as_{minutes,time,servings,tags,locale}, NameAndUrl::parse, is_url, check_std_entry, "
                          "StdKey::from_str, Metadata::{time,servings,tags,author,source,locale}, RecipeTime::total "
                          "(src/metadata.rs); the std-key check call sites of src/analysis/event_consumer.rs "
                          "264-285,405-441 are observed through the parser (warning text), not modelled")
    sample_idx = [i for i in (0, len(lines) // 3, len(lines) // 2, len(lines) - 1) if i < len(lines)]
    rep.coverage.update({
        "evaluations": 2 * len(lines), "model_cfg": mcfg, "cases": len(lines), "model_cases": len(mcases), "not_stored_or_unparsed": not_stored,
        "case_groups": groups, "distinct_nontrivial": len(distinct), "minutes_answered": answered,
        "rule": "every string up to length %d over %r as a time value (quoted YAML for all, `>>` and raw YAML for the shorter ones) "
                "with the bundled, the empty, the bundled+spanish and a renamed-minute converter; durations written with non-time units; seeded documented time forms with every key of "
                "every Time unit of each converter and totals up to and beyond 2^32 minutes; numbers without unit incl. nan/inf/"
                "negative/exponent forms; composed prep/cook pairs around 2^32; servings lists with duplicates and trailing text; "
                "tag lists; the name/URL grammar; every string up to length 5 over %r as locale; %d YAML values of every kind "
                "through every accessor and %d keys; debug and release builds; distinct_nontrivial = distinct accessor outputs"
                % (4 if tier == "quick" else 5, "".join(ALPHA_T), "".join(ALPHA_L), len(gen_kinds()), 16),
        "exhaustive": True,
        "samples": [{"case": [unhx(x) for x in lines[i].split(" ")[3:]], "conv": lines[i][0], "impl": impl_d[i][:400]} for i in sample_idx],
        "correspondence_disagreements": len(disagreements), "monitor_violations": len(monitor_hits),
        "monitor_violation_kinds": viol_kinds, "rounding_ties": ties,
        "f64_oracle_checked": fv_checked, "f64_oracle_worst_rel_dev": float(fv_worst),
        "converters": {k: v.split(" ; ")[0] for k, v in dumps.items()}, "conv_ok": conv_ok,
    })
    rep.assumptions += [
        "str::parse::<f64> is the grammar parse_f64 of Model/StdMeta.v up to rounding (class compared on every string value, "
        "value within 2^-40 on a sample)",
        "serde_yaml's parse of the front matter and Number::to_string are oracles: the stored values are shipped to the model",
        "char::is_alphabetic / is_whitespace outside ASCII: classes of the generator alphabet are read from the implementation",
    ]


def setup():
    common.build_harness(["stdmeta"])
    common.build_harness(["stdmeta"], release=True)
    common.build_runner("stdmeta", DEPS, commons=COMMONS)


def replay(rp):
    r = rp["replay"]
    if "case" not in r:
        print("nothing to replay on the implementation: %s" % rp.get("what"))
        return 1
    bindir = common.build_harness(["stdmeta"], release=(r.get("build") == "release"))
    p = subprocess.run([os.path.join(bindir, "stdmeta"), "-"], input=r["case"] + "\n", text=True,
                       stdout=subprocess.PIPE, env=dict(os.environ, **harness_env()))
    print(p.stdout.strip())
    return 0 if " ; V - ;" in p.stdout else 1
