"""C04 - every reported source location is in bounds, on char boundaries, faithful."""
from checks import span_cover as sc

PID = "C04"


def run(rep, tier, seed):
    sc.run(PID, "c04:", rep, tier, seed,
           "lexer (token spans: theorems), pull parser events and diagnostics labels (Model/Parser.v: spans computed "
           "by the same arithmetic as the Rust code and compared exactly with the implementation); analysis-stage "
           "labels and codesnake rendering are observed on the implementation only",
           "theorems cover the token stream (tiling, adjacency, faithfulness, span_ok) for every input and Unicode "
           "classification; event/AST/label spans are decided by exact correspondence + monitor")
    rep.assumptions = ["AST nodes are the event payloads moved into blocks (src/ast.rs): their spans are the event spans",
                       "report rendering (codesnake) is third-party code: exercised, not modelled"]


setup = sc.setup


def replay(rp):
    return sc.replay(rp, "c04:")
