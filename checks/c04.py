"""C04 - every reported source location is in bounds, on char boundaries, faithful.

Besides the shared body (checks/span_cover.py) and the front-matter label comparison (checks/c04_labels.py),
every run REGENERATES coq/Gen/LabelSites.v from /repo/src/analysis/*.rs (gen/gen_labels.py): the inventory of
the label / span expressions of the analysis stage, pinned by the obligation C04_label_inventory and keyed to
the classification table of Model/AnalysisLabels.v (C04_label_inventory_classified).  A label expression
that is added, removed or edited breaks the obligations (the build of Properties/C04.vo fails) and is reported
with its location; moving code does not."""
import os
import sys

from vlib import common
from checks import c04_labels
from checks import span_cover as sc

sys.path.insert(0, os.path.join(common.VERIF, "gen"))
import gen_labels  # noqa: E402

PID = "C04"


def inventory():
    """regenerate Gen/LabelSites.v; -> (stats, disagreements in the format of span_cover's `extra` hook)"""
    inv = gen_labels.regenerate()
    expected = gen_labels.expected_sites()
    new, gone = gen_labels.diff(inv["items"], expected)
    st = {"sites": len(inv["items"]), "expected": None if expected is None else len(expected),
          "file_rewritten": inv["changed"], "new": new, "gone": gone,
          "by_kind": {k: sum(1 for it in inv["items"] if it["kind"] == k) for k in "LMSA"},
          "samples": ["%s:%d %s: %s" % (it["file"], it["line"], it["fn"], it["text"][:160]) for it in inv["items"][:3]]}
    dis = []
    if expected is None or new or gone:
        what = ("the label inventory of %s differs from the list of C04_label_inventory: new %s; gone %s"
                % (os.path.join(common.REPO, gen_labels.SUBDIR), new, gone)) if expected is not None else \
            "Properties/C04.v has no theorem C04_label_inventory"
        dis.append(("label inventory", {"what": what, "new": new, "gone": gone,
                                        "unchecked": "classification of the analysis-stage label expressions "
                                                     "(Model/AnalysisLabels.v label_table) <-> src/analysis/*.rs"}))
        common.log("  " + what)
    return st, dis


def run(rep, tier, seed):
    inv_stats, inv_dis = inventory()
    sc.run(PID, "c04:", rep, tier, seed,
           "lexer (token spans: theorems), pull parser events and diagnostics labels (Model/Parser.v: spans computed "
           "by the same arithmetic as the Rust code and compared exactly with the implementation); analysis-stage "
           "labels: every label expression of src/analysis/*.rs is read from the source on every run "
           "(gen/gen_labels.py -> Gen/LabelSites.v, pinned by C04_label_inventory) and classified row by row "
           "(Model/AnalysisLabels.v label_table); yaml_find_key_position modelled and compared with the "
           "implementation through the labels of the 'Unsupported value for key' and 'Time overriden' warnings, the "
           "front matter error label compared with serde_yaml's own location (checks/c04_labels.py); codesnake "
           "rendering is observed on the implementation only",
           "theorems cover the token stream (tiling, adjacency, faithfulness, span_ok) for every input and Unicode "
           "classification; every span of every parser event and parse-stage label for every input "
           "(C04_event_spans_ok, C04_diag_labels_ok); every label any analysis-stage site can produce from the events of "
           "any input (C04_analysis_labels_ok, read from the regenerated inventory: C04_inventory_labels_ok; hypothesis: "
           "serde_yaml's error index is a character boundary of the front matter, checked on every rejected front "
           "matter of the run); the correspondence ties the models to the code",
           extra=lambda inputs: inv_dis + c04_labels.extra(inputs))
    rep.coverage["analysis_label_key_positions"] = c04_labels.LAST_STATS
    rep.coverage["analysis_label_inventory"] = inv_stats
    rep.assumptions = ["oracle hypothesis yaml_index_ok: the index of serde_yaml's error location is a character boundary "
                       "of the text it parsed (monitored: checks/c04_labels.py and the c04:label monitor)",
                       "the inventory of label expressions is a token-level scan of src/analysis/*.rs (label!, .label, "
                       ".add_label, error!/warning! label argument, Span::new/pos/from, arguments at Span parameters of "
                       "local functions; a lone identifier is followed by its nearest binder): a span computed in another "
                       "module and passed through a name is pinned as that name, not as its computation; which site a "
                       "row reaches (label_table) is read off the source by hand",
                       "AST nodes are the event payloads moved into blocks (src/ast.rs): their spans are the event spans",
                       "report rendering (codesnake) is third-party code: exercised, not modelled"]


def setup():
    gen_labels.regenerate()
    sc.setup()
    common.build_harness(["yamlkey"], release=True)
    common.build_runner("yamlkey", c04_labels.DEPS, commons=("common_n.ml",))
    common.build_coq(["Properties/C04.vo"])


def replay(rp):
    if "input_hex" in rp.get("replay", {}):
        return sc.replay(rp, "c04:")
    # a broken obligation / a changed inventory without a failing input: rebuild the obligations
    st, dis = inventory()
    audit = common.audit_property_file(PID)
    print("label inventory: %d sites, new %s, gone %s" % (st["sites"], st["new"], st["gone"]))
    print("obligations: %d/%d %s" % (audit["discharged"], audit["obligations"], "; ".join(audit["failed"])))
    return 0 if audit["ok"] and not dis else 1
