"""C04 - every reported source location is in bounds, on char boundaries, faithful."""
from vlib import common
from checks import c04_labels
from checks import span_cover as sc

PID = "C04"


def run(rep, tier, seed):
    sc.run(PID, "c04:", rep, tier, seed,
           "lexer (token spans: theorems), pull parser events and diagnostics labels (Model/Parser.v: spans computed "
           "by the same arithmetic as the Rust code and compared exactly with the implementation); analysis-stage "
           "labels: every label expression of event_consumer.rs enumerated and classified (Model/AnalysisLabels.v), "
           "yaml_find_key_position modelled and compared with the implementation through the labels of the "
           "'Unsupported value for key' and 'Time overriden' warnings (checks/c04_labels.py); codesnake rendering is "
           "observed on the implementation only",
           "theorems cover the token stream (tiling, adjacency, faithfulness, span_ok) for every input and Unicode "
           "classification; every span of every parser event and parse-stage label for every input "
           "(C04_event_spans_ok, C04_diag_labels_ok); every label any analysis-stage site can produce from the events of "
           "any input (C04_analysis_labels_ok; hypothesis: serde_yaml's error index is a character boundary of the front "
           "matter, checked on every rejected front matter of the run); the correspondence ties the models to the code",
           extra=c04_labels.extra)
    rep.coverage["analysis_label_key_positions"] = c04_labels.LAST_STATS
    rep.assumptions = ["oracle hypothesis yaml_index_ok: the index of serde_yaml's error location is a character boundary "
                       "of the text it parsed (monitored: checks/c04_labels.py and the c04:label monitor)",
                       "AST nodes are the event payloads moved into blocks (src/ast.rs): their spans are the event spans",
                       "report rendering (codesnake) is third-party code: exercised, not modelled"]


def setup():
    sc.setup()
    common.build_harness(["yamlkey"], release=True)
    common.build_runner("yamlkey", c04_labels.DEPS, commons=("common_n.ml",))


def replay(rp):
    return sc.replay(rp, "c04:")
