"""Shared body of the C04 (source locations) and C05 (nothing dropped) checks: both run the
L-lex/L-ev correspondence (spans are compared exactly there) and the property monitor of
harness/src/bin/pmon.rs on inputs biased to multi-byte characters next to every marker."""
import random

from vlib import common
from vlib.common import hx
from checks import parser_common as pc

# multi-byte neighbours for every kind of marker (2-, 3- and 4-byte characters)
SIGMA_MB = ["a", "1", " ", "\n", "@", "~", "#", "{", "}", "(", ")", "%", "|", "\\", "&", "é", "名", "\U0001F955", "¿", "\u00a0"]
SIGMA_C05 = ["a", "1", " ", "\n", "@", "#", "~", "{", "}", "(", ")", "%", "-", "[", "]", "\\", ">", ":", "=", "é"]
MB_WORDS = ["é", "名", "\U0001F955", "añ", "ß1", "x名", "naïve", "名前"]


def mb_recipes(rng, n):
    """generated recipes in which names, units, notes and text come from a non-ASCII vocabulary and a
    multi-byte character is forced next to a marker"""
    out = []
    markers = ["@", "#", "~", "{", "}", "(", ")", "%", "|", "\\", "&", "=", ">>", "--", "[-", "-]", ":", "\n"]
    for text, _, _, _ in pc.grec_texts(rng, n):
        t = text
        for _ in range(rng.randint(1, 4)):
            w = rng.choice(MB_WORDS)
            k = rng.random()
            if k < 0.5 and t:
                # replace an ASCII letter run start
                idx = [i for i, c in enumerate(t) if c.isalpha() and c.isascii()]
                if idx:
                    i = rng.choice(idx)
                    t = t[:i] + w + t[i + 1:]
            else:
                m = rng.choice(markers)
                idx = [i for i in range(len(t)) if t.startswith(m, i)]
                if idx:
                    i = rng.choice(idx)
                    t = t[:i] + w + t[i:] if rng.random() < 0.5 else t[:i + len(m)] + w + t[i + len(m):]
        out.append(t)
    return out


MB_COMMENTS = ["-- é\n", "[- 名 -]", "-- ¿\n", "[-é-]", "-- x名\r\n", "[- \U0001F955\n-]"]


def diag_texts(rng, per):
    """texts that draw every catalogued diagnostic (checks/c07_catalog.py: parse and analysis stage), plain and
    with comments ending in multi-byte characters injected after `(`, `{`, `|`, `%`, `:` and blanks, so that label
    arithmetic next to a comment or a multi-byte character is exercised for every diagnostic"""
    from checks import c07_catalog as cat
    out = []
    for en in cat.CATALOG:
        cfgs = en.configs()
        for k in range(per):
            ext, conv = cfgs[k % len(cfgs)]
            sp = cat.splice(rng, en, ext)
            if sp is None:
                continue
            t = sp["text"]
            out.append(t)
            a, b = sp["a"], sp["b"]
            raw = t.encode("utf-8")
            # inject inside (or right next to) the construct
            pos = [i + 1 for i in range(max(0, a - 1), min(len(raw), b + 1)) if raw[i:i + 1] in (b"(", b"{", b"|", b"%", b":", b" ")]
            for _ in range(2):
                if not pos:
                    break
                i = rng.choice(pos)
                out.append((raw[:i] + rng.choice(MB_COMMENTS).encode("utf-8") + raw[i:]).decode("utf-8", "replace"))
    return out


def inputs_for(pid, tier, rng):
    quick = tier == "quick"
    if pid == "C04":
        # thorough: length 5 over the 12 symbols that matter most for spans (markers + one char of each UTF-8 width)
        sub = ["a", " ", "\n", "@", "~", "{", "}", "(", ")", "%", "é", "名"]
        ex = list(pc.enum_strings(SIGMA_MB, 4)) + ([] if quick else list(pc.enum_strings(sub, 5, minlen=5)))
        specials = ["~名(x)", "~名()", "~é(x)", "@名(n){1%名}", "#名|名{2}(名)", "@a{=1%é}", "~{1%名}",
                    "---\n名: é\n---\n@名{}", "---\n[\n---\n名", ">> 名: é", "= 名 =", "> 名 @é", "\\名", "名\\"]
    else:
        ex = list(pc.enum_strings(SIGMA_C05, 3 if quick else 4)) + list(pc.enum_strings(pc.SIGMA_CORE, 4))
        specials = ["hello\n---\na: 1\n---\nstep", "---\na: 1\n---\nstep", "a [- b -] c", "a -- b\nc", "\\-- a",
                    "[- a", "a \\[- b -] c", "-- a\n>> k: v", "@a{1%b} -- c", "= s = x", "== s == x"]
    fm = (pc.frontmatter_family(3 if quick else 4) if pid == "C05" else pc.frontmatter_family(2)) + pc.fm_placements() + pc.edge_families()
    ng = 1500 if quick else 12000
    g = [t for t, _, _, _ in pc.grec_texts(rng, ng)]
    mb = mb_recipes(rng, ng)
    bad = [pc.mutate(t, rng) for t in g + mb]
    dg = diag_texts(rng, 4 if quick else 30) if pid == "C04" else []
    corpus = [common.unhx(c) for c in common.load_corpus(pid)]
    allin = list(dict.fromkeys(corpus + specials + ex + fm + g + mb + dg + bad))
    return allin, len(ex), len(fm), len(g) + len(mb) + len(dg), len(bad)


def run(pid, prefix, rep, tier, seed, modelled, theorem_scope, extra=None):
    rng = random.Random(seed)
    paths = pc.prepare(need_release=False)
    audit = common.audit_property_file(pid)
    inputs, n_ex, n_fm, n_g, n_bad = inputs_for(pid, tier, rng)
    exts = [0, pc.EXT_ALL] + ([2050, 32, 8] if tier == "thorough" else [])
    dis, ncases, npan = pc.lev_disagreements(paths, inputs, exts)
    n_extra = 0
    if extra is not None:
        dis = dis + extra(inputs)
        n_extra = len(inputs)
    mon = pc.run_pmon(paths, inputs, [(e, "b" if e else "e") for e in exts], env={"PMON_LIGHT": "1"})
    hits = []
    kinds = {}
    for s, e, c, v in mon:
        bad = [x for x in v if x.startswith(prefix) or (x == "mon:panic" and pid == "C04")]
        for x in bad:
            k = x.split(":")[1] if pid == "C04" else "dropped"
            if x == "mon:panic":
                k = "spans_unusable_by_the_monitor"
            kinds[k] = kinds.get(k, 0) + 1
        if bad:
            hits.append((s, "%s on the implementation" % ",".join(bad),
                         {"input": s, "input_hex": hx(s), "ext": e, "conv": c, "violations": bad}))
    nontrivial = set(s for s in inputs if any(ord(ch) > 127 for ch in s)) if pid == "C04" else \
        set(s for s in inputs if "--" in s or "[-" in s or "---" in s or "\\" in s)
    common.decide(rep, pid, "L-lex/L-ev + span/coverage monitor", audit, hits, dis, tier,
                  "correspondence Model/Lexer.v, Model/Parser.v <-> src/lexer, src/parser (spans compared exactly)")
    common.proof_coverage(rep, pid, audit, tier, modelled)
    rep.coverage.update({
        "evaluations": ncases + len(mon), "distinct_nontrivial": len(nontrivial),
        "rule": "exhaustive short strings (%d) over the property's alphabet, front-matter line arrangements (%d), "
                "generated recipes incl. a non-ASCII vocabulary with multi-byte characters forced next to markers (%d), "
                "one-token mutations (%d), corpus and specials first; under %d extension sets; L-ev compared "
                "(spans exactly), then the monitor of harness/src/bin/pmon.rs on the implementation's own events, "
                "labels and report rendering" % (n_ex, n_fm, n_g, n_bad, len(exts)),
        "samples": [{"input": s} for s in inputs[:2] + inputs[n_ex + n_fm + 30:n_ex + n_fm + 32] + inputs[-2:]],
        "theorem_scope": theorem_scope,
        "correspondence_cases": ncases + n_extra, "correspondence_disagreements": len(dis), "both_sides_panic_cases": npan,
        "monitor_cases": len(mon), "monitor_violations": len(hits), "monitor_violation_kinds": kinds,
        "exhaustive": False,
    })


def setup():
    pc.prepare(need_release=False)
    common.build_harness(["pmon"])


def replay(rp, prefix):
    import os
    import subprocess
    bindir = common.build_harness(["pmon"])
    r = rp["replay"]
    if "input_hex" not in r:
        print("nothing to replay: " + rp.get("what", ""))
        return 1
    line = "%s %s %s\n" % (r["input_hex"], r.get("ext", 0), r.get("conv", "e"))
    env = dict(os.environ)
    env["PMON_LIGHT"] = "1"
    p = subprocess.run([os.path.join(bindir, "pmon"), "-"], input=line, text=True, stdout=subprocess.PIPE, env=env)
    print(p.stdout.strip())
    return 1 if prefix in p.stdout else 0
